"""C20 — optimiser trajectories return exactly what was stored, in memory or on disk (DESIGN 6/C20).

Tie: coq/C20/Model.v is a hand-written state machine of OptimiserHistory (base.py:916-1218) with the
trajectory zip file as part of the state.  Every run
  1. re-checks the theorems of coq/C20/Props.v (refinement to the list of pushed items),
  2. replays on the real class the inputs of the three defects repaired by /repo commit 24aa35f
     (open after more than maxlen adds, load of an archive without coordinates, second close),
  3. runs EVERY sequence over {open, add, save_opt_params, close, load, clean_up} up to a bounded
     length for maxlen in {1,2,3} (and None, shorter) on the real class in a scratch directory, observes after every
     step everything there is to observe (private fields, len, every index from -(len+1) to len+1,
     iter, reversed, final, penultimate, get_opt_params, the zip member list with contents, what
     load() makes of the file right now, three foreign files) and lets Coq compare that with the
     model (vm_compute, one number per node);
  4. evaluates the property itself on the implementation at every node of a single-object life
     (independent of the model) - those are the findings/violations with a concrete replay;
  5. the same with a finished archive of an earlier run already present under the trajectory's name
     and the name given with / without the ".zip" suffix (nothing of the earlier archive may survive
     open(), neither live nor after reload nor in any simulated stop);
  6. simulated stops: after every low-level write of every operation, and for torn / truncated
     copies of the file, load() must raise a clean error or see the archive before or after the
     operation.
"""
import io
import itertools
import os
import pickle
import shutil
import sys
import zipfile
from collections import deque
from multiprocessing import get_context

import numpy as np

from common import NPROC, REPO, shrink_list, source_pins

TRUSTED_BASE = [
    "Coq 8.16.1 kernel + coqc; vm_compute only for the concrete regression / non-vacuity Examples and in the correspondence check (no native_compute)",
    "Print Assumptions: every C20 theorem is closed under the global context (no axioms)",
    "hand-written model coq/C20/Model.v of OptimiserHistory + its zip file, tied to /repo by the exhaustive step-by-step correspondence of this harness",
    "atomic-or-unreadable assumption on archive updates: one ZipFile session = one commit; an interrupted session leaves a file that load() refuses (zipfile rewrites the central directory last). Probed on the real zipfile after every low-level write and on torn/truncated copies; OS write reordering is not modelled",
    "pickle round-trips a CartesianCoordinates with e/g/h (exercised: every retrieved item is compared field by field with what was pushed)",
    "python zipfile/os/pickle, the harness' observation + encoding code (mirrored by coq/C20/Corr.v)",
]
ASSUMPTIONS = [
    "a stop INSIDE one operation is not modelled: that one ZipFile session is all-or-unreadable is assumed and only probed (simulated stops); crash_prefix_partial covers stops between operations",
    "retrieval theorems presuppose a backing file (open() before the (maxlen+1)-th add); without one the class documents that older entries are lost (None) - every_index_without_file_refuted",
    "items and parameter dicts are opaque to the model; window sizes maxlen >= 1 (maxlen=None behaves as a window larger than the run)",
    "theorems quantify over one life of one object (no clean_up, no replacement by a reloaded object); sequences outside that are covered by the correspondence only",
    "the model's 'unreadable file => ValueError' stands for {ValueError, zipfile.BadZipFile} on the implementation",
]
RULE = ("bounded-exhaustive: every operation sequence over {open, add, save_opt_params, close, load, clean_up} up to "
        "length 5 (quick) / 7 (thorough), maxlen in {1,2,3} (maxlen=None to length 4/5), all observers evaluated after every step; thorough adds "
        "state-deduplicated breadth-first exploration to length 6 (quick, maxlen 2) / 8 (thorough, maxlen 1..3) and random sequences of length <= 30; a node is "
        "non-trivial when its operation changed the observable state or raised; distinct by (maxlen, path). "
        "Start configurations: empty directory, or a finished archive of an earlier run (other items and parameters) "
        "already present under the trajectory's name, with the name passed to open()/load() as 't.zip', 't' or 't.ZIP' "
        "(trees to length 4 quick / 5-6 thorough); the model starts from that archive (Open replaces it). "
        "Simulated stops: low-level writes of every file-changing operation (all of them in the deduplicated and random "
        "streams, up to 10 evenly spaced per operation in the exhaustive stream) plus torn and truncated images at "
        "64-byte steps.")

# every function coq/C20/Model.v was written from (its file:line comments), plus the callers whose use of a
# trajectory the reuse oracles rely on
PINS = [("autode/opt/optimisers/base.py", "OptimiserHistory." + m) for m in (
    "__init__", "final", "penultimate", "_n_stored", "__len__", "open", "load", "clean_up", "save_opt_params",
    "get_opt_params", "add", "close", "__getitem__", "__iter__", "__reversed__")] + [
    ("autode/opt/optimisers/base.py", "NDOptimiser.from_file"),
    ("autode/calculations/executors.py", "CalculationExecutorO.run"),
    ("autode/calculations/executors.py", "CalculationExecutorO._opt_trajectory_name"),
    ("autode/calculations/executors.py", "CalculationExecutorO._opt_trajectory_exists"),
    ("autode/calculations/executors.py", "CalculationExecutorO._set_properties_from_optimiser"),
    ("autode/opt/optimisers/base.py", "Optimiser.run"),
    ("autode/opt/optimisers/base.py", "Optimiser._coords"),
    ("autode/opt/optimisers/base.py", "NDOptimiser.optimiser_params"),
    # what is stored is a pickle of the coordinate object / the parameter dict: the hooks that decide what a pickle
    # contains (present or ABSENT today - an added hook changes the hash from None)
    ("autode/values.py", "ValueArray.__new__"),
    ("autode/opt/coordinates/base.py", "OptCoordinates.__new__"),
    ("autode/opt/coordinates/base.py", "OptCoordinates.__array_finalize__"),
    ("autode/opt/coordinates/cartesian.py", "CartesianCoordinates.__new__"),
    ("autode/opt/coordinates/cartesian.py", "CartesianCoordinates.__array_finalize__"),
] + [(f, f"{c}.{m}") for f, c in (("autode/values.py", "ValueArray"), ("autode/values.py", "Value"),
                                  ("autode/opt/coordinates/base.py", "OptCoordinates"),
                                  ("autode/opt/coordinates/cartesian.py", "CartesianCoordinates"),
                                  ("autode/opt/coordinates/dic.py", "DIC"),
                                  ("autode/opt/optimisers/base.py", "ConvergenceParams"))
     for m in ("__reduce__", "__reduce_ex__", "__getstate__", "__setstate__", "__copy__", "__deepcopy__")]

SLICE = ["C20/Model.v", "C20/Lemmas.v", "C20/Props.v", "C20/Corr.v"]
PRE = ("From Coq Require Import List ZArith NArith Bool.\nFrom AV.lib Require Import QcInst.\n"
       "From AV.C20 Require Import Model Corr.\nImport ListNotations.\n")

OPS = "OAPCLU"
ML_NONE = 126     # maxlen=None is run against the model with a window of 126 (> any run here)
K_LATE = "OptimiserHistory|late-open-misindex"
K_EMPTY = "OptimiserHistory|load-empty-keyerror"
K_DOUBLE = "OptimiserHistory|double-close-duplicates"
K_STALE = "OptimiserHistory|earlier-archive-survives"

# error classes -> codes shared with coq/C20/Corr.v (ecode)
E_RUNTIME, E_INDEX, E_EXISTS, E_NOTFOUND, E_VALUE, E_KEY, E_TYPE = 1, 2, 3, 4, 5, 6, 7
E_BADZIP, E_OTHER, C_CORRUPT, C_NONE, C_DONE = 124, 127, 15, 9, 10
CLEAN_LOAD_ERRORS = (E_NOTFOUND, E_VALUE, E_BADZIP)


_ECLS = [(zipfile.BadZipFile, E_BADZIP), (FileExistsError, E_EXISTS), (FileNotFoundError, E_NOTFOUND),
         (RuntimeError, E_RUNTIME), (IndexError, E_INDEX), (KeyError, E_KEY), (ValueError, E_VALUE), (TypeError, E_TYPE)]


def _ecode(e):
    """documented exception class (a subclass counts as its documented base)"""
    for c, k in _ECLS:
        if isinstance(e, c):
            return k
    return E_OTHER


ENAME = {1: "RuntimeError", 2: "IndexError", 3: "FileExistsError", 4: "FileNotFoundError", 5: "ValueError",
         6: "KeyError", 7: "TypeError", 9: "None", 10: "ok", 15: "CORRUPT-ITEM", 124: "BadZipFile",
         127: "other exception"}


def cname(c):
    return ENAME.get(c, f"item#{c - 16}" if 16 <= c < 120 else str(c))


def pname(c):
    return f"params#{c - 16}" if 16 <= c < 120 else cname(c)


# --------------------------------------------------------------------------- items
def mk_item(t):
    from autode.opt.coordinates import CartesianCoordinates
    from autode.values import PotentialEnergy
    c = CartesianCoordinates(np.array([float(t), 0.5, -1.0]))
    c.e = PotentialEnergy(-float(t) - 0.5)
    c.g = np.array([t + 0.25, 0.0, 1.0])
    c.h = np.eye(3) * (t + 1.0)
    return c


def icode(c):
    """16+tag when the object is the pushed coordinate set with ITS energy, gradient and Hessian."""
    from autode.opt.coordinates import CartesianCoordinates
    if c is None:
        return C_NONE
    try:
        t = int(round(float(c[0])))
        ok = (isinstance(c, CartesianCoordinates) and 0 <= t < 100
              and np.array_equal(np.asarray(c), np.array([float(t), 0.5, -1.0]))
              and c.e is not None and float(c.e) == -float(t) - 0.5
              and c.g is not None and np.array_equal(np.asarray(c.g), np.array([t + 0.25, 0.0, 1.0]))
              and c.h is not None and np.array_equal(np.asarray(c.h), np.eye(3) * (t + 1.0)))
        return 16 + t if ok else C_CORRUPT
    except Exception:  # noqa
        return C_CORRUPT


def _r(f):
    try:
        return icode(f())
    except Exception as e:  # noqa
        return _ecode(e)


def _seq(mkgen):
    out, term = [], C_DONE
    try:
        for x in mkgen():
            out.append(icode(x))
    except Exception as e:  # noqa
        term = _ecode(e)
    return [len(out)] + out + [term]


def _pcode(h):
    try:
        d = h.get_opt_params()
        if isinstance(d, dict) and list(d) == ["k"] and isinstance(d["k"], int) and 0 <= d["k"] < 100:
            return 16 + d["k"]
        return C_CORRUPT
    except Exception as e:  # noqa
        return _ecode(e)


# --------------------------------------------------------------------------- observation (mirrors Corr.obs)
def obs_obj(h):
    """-> dict; flat() gives the digit list in the order of Corr.obs_obj."""
    ml = h._maxlen
    ml = 126 if ml == float("inf") else int(ml)
    if h._memory.maxlen != (None if ml == 126 else ml):
        ml = 125
    n = int(h._len)
    return {"ml": ml, "len_": n, "fname": int(h._filename is not None), "closed": int(bool(h._is_closed)),
            "mem": [icode(x) for x in h._memory], "len": len(h),
            "get": [_r(lambda z=z: h[z]) for z in range(-(n + 1), n + 2)],
            "iter": _seq(lambda: iter(h)), "rev": _seq(lambda: reversed(h)),
            "final": _r(lambda: h.final), "penult": _r(lambda: h.penultimate), "params": _pcode(h)}


def flat_obj(s):
    return ([s["ml"], s["len_"], s["fname"], s["closed"], len(s["mem"])] + s["mem"] + [s["len"]] + s["get"]
            + s["iter"] + s["rev"] + [s["final"], s["penult"], s["params"]])


def obs_fs(path):
    if not os.path.exists(path):
        return [14]
    try:
        with zipfile.ZipFile(path, "r") as z:
            infos = z.infolist()
            out = [15, len(infos)]
            for inf in infos:
                nm = inf.filename
                if nm == "ade_opt_trj":
                    out += [11]
                elif nm == "opt_params":
                    with z.open(inf) as fh:
                        d = pickle.load(fh)
                    out += [12, 16 + d["k"] if isinstance(d, dict) and list(d) == ["k"] else C_CORRUPT]
                elif nm.startswith("coords_") and nm[7:].isdigit():
                    with z.open(inf) as fh:
                        c = pickle.load(fh)
                    out += [13, int(nm[7:]), icode(c)]
                else:
                    out += [123]
            return out
    except Exception:  # noqa
        return [122]


def foreign_content(fs, P, saved):
    """members of an obs_fs digit list that are not this life's (items not in P, other parameters)"""
    if not fs or fs[0] != 15:
        return []
    own = {16 + t for t in P}
    i, bad = 2, []
    while i < len(fs):
        if fs[i] == 13:
            if fs[i + 2] not in own:
                bad.append(f"coords_{fs[i + 1]}={cname(fs[i + 2])}")
            i += 3
        elif fs[i] == 12:
            if saved is None or fs[i + 1] != 16 + saved:
                bad.append(f"opt_params={pname(fs[i + 1])}")
            i += 2
        else:
            i += 1
    return bad


def count_coords(fs):
    """number of coords_<i> members in an obs_fs digit list"""
    if not fs or fs[0] != 15:
        return 0
    i, n = 2, 0
    while i < len(fs):
        if fs[i] == 13:
            n += 1
            i += 3
        elif fs[i] == 12:
            i += 2
        else:
            i += 1
    return n


def obs_load(path):
    """what OptimiserHistory.load makes of `path`:  [error code]  or  [10] + object observation"""
    from autode.opt.optimisers.base import OptimiserHistory
    try:
        l = OptimiserHistory.load(path)
    except Exception as e:  # noqa
        return [_ecode(e)], None, type(e).__name__
    s = obs_obj(l)
    return [C_DONE] + flat_obj(s), s, None


def put(path, data):
    """write a scratch file without O_TRUNC on an existing one (ext4 flushes on truncate-then-write)"""
    if os.path.exists(path):
        with open(path, "r+b") as f:
            f.write(data)
            f.truncate()
    else:
        with open(path, "wb") as f:
            f.write(data)


def encode(digits):
    acc = 1
    for d in digits:
        assert 0 <= d < 128, digits
        acc = acc * 128 + d
    return acc


# --------------------------------------------------------------------------- low-level write spy
class _Spy:
    def __init__(self, f, path, owner):
        self._f, self._p, self._o = f, path, owner

    def _snap(self):
        if self._o.rec is not None:
            self._f.flush()
            with open(self._p, "rb") as g:
                b = g.read()
            if not self._o.rec or self._o.rec[-1] != b:
                self._o.rec.append(b)

    def write(self, b):
        r = self._f.write(b)
        self._snap()
        return r

    def truncate(self, *a):
        r = self._f.truncate(*a)
        self._snap()
        return r

    def __getattr__(self, k):
        return getattr(self._f, k)

    def __enter__(self):
        return self

    def __exit__(self, *a):
        return self._f.__exit__(*a)


class _IOProxy:
    """stands in for the `io` module inside zipfile: binary files opened for writing are spied on"""
    rec = None
    fail_writes = None      # an exception to raise instead of opening a file for writing (fault injection)
    fail_hit = False

    def __getattr__(self, k):
        return getattr(io, k)

    def open(self, file, mode="r", *a, **k):
        if self.fail_writes is not None and "b" in mode and any(c in mode for c in "wa+x"):
            self.fail_hit = True
            raise self.fail_writes
        f = io.open(file, mode, *a, **k)
        if self.rec is not None and "b" in mode and any(c in mode for c in "wa+x") and isinstance(file, (str, bytes, os.PathLike)):
            return _Spy(f, file, self)
        return f


_PROXY = _IOProxy()


# --------------------------------------------------------------------------- configurations
KEEP_FILES = ("junk.zip", "foreign.zip", "crash.zip", "cd_sub")
NAMES = ("t.zip", "t", "t.ZIP")      # open()/load() append ".zip" unless the name ends with it in any case
STALE_TAGS, STALE_PARAM = (50, 51, 52), 60


def norm_cfg(cfg):
    """(maxlen, name given to open/load, previous archive present?)"""
    return (cfg, "t.zip", False) if isinstance(cfg, int) else tuple(cfg)


def cfg_rank(cfg):
    """plain configurations first when choosing the example to report"""
    ml, name, stale = norm_cfg(cfg)
    return (stale, name != "t.zip", ml, name)


def cfg_str(cfg):
    ml, name, stale = norm_cfg(cfg)
    return (f"maxlen={'None' if ml == ML_NONE else ml} open({name!r})"
            + (" with a finished archive of an earlier run under that name" if stale else ""))


def file_of(name):
    return name if name.lower().endswith(".zip") else name + ".zip"


_STALE = {}


def stale_archive():
    """a closed trajectory of an earlier life (other items, other parameters), written by the real class
    into an empty directory.  -> dict(bytes, fs digits, load digits, coq term)"""
    if not _STALE:
        from autode.opt.optimisers.base import OptimiserHistory
        for f in ("stale_tmp.zip",):
            if os.path.exists(f):
                os.remove(f)
        h = OptimiserHistory(maxlen=2)
        h.open("stale_tmp.zip")
        h.save_opt_params({"k": STALE_PARAM})
        for t in STALE_TAGS:
            h.add(mk_item(t))
        h.close()
        fs = obs_fs("stale_tmp.zip")
        ld = obs_load("stale_tmp.zip")[0]
        with open("stale_tmp.zip", "rb") as f:
            data = f.read()
        os.remove("stale_tmp.zip")
        members, i = [], 2
        while i < len(fs):
            if fs[i] == 11:
                members.append("MHeader")
                i += 1
            elif fs[i] == 12:
                members.append(f"MParams {fs[i + 1] - 16}")
                i += 2
            elif fs[i] == 13:
                members.append(f"MCoords {fs[i + 1]} {fs[i + 2] - 16}")
                i += 3
            else:
                raise RuntimeError(f"cannot describe the earlier archive to the model: {fs}")
        _STALE.update({"bytes": data, "fs": fs, "ld": ld, "coq": "(Some [" + "; ".join(members) + "])"})
    return _STALE


def fs0_term(cfg):
    return stale_archive()["coq"] if norm_cfg(cfg)[2] else "None"


# --------------------------------------------------------------------------- the implementation driver
class Impl:
    """one real OptimiserHistory with its file in the (current) scratch directory, plus the
    bookkeeping the property-level oracles need (what was accepted, when it was opened ...)."""
    def __init__(self, cfg, quick=True):
        from autode.opt.optimisers.base import OptimiserHistory
        ml, name, stale = norm_cfg(cfg)
        self.cfg = (ml, name, stale)
        self.ml = ml
        self.quick = quick
        self.FILE = name                                   # what open() / load() are given
        self.home = os.getcwd()                            # open() and load() are always called from here
        self.sub = os.path.join(self.home, "cd_sub")       # ... and operation D moves the process here and back
        self.path = os.path.abspath(file_of(name))         # the file that must result
        for f in os.listdir("."):
            if f not in KEEP_FILES:
                (shutil.rmtree if os.path.isdir(f) else os.remove)(f)
        shutil.rmtree(self.sub, ignore_errors=True)
        os.makedirs(self.sub)
        self.cd = False          # is the working directory currently cd_sub?
        self.last_code = 0
        self.ml_eff = ml         # window of the current object (2 once it came from load())
        self.adopted = False     # the life continues on an object loaded from the earlier run's archive
        self.stale = None
        if stale:                                          # a finished trajectory of an earlier life
            self.stale = stale_archive()
            put(self.path, self.stale["bytes"])
        self.obj = OptimiserHistory(maxlen=None if ml == ML_NONE else ml)   # None = unbounded window
        self.nadd = self.npar = 0
        self.P = []              # tags accepted by add (returned without raising)
        self.opened_at = None    # len(P) when open() first succeeded
        self.nclose = 0          # successful close() calls
        self.saved = None        # first successfully stored parameter
        self.single = True       # no load / clean_up so far
        self.prev_flat = None
        self.stats = {"crash_images": 0, "crash_errors": {}, "writes": 0}

    @property
    def stale_now(self):
        return None if self.adopted else self.stale

    # ---- snapshots for DFS / BFS
    def snapshot(self):
        o = self.obj
        c = o.__class__.__new__(o.__class__)
        c.__dict__.update(o.__dict__)
        c._memory = deque(o._memory, maxlen=o._memory.maxlen)
        data = open(self.path, "rb").read() if os.path.exists(self.path) else None
        return (c, data, self.nadd, self.npar, list(self.P), self.opened_at, self.nclose, self.saved, self.single,
                self.prev_flat, self.cd, self.last_code, self.ml_eff, self.adopted)

    def restore(self, s):
        o = s[0]
        c = o.__class__.__new__(o.__class__)
        c.__dict__.update(o.__dict__)
        c._memory = deque(o._memory, maxlen=o._memory.maxlen)
        if c._filename is not None and os.path.isabs(c._filename) and c._filename != self.path:
            c._filename = self.path          # snapshot taken in another worker's directory
        self.obj = c
        if s[1] is None:
            if os.path.exists(self.path):
                os.remove(self.path)
        else:
            put(self.path, s[1])
        (self.nadd, self.npar, P, self.opened_at, self.nclose, self.saved, self.single, self.prev_flat,
         self.cd, self.last_code, self.ml_eff, self.adopted) = s[2:]
        self.P = list(P)

    # ---- one operation
    def coq_op(self, op):
        return {"O": "oO", "A": f"oA {self.nadd}", "P": f"oP {self.npar}", "C": "oC", "L": "oL", "U": "oU",
                "D": None}[op]                             # D (chdir) does not exist for the model: no effect

    def apply(self, op):
        """-> (result code, exception class name or None)"""
        from autode.opt.optimisers.base import OptimiserHistory
        h = self.obj
        try:
            if op == "O":
                h.open(self.FILE)
                if self.opened_at is None:
                    self.opened_at = len(self.P)
            elif op == "A":
                t = self.nadd
                self.nadd += 1
                h.add(mk_item(t))
                self.P.append(t)
            elif op == "P":
                p = self.npar
                self.npar += 1
                h.save_opt_params({"k": p})
                if self.saved is None:
                    self.saved = p
            elif op == "C":
                h.close()
                self.nclose += 1
            elif op == "L":
                new = OptimiserHistory.load(self.FILE)
                # the life goes on with the reloaded object: closed, window 2, holding what was on disk
                self.obj = new
                if self.opened_at is None:                 # only possible with the archive of an earlier run,
                    self.P, self.saved = list(STALE_TAGS), STALE_PARAM      # which this life thereby adopts
                    self.adopted = True
                else:
                    self.P = self.P[:len(new)]
                self.opened_at, self.ml_eff, self.nclose = 0, 2, max(self.nclose, 1)
            elif op == "U":
                h.clean_up()
                self.single = False          # the file was removed under the live object
            return C_DONE, None
        except Exception as e:  # noqa
            return _ecode(e), type(e).__name__

    def step(self, op):
        """apply `op` with the write spy on, observe, run the oracles.  -> record dict"""
        before = open(self.path, "rb").read() if os.path.exists(self.path) else None
        pre = {"closed": self.nclose > 0 and self.opened_at is not None, "opened": self.opened_at is not None,
               "saved": self.saved is not None, "single": self.single, "flat": self.prev_flat,
               "P": list(self.P)}
        cop = self.coq_op(op)
        _PROXY.rec = []
        try:
            if op == "D":
                self.cd = not self.cd
                code, exc = self.last_code, None           # the model sees nothing: result of the previous operation
            else:
                if self.cd and op not in "OL":
                    os.chdir(self.sub)
                code, exc = self.apply(op)
        finally:
            os.chdir(self.home)
            snaps, _PROXY.rec = _PROXY.rec, None
        self.last_code = code
        after = open(self.path, "rb").read() if os.path.exists(self.path) else None
        try:
            if self.cd:
                os.chdir(self.sub)
            s = obs_obj(self.obj)
        finally:
            os.chdir(self.home)
        fs = obs_fs(self.path)
        ld, lds, ldexc = obs_load(self.FILE)
        foreign = [obs_load(f)[0][0] for f in ("missing.zip", "junk.zip", "foreign.zip")]
        state_flat = flat_obj(s) + fs + ld + foreign
        digits = [code] + state_flat
        fails = self.oracles(op, code, pre, s, fs, ld, lds, foreign, state_flat)
        stray = sorted(f for f in os.listdir(".") if f not in KEEP_FILES and os.path.abspath(f) != self.path) + \
            sorted("cd_sub/" + f for f in os.listdir(self.sub))
        if stray:
            fails.append(("OptimiserHistory|stray-file", "stray-file",
                          f"after {op} there are files {stray} besides {os.path.basename(self.path)}"
                          + (" (the working directory was changed after open())" if "D" in op or self.cd else "")))
            for f in stray:
                (shutil.rmtree if os.path.isdir(f) else os.remove)(f)
        if before != after:
            self.stats["writes"] += 1
            fails += self.crash_images(before, after, snaps, ld, pre, op)
        self.prev_flat = state_flat
        changed = pre["flat"] != state_flat
        return {"cop": cop, "n": encode(digits), "fails": fails, "code": code, "exc": exc, "changed": changed}

    # ---- the property, evaluated on the implementation (independent of the Coq model)
    def oracles(self, op, code, pre, s, fs, ld, lds, foreign, state_flat):
        fails = []

        def fail(name, what, cls=None):
            fails.append((cls or f"OptimiserHistory|{name}", name, what))

        if foreign != [E_NOTFOUND, E_VALUE, E_VALUE]:
            fail("foreign-file-accepted", f"load of (missing, non-zip, zip without header) gave {[cname(c) for c in foreign]}; "
                 "FileNotFoundError, ValueError, ValueError are documented")
        if not self.single:
            return fails + self.oracles_after_clean_up(op, code, pre, s, ld, lds, state_flat)
        P, ml, n = self.P, self.ml_eff, len(self.P)
        late = self.opened_at is not None and self.opened_at > ml     # an open was accepted after entries were dropped
        ncoords = count_coords(fs)
        foreign_members = foreign_content(fs, P, self.saved) if self.opened_at is not None else None
        dbl = self.nclose >= 2 and ncoords > n and not foreign_members  # a repeated close wrote entries again
        cls = K_STALE if (self.stale_now and foreign_members) else (K_LATE if late else (K_DOUBLE if dbl else None))
        # misuse is rejected and changes nothing
        unchanged = pre["flat"] is None or pre["flat"] == state_flat
        if op == "D" and not unchanged:
            fail("chdir", "changing the working directory changed what the trajectory shows")
        if op == "A" and pre["closed"] and (code != E_RUNTIME or not unchanged):
            fail("add-after-close", f"add() on a closed trajectory: {cname(code)}, state unchanged={unchanged}; RuntimeError required")
        if op == "O" and pre["opened"] and (code != E_RUNTIME or not unchanged):
            fail("open-twice", f"second open(): {cname(code)}, state unchanged={unchanged}; RuntimeError required")
        lost = len(pre["P"]) > ml                     # entries have already left the memory window
        if op == "O" and not pre["opened"] and lost and (code != E_RUNTIME or not unchanged):
            fail("late-open", f"open() after {len(pre['P'])} adds with maxlen {ml} (entries already dropped): {cname(code)}, "
                 f"state unchanged={unchanged}; it cannot store them under their index and must raise RuntimeError", K_LATE)
        if op == "C" and pre["closed"] and (code != C_DONE or not unchanged):
            fail("second-close", f"close() of a closed trajectory: {cname(code)}, state unchanged={unchanged}; "
                 "it must change nothing", K_DOUBLE)
        if op == "P" and pre["opened"] and pre["saved"] and (code != E_EXISTS or not unchanged):
            fail("params-twice", f"second save_opt_params(): {cname(code)}, state unchanged={unchanged}; FileExistsError required")
        if op in "PC" and not pre["opened"] and (code != E_RUNTIME or not unchanged):
            fail("no-file", f"{op} without a file: {cname(code)}; RuntimeError required")
        if op in "OAPC" and code != C_DONE and not (
                (op == "A" and pre["closed"]) or (op == "O" and (pre["opened"] or lost))
                or (op == "P" and (pre["saved"] or not pre["opened"]))
                or (op == "C" and not pre["opened"])):
            fail("valid-op-raised", f"valid operation {op} raised {cname(code)}")
        # length
        if s["len"] != n or s["len_"] != n:
            fail("len", f"len() = {s['len']} after {n} accepted adds")
        # every index
        have_file = self.opened_at is not None
        want = [16 + P[i] if (have_file or i >= n - ml) else C_NONE for i in range(n)]
        idx = list(range(-(s["len_"] + 1), s["len_"] + 2))
        for z, got in zip(idx, s["get"]):
            exp = want[z] if -n <= z < n else E_INDEX
            if got != exp:
                fail("getitem", f"[{z}] gives {cname(got)}, pushed sequence {P} (maxlen {ml}, file {'open' if have_file else 'none'}) requires {cname(exp)}", cls)
                break
        if s["iter"] != [n] + want + [C_DONE]:
            fail("iter", f"iteration yields {[cname(c) for c in s['iter'][1:-1]]} then {cname(s['iter'][-1])}; required {[cname(c) for c in want]}", cls)
        if s["rev"] != [n] + want[::-1] + [C_DONE]:
            fail("reversed", f"reversed iteration yields {[cname(c) for c in s['rev'][1:-1]]} then {cname(s['rev'][-1])}; required {[cname(c) for c in want[::-1]]}", cls)
        if s["final"] != (16 + P[-1] if n >= 1 else E_INDEX):
            fail("final", f"final = {cname(s['final'])} for pushed {P}")
        if s["penult"] != (16 + P[-2] if min(n, ml) >= 2 else E_INDEX):
            fail("penultimate", f"penultimate = {cname(s['penult'])} for pushed {P}, maxlen {ml}")
        wantp = E_RUNTIME if not have_file else (16 + self.saved if self.saved is not None else E_NOTFOUND)
        if s["params"] != wantp:
            fail("params", f"get_opt_params gives {pname(s['params'])}, required {pname(wantp)}")
        # a stop right now (and, once closed, the reload): error or prefix
        if not have_file:
            if self.stale_now is None and ld != [E_NOTFOUND]:
                fail("load-without-file", f"load of a never-opened trajectory gives {cname(ld[0])}")
            if self.stale_now is not None and (fs != self.stale_now["fs"] or ld != self.stale_now["ld"]):
                fail("earlier-archive-touched", "the archive of an earlier run was read or modified before open(): "
                     f"members now {fs}", K_STALE)
        if foreign_members:
            fail("archive-content", f"after open() the archive holds {foreign_members}; this life pushed {P} and stored "
                 f"{pname(16 + self.saved) if self.saved is not None else 'no params'}"
                 + (" (an archive of an earlier run was present when open() was called)" if self.stale_now else ""),
                 K_STALE if self.stale_now else cls)
        if not have_file:
            pass
        elif lds is None:
            if ld[0] == E_KEY and ncoords == 0:
                fail("load", "load of a trajectory file holding no coordinates raises KeyError('coords_-1') - neither a "
                     "documented error nor an (empty) prefix" + (" [closed trajectory: round trip fails]" if self.nclose else
                                                                 " [stop before the first spill]"), K_EMPTY)
            elif ld[0] not in CLEAN_LOAD_ERRORS or self.nclose:
                fail("load", f"load raises {cname(ld[0])}" + (" although the trajectory was closed" if self.nclose else ""), cls)
        else:
            k = lds["len"]
            pref = [16 + t for t in P[:k]]
            okp = (k <= n and lds["iter"] == [k] + pref + [C_DONE] and lds["rev"] == [k] + pref[::-1] + [C_DONE]
                   and lds["get"][k + 1:2 * k + 1] == pref and lds["get"][1:k + 1] == pref
                   and lds["params"] == (16 + self.saved if self.saved is not None else E_NOTFOUND))
            if not okp:
                fail("load-prefix", f"reloading the file gives {[cname(c) for c in lds['iter'][1:-1]]} forwards, "
                     f"{[cname(c) for c in lds['rev'][1:-1]]} reversed (len {k}, {pname(lds['params'])}); pushed {P}, stored "
                     f"{pname(16 + self.saved) if self.saved is not None else 'no params'}: not a prefix / wrong parameters",
                     K_STALE if (self.stale_now and foreign_members) else cls)
            elif self.nclose and (k != n or lds["final"] != s["final"]
                                  or lds["penult"] != (16 + P[-2] if n >= 2 else E_INDEX)):
                fail("roundtrip", f"closed and reloaded: len {k} vs {n}, final {cname(lds['final'])}, penultimate "
                     f"{cname(lds['penult'])}; pushed {P}", cls)
        return fails

    def oracles_after_clean_up(self, op, code, pre, s, ld, lds, state_flat):
        """clean_up() removed the file under the live object.  What the property still demands: the length is the
        number of accepted adds, an operation that raises changes nothing, a valid index gives the pushed entry or
        an error (never another entry, never None with a file name set), whatever load() returns is a prefix."""
        fails = []
        P, ml, n = self.P, self.ml_eff, len(self.P)
        K = "OptimiserHistory|after-clean_up:"
        unchanged = pre["flat"] is None or pre["flat"] == state_flat
        if pre["single"]:
            return fails                     # this was the clean_up itself
        if code != C_DONE and not unchanged and op != "L":
            fails.append((K + f"raising-{op}-changed-state", "raise-unchanged",
                          f"{op} raised {cname(code)} but changed the trajectory (len {s['len']}, closed {s['closed']}, "
                          f"{len(s['mem'])} in memory) - {n} adds were accepted"))
        if s["len"] != n:
            fails.append((K + "len", "len", f"len() = {s['len']} after {n} accepted adds"))
            return fails                     # every index is shifted by the wrong length: one defect, one key
        nn = s["len_"]
        for z, got in zip(range(-(nn + 1), nn + 2), s["get"]):
            if not (-n <= z < n):
                continue
            want = 16 + P[z]
            if got != want and (got >= 16 or got == C_NONE or (s["len"] == n and (z % n) >= n - ml)):
                fails.append((K + "wrong-entry", "getitem", f"[{z}] gives {cname(got)}; pushed {P} (maxlen {ml}) requires "
                              f"{cname(want)} or, for an entry that had been spilled, an error"))
                break
        its = s["iter"][1:-1]
        if its != [16 + t for t in P[:len(its)]]:
            fails.append((K + "wrong-entry", "iter", f"iteration yields {[cname(c) for c in its]}; pushed {P}"))
        if lds is not None:
            k = lds["len"]
            if lds["iter"] != [k] + [16 + t for t in P[:k]] + [C_DONE]:
                fails.append((K + "load-not-prefix", "load", f"load() of the file gives {[cname(c) for c in lds['iter'][1:-1]]}; pushed {P}"))
        return fails

    # ---- simulated stops inside one operation
    def crash_images(self, before, after, snaps, ld_after, pre, op):
        """load() of every image a stop inside this operation can leave must raise a clean error or see
        the archive as it was before / as it is after the operation."""
        bb = before if before is not None else b""
        aa = after if after is not None else b""
        imgs = []
        inter = [b for b in snaps if b != bb and b != aa]
        if self.quick and len(inter) > 10:
            stepi = len(inter) / 10.0
            inter = [inter[int(i * stepi)] for i in range(10)]
        imgs += [("write", b) for b in inter]
        p = next((i for i, (x, y) in enumerate(zip(bb, aa)) if x != y), min(len(bb), len(aa)))
        for c in range(max(0, p - 64), len(aa) + 1, 64):
            if op != "O":           # open() removes the old file and creates a new one: nothing is overwritten in place
                imgs.append(("torn", aa[:c] + bb[c:]))
            imgs.append(("truncated", aa[:c]))
        imgs.append(("truncated", aa[:-1]))
        allowed = [ld_after]
        if before is None:
            allowed.append([E_NOTFOUND])
        else:
            put("crash.zip", before)
            allowed.append(obs_load("crash.zip")[0])
        fails, seen = [], {bb, aa}
        for kind, img in imgs:
            if img in seen:
                continue
            seen.add(img)
            put("crash.zip", img)
            got, _, exc = obs_load("crash.zip")
            self.stats["crash_images"] += 1
            key = f"{kind}:{exc or 'loaded'}"
            self.stats["crash_errors"][key] = self.stats["crash_errors"].get(key, 0) + 1
            if got[0] == C_DONE and pre["opened"] and pre["single"]:
                # the file already belonged to this life: whatever loads must be a prefix of ITS pushes
                _, ls, _ = obs_load("crash.zip")
                items = ls["iter"][1:-1]
                if items != [16 + t for t in self.P[:len(items)]] or ls["iter"][-1] != C_DONE:
                    fails.append((K_STALE if self.stale_now else "OptimiserHistory|stop-inside-write", "crash-image-foreign",
                                  f"a {kind} image of the file loads as {[cname(c) for c in items]}: not a prefix of the "
                                  f"pushed {self.P}" + (" (entries of an earlier run's archive)" if self.stale_now else "")))
                    break
            if got in allowed or (len(got) == 1 and got[0] in CLEAN_LOAD_ERRORS):
                continue
            fails.append(("OptimiserHistory|stop-inside-write", "crash-image",
                          f"a {kind} image of the file ({len(img)} bytes; {len(bb)} before, {len(aa)} after the operation) "
                          f"loads as {cname(got[0]) if len(got) == 1 else 'a trajectory that is neither the old nor the new one'}"))
            break
        return fails


# --------------------------------------------------------------------------- workers
_WDIR = None


def _worker_init(work, repo):
    global _WDIR
    sys.path.insert(0, repo)
    _WDIR = os.path.join(work, f"w{os.getpid()}")
    os.makedirs(_WDIR, exist_ok=True)
    os.chdir(_WDIR)
    with open("junk.zip", "w") as f:
        f.write("this is not a zip archive\n" * 8)
    with zipfile.ZipFile("foreign.zip", "w") as z:
        z.writestr("something_else", b"hello")
    zipfile.io = _PROXY
    import autode  # noqa


def run_path(ml, path, quick=True):
    """run a whole path from scratch; -> (impl, list of records)"""
    im = Impl(ml, quick)
    recs = []
    for op in path:
        recs.append(im.step(op))
    return im, recs


def _root_record(im):
    s = obs_obj(im.obj)
    fs = obs_fs(im.path)
    ld = obs_load(im.FILE)[0]
    foreign = [obs_load(f)[0][0] for f in ("missing.zip", "junk.zip", "foreign.zip")]
    flat = flat_obj(s) + fs + ld + foreign
    im.prev_flat = flat
    return {"cop": None, "n": encode([0] + flat), "fails": [], "code": 0, "exc": None, "changed": False}


def task_subtree(args):
    """all continuations of `prefix` up to `depth` more operations (DFS preorder).
    -> dict(ml, prefix, depth, nodes=[(path letters, coq ops, n, fails, code, changed)], stats)"""
    ml, prefix, depth, quick = args[:4]
    alpha = args[4] if len(args) > 4 else OPS
    im = Impl(ml, quick)
    rec = _root_record(im)
    cops = []
    for op in prefix:
        rec = im.step(op)
        if rec["cop"] is not None:
            cops.append(rec["cop"])
    nodes = []

    def visit(path, cops, rec, d):
        nodes.append(("".join(path), list(cops), rec["n"], rec["fails"], rec["code"], rec["changed"]))
        if d == 0:
            return
        snap = im.snapshot()
        for op in alpha:
            im.restore(snap)
            r = im.step(op)
            visit(path + [op], cops + ([r["cop"]] if r["cop"] is not None else []), r, d - 1)

    visit(list(prefix), cops, rec, depth)
    return {"ml": ml, "prefix": prefix, "depth": depth, "nodes": nodes, "stats": im.stats, "alpha": alpha}


def task_expand(args):
    """BFS step: from a pickled snapshot apply every operation.  -> list of (op, record, snapshot, key)"""
    ml, path, cops, blob, quick = args[:5]
    alpha = args[5] if len(args) > 5 else OPS
    im = Impl(ml, quick)
    im.restore(pickle.loads(blob))
    snap = im.snapshot()
    out = []
    for op in alpha:
        im.restore(snap)
        r = im.step(op)
        s2 = im.snapshot()
        key = (ml, tuple(im.prev_flat), im.nadd, im.npar, tuple(im.P), im.opened_at, im.nclose, im.saved, im.single,
               im.cd, im.ml_eff)
        out.append((op, r, pickle.dumps(s2), key))
    return path, cops, out, im.stats


def task_sequence(args):
    """one long sequence, every prefix a node"""
    ml, path, quick = args
    im = Impl(ml, quick)
    root = _root_record(im)
    nodes, cops = [("", [], root["n"], [], 0, False)], []
    for i, op in enumerate(path):
        r = im.step(op)
        if r["cop"] is not None:
            cops.append(r["cop"])
        nodes.append((path[:i + 1], list(cops), r["n"], r["fails"], r["code"], r["changed"]))
    return {"ml": ml, "path": path, "nodes": nodes, "stats": im.stats}


# --------------------------------------------------------------------------- main-side helpers
def coq_ops(cops):
    return "[" + "; ".join(cops) + "]"


def tree_term(res):
    tbl, index, idxs = [], {}, []
    for nd in res["nodes"]:
        n = nd[2]
        if n not in index:
            index[n] = len(tbl)
            tbl.append(n)
        idxs.append(index[n])
    pre = res["nodes"][0][1]
    return (f"chk_tree {fs0_term(res['ml'])} {norm_cfg(res['ml'])[0]} {coq_ops(pre)} {res['depth']} "
            f"[{'; '.join(hex(n) for n in tbl)}]%N [{'; '.join(map(str, idxs))}]")


def node_term(cfg, cops, n):
    return f"chk {fs0_term(cfg)} {norm_cfg(cfg)[0]} {coq_ops(cops)} {hex(n)}%N"


def decode(n):
    d = []
    while n > 1:
        d.append(n % 128)
        n //= 128
    return d[::-1]


class Collector:
    def __init__(self, ctx):
        self.ctx = ctx
        self.fail_first = {}     # key -> (len(path), ml, path, name, what)
        self.nfails = 0
        self.stats = {"crash_images": 0, "crash_errors": {}, "writes": 0}

    def node(self, stream, ml, path, fails, code, changed):
        c = self.ctx
        s = c.cov["streams"].setdefault(stream, {"evaluations": 0, "distinct_nontrivial": 0})
        s["evaluations"] += 1
        c.cov["evaluations"] += 1
        if changed or code not in (0, C_DONE):
            k = (stream, ml, path)
            if k not in c._distinct:
                c._distinct.add(k)
                s["distinct_nontrivial"] += 1
                c.cov["distinct_nontrivial"] += 1
        h = s.setdefault("histogram", {})
        hk = f"len{len(path)}"
        h[hk] = h.get(hk, 0) + 1
        if path:
            hk = f"{path[-1]}->{cname(code) if code < 16 or code > 120 else 'ok'}"
            h[hk] = h.get(hk, 0) + 1
        self.fails(ml, path, fails)

    def fails(self, ml, path, fails):
        for key, name, what in fails:
            self.nfails += 1
            old = self.fail_first.get(key)
            if old is None or (len(path), cfg_rank(ml), path) < (old[0], cfg_rank(old[1]), old[2]):
                self.fail_first[key] = (len(path), ml, path, name, what)

    def add_stats(self, st):
        self.stats["crash_images"] += st["crash_images"]
        self.stats["writes"] += st["writes"]
        for k, v in st["crash_errors"].items():
            self.stats["crash_errors"][k] = self.stats["crash_errors"].get(k, 0) + v


def guarded(fn, ctx):
    """run an auxiliary oracle; an exception escaping from the implementation while the oracle sets up or reads a
    trajectory is itself a finding (valid use raised), never a crash of the check"""
    import traceback
    try:
        return fn(ctx)
    except Exception as e:  # noqa
        tb = traceback.extract_tb(e.__traceback__)
        where = next((f"{os.path.basename(t.filename)}:{t.lineno} {t.line}" for t in reversed(tb) if "c20.py" in t.filename), "?")
        os.chdir(_WDIR)
        return [(f"OptimiserHistory|{fn.__name__}:valid-use-raised", fn.__name__,
                 f"valid use of the trajectory raised {type(e).__name__}: {e}  (at {where})")]


def witnesses(ctx):
    """The inputs on which /repo violated the property before commit 24aa35f (late open, load of an
    archive without coordinates, second close), replayed on the real class: none may fail now."""
    out = []
    for key, ml, path in ((K_LATE, 2, "AAAOA"), (K_LATE, 1, "AAO"), (K_EMPTY, 2, "OC"), (K_EMPTY, 2, "OPAA"),
                          (K_EMPTY, 1, "O"), (K_DOUBLE, 2, "OAAACC"), (K_DOUBLE, 1, "AOCC"),
                          (K_STALE, (2, "t", True), "OPAAAAC"), (K_STALE, (1, "t.ZIP", True), "OAAC"),
                          (K_STALE, (2, "t.zip", True), "AOAAAC"),
                          # witnesses of len_after_failed_spill_refuted / wrong_entry_after_clean_up_refuted
                          ("OptimiserHistory|after-clean_up:len", 1, "OAUA"),
                          ("OptimiserHistory|after-clean_up:wrong-entry", 1, "OAAUPA"),
                          ("OptimiserHistory|after-clean_up:wrong-entry", 2, "OAAAUPAC")):
        im, recs = run_path(ml, path)
        fails = [f for r in recs for f in r["fails"]]
        ctx.count("former-defect-witness", (key, path), True,
                  sample={"config": cfg_str(ml), "ops": path, "guards": key, "fails_now": bool(fails)})
        out.append((key, ml, path, fails))
    return out


def reuse_oracles(ctx):
    """NDOptimiser.from_file and the reuse of an existing trajectory by CalculationExecutorO
    (executors.py:352-360, 453-474): implementation-side only."""
    from autode.opt.optimisers.base import OptimiserHistory
    from autode.opt.optimisers.crfo import CRFOptimiser
    from autode.opt.coordinates import CartesianCoordinates
    from autode.values import PotentialEnergy
    fails = []
    params = CRFOptimiser(maxiter=7, conv_tol="loose").optimiser_params

    def coords(t):
        c = CartesianCoordinates(np.array([0.0, 0.0, 0.0, 0.7 + 0.01 * t, 0.0, 0.0]))
        c.e = PotentialEnergy(-1.0 - 0.001 * t)
        c.g = np.array([0.01 * t, 0.0, 0.0, -0.01 * t, 0.0, 0.0])
        return c

    def write(name, n, close=True, ml=2):
        h = OptimiserHistory(maxlen=ml)
        h.open(name)
        h.save_opt_params(params)
        for t in range(n):
            h.add(coords(t))
        if close:
            h.close()

    for n in (1, 2, 5):
        write("reuse_trj.zip", n)
        ctx.count("reuse", ("from_file", n), True, sample={"kind": "from_file", "n": n})
        try:
            o = CRFOptimiser.from_file("reuse_trj.zip")
            ok = (o._maxiter == 7 and deep_equal(params["conv_tol"], o.conv_tol, "conv_tol") is None and len(o._history) == n and float(o._history.final[3]) == 0.7 + 0.01 * (n - 1)
                  and float(o._history.final.e) == -1.0 - 0.001 * (n - 1) and o.iteration == n - 1
                  and [float(c[3]) for c in o._history] == [0.7 + 0.01 * t for t in range(n)])
            if not ok:
                fails.append(("OptimiserHistory|from-file", "from_file", f"NDOptimiser.from_file of a closed {n}-entry trajectory: "
                              f"maxiter {o._maxiter}, len {len(o._history)}, final {o._history.final}"))
        except Exception as e:  # noqa
            fails.append(("OptimiserHistory|from-file", "from_file", f"NDOptimiser.from_file raised {type(e).__name__}: {e}"))
    # executor reuse: existing trajectory => no new run, molecule set from the stored final entry
    try:
        import autode as ade
        from autode.calculations.executors import CalculationExecutorO
        from autode.wrappers.keywords import OptKeywords
        mol = ade.Molecule(atoms=[ade.Atom("H"), ade.Atom("H", x=0.9)], name="c20h2")
        ex = CalculationExecutorO(name="c20reuse", molecule=mol, method=ade.methods.XTB(), keywords=OptKeywords())
        write(ex._opt_trajectory_name, 4)
        ctx.count("reuse", ("executor", 4), True, sample={"kind": "CalculationExecutorO.run with existing trajectory"})
        ex.run()
        got = (float(mol.coordinates[1][0]), float(mol.energy), float(np.asarray(mol.gradient)[0][0]))
        if got != (0.7 + 0.03, -1.0 - 0.003, 0.03):
            fails.append(("OptimiserHistory|executor-reuse", "executor", f"reused trajectory: molecule has x={got[0]}, E={got[1]}, g={got[2]}; "
                          "stored final entry has 0.73, -1.003, 0.03"))
        if os.path.exists(ex._opt_trajectory_name):
            os.remove(ex._opt_trajectory_name)
    except Exception as e:  # noqa
        fails.append(("OptimiserHistory|executor-reuse", "executor", f"reuse of an existing trajectory raised {type(e).__name__}: {e}"))
    return fails



def edge_oracles(ctx):
    """documented API edges that the operation alphabet does not reach (implementation-side only)"""
    from autode.opt.optimisers.base import OptimiserHistory
    fails = []

    def check(name, ok, what):
        ctx.count("api-edge", name, True, sample={"edge": name})
        if not ok:
            fails.append((f"OptimiserHistory|edge:{name}", name, what))

    def raises(f, exc):
        try:
            f()
            return False
        except exc:
            return True
        except Exception:  # noqa
            return False

    h = OptimiserHistory(maxlen=2)
    h.add(None)
    check("add-none", len(h) == 0 and len(h._memory) == 0, "add(None) changed the trajectory")
    check("add-foreign-type", raises(lambda: h.add(3.0), ValueError) and len(h) == 0, "add(3.0) is not rejected with ValueError")
    h.add(mk_item(0))
    check("slice", raises(lambda: h[0:1], NotImplementedError), "slicing is not rejected with NotImplementedError")
    check("non-int-index", raises(lambda: h["0"], ValueError), "a str index is not rejected with ValueError")
    try:
        r = icode(h[np.int64(0)])
    except ValueError:
        r = 16
    except Exception as e:  # noqa
        r = type(e).__name__
    check("numpy-int-index", r == 16, f"h[np.int64(0)] gives {r}: neither the entry nor the documented ValueError")
    # '.zip' is appended by open and by load; an existing file is replaced; the path survives chdir
    for f in ("edge_trj.zip", "edge_trj2.zip"):
        if os.path.exists(f):
            os.remove(f)
    h.open("edge_trj")
    check("zip-suffix", os.path.exists("edge_trj.zip") and not os.path.exists("edge_trj"), "open('edge_trj') did not create edge_trj.zip")
    os.makedirs("edge_sub", exist_ok=True)
    here = os.getcwd()
    os.chdir("edge_sub")
    got = None
    try:
        for t in (1, 2, 3):
            h.add(mk_item(t))
        h.close()
    except Exception as e:  # noqa
        got = f"{type(e).__name__} raised by add/close after chdir"
    finally:
        os.chdir(here)
    try:
        if got is None:
            l = OptimiserHistory.load("edge_trj")
            got = [icode(c) for c in l]
    except Exception as e:  # noqa
        got = type(e).__name__
    try:
        os.makedirs("edge_dir", exist_ok=True)
        lr = [icode(c) for c in OptimiserHistory.load(os.path.join("edge_dir", "..", "edge_trj.zip"))]
    except Exception as e:  # noqa
        lr = type(e).__name__
    shutil.rmtree("edge_dir", ignore_errors=True)
    check("load-relative-path", got != [16, 17, 18, 19] or lr == got, f"load('edge_dir/../edge_trj.zip') gives {lr}")
    stray = os.listdir("edge_sub")
    shutil.rmtree("edge_sub", ignore_errors=True)
    check("chdir-and-suffix", got == [16, 17, 18, 19] and not stray,
          f"open in one directory, add/close after chdir, load('edge_trj'): {got}")
    put("edge_trj2.zip", b"old content, not a zip")
    h2 = OptimiserHistory(maxlen=1)
    h2.open("edge_trj2.zip")
    check("open-replaces-existing", obs_fs("edge_trj2.zip") == [15, 1, 11], "open() over an existing file did not leave a fresh header-only archive")
    check("open-rejects-path", raises(lambda: OptimiserHistory().open("edge_sub/x.zip"), AssertionError), "open('dir/x.zip') is accepted")
    for f in ("edge_trj.zip", "edge_trj2.zip"):
        if os.path.exists(f):
            os.remove(f)
    return fails


# --------------------------------------------------------------------------- what is stored is stored completely
def deep_equal(a, b, path=""):
    """None when equal, else the path of the first difference (recursive: arrays, containers, objects by __dict__)"""
    if a is b:
        return None
    if type(a) is not type(b):
        return f"{path}: type {type(a).__name__} vs {type(b).__name__}"
    if isinstance(a, np.ndarray):
        if a.shape != b.shape or not np.array_equal(np.asarray(a), np.asarray(b)):
            return f"{path}: array values"
        da, db = getattr(a, "__dict__", None), getattr(b, "__dict__", None)
        return deep_equal(da, db, path) if (da is not None or db is not None) else None
    if isinstance(a, dict):
        if sorted(map(str, a)) != sorted(map(str, b)):
            return f"{path}: keys {sorted(map(str, a))} vs {sorted(map(str, b))}"
        for k in a:
            r = deep_equal(a[k], b[k], f"{path}.{k}")
            if r:
                return r
        return None
    if isinstance(a, (list, tuple)):
        if len(a) != len(b):
            return f"{path}: length"
        for i, (x, y) in enumerate(zip(a, b)):
            r = deep_equal(x, y, f"{path}[{i}]")
            if r:
                return r
        return None
    if isinstance(a, float):
        return None if (a == b or (a != a and b != b)) and getattr(a, "__dict__", None) == getattr(b, "__dict__", None) \
            else f"{path}: {a!r} vs {b!r}"
    if hasattr(a, "__dict__") and not callable(a):
        return deep_equal(vars(a), vars(b), path)
    try:
        return None if a == b else f"{path}: {a!r} vs {b!r}"
    except Exception:  # noqa
        return f"{path}: not comparable"


def fidelity_items():
    """coordinate sets of the kinds optimisers really push: every one is stored and must come back whole"""
    from autode.opt.coordinates import CartesianCoordinates, DIC
    from autode.opt.coordinates.dic import DICWithConstraints
    from autode.values import PotentialEnergy
    x0 = np.array([0.0, 0.0, 0.0, 1.0, 0.0, 0.0, 0.0, 1.1, 0.0])
    out = []

    def cart(k):
        return CartesianCoordinates(x0 + 0.01 * k)
    c = cart(0); c.e = PotentialEnergy(-1.0); c.g = np.arange(9) / 8.0; c.h = np.eye(9) * 2.0
    out.append(("cartesian e,g,h", c))
    c = cart(1); c.e = PotentialEnergy(-1.125); c.g = np.arange(9) / 4.0; c.h_inv = np.eye(9) * 0.25
    out.append(("cartesian e,g and the INVERSE Hessian only", c))
    c = cart(2); c.e = PotentialEnergy(-1.25)
    out.append(("cartesian energy only", c))
    out.append(("cartesian bare", cart(3)))
    c = cart(4); c.e = PotentialEnergy(-1.5); c.g = np.ones(9); c.did_translation = True; c.note = {"step": 4, "tag": "x"}
    out.append(("cartesian with extra attributes set by an optimiser", c))
    for name, cls, k in (("DIC", DIC, 5), ("DICWithConstraints", DICWithConstraints, 6)):
        d = cls.from_cartesian(cart(k))
        d.e = PotentialEnergy(-2.0 - k / 8.0)
        d.update_g_from_cart_g(np.arange(9) / 16.0)
        d.update_h_from_cart_h(np.eye(9) * 0.5)
        out.append((f"{name} e,g,h", d))
    d = DIC.from_cartesian(cart(7)); d.e = PotentialEnergy(-3.0)
    out.append(("DIC energy only", d))
    return out


def fidelity_oracles(ctx):
    """every kind of item / a realistic parameter dict through memory, spill, close, load, from_file: compared
    attribute by attribute (class, array, units, the whole __dict__ recursively) with what was pushed"""
    import copy
    from autode.opt.optimisers.base import OptimiserHistory
    from autode.opt.optimisers.crfo import CRFOptimiser
    fails = []
    params = dict(CRFOptimiser(maxiter=7, conv_tol="loose").optimiser_params)
    extra = lambda: {"label": "fidelity", "nested": {"a": [1, 2.5, None], "b": (True, "x")}, "alpha": 0.125}  # noqa
    params.update(extra())
    pref = dict(CRFOptimiser(maxiter=7, conv_tol="loose").optimiser_params)
    pref.update(extra())
    for ml in (1, 2, 3):
        items = fidelity_items()
        # the reference is BUILT a second time (copy/pickle use the very hooks under test)
        ref = [(nm, type(c), np.array(c, copy=True), dict(c.__dict__)) for nm, c in fidelity_items()]

        def compare(where, i, got):
            nm, cls, arr, dct = ref[i]
            ctx.count("item-fidelity", (ml, where, i), True, sample={"maxlen": ml, "where": where, "item": nm})
            attr = None
            if got is None:
                attr, d = "none", "returned None"
            elif type(got) is not cls:
                attr, d = "class", f"class {type(got).__name__} instead of {cls.__name__}"
            elif not np.array_equal(np.asarray(got), arr):
                attr, d = "values", "coordinate values differ"
            else:
                d = deep_equal(dct, dict(got.__dict__), "")
            if d:
                attr = attr or (d.split(":")[0].strip(". ").split(".")[0].split("[")[0] or "object")
                fails.append((f"OptimiserHistory|item-fidelity:{attr}", "item-fidelity",
                              f"maxlen={ml}, item {i} ({nm}) read {where}: {d}"))

        for f in ("fid_trj.zip",):
            if os.path.exists(f):
                os.remove(f)
        h = OptimiserHistory(maxlen=ml)
        h.open("fid_trj.zip")
        h.save_opt_params(params)
        try:
            for _, c in items:
                h.add(c)
            n = len(items)
            for i in range(n):
                compare("before close (spilled)" if i < n - ml else "before close (in memory)", i, h[i])
            for i, got in enumerate(h):
                compare("by iteration", i, got)
            h.close()
            for i in range(n):
                compare("after close", i, h[i])
            l = OptimiserHistory.load("fid_trj.zip")
            for i in range(n):
                compare("after reload", i, l[i])
            compare("after reload (final)", n - 1, l.final)
            compare("after reload (penultimate)", n - 2, l.penultimate)
            for where, got in (("live", h.get_opt_params()), ("after reload", l.get_opt_params())):
                ctx.count("item-fidelity", (ml, "params", where), True)
                d = deep_equal(pref, got, "params")
                if d:
                    fails.append(("OptimiserHistory|params-fidelity", "params-fidelity", f"maxlen={ml}, optimiser parameters {where}: {d}"))
            if deep_equal(pref, params, "params"):
                fails.append(("OptimiserHistory|params-fidelity", "params-fidelity", "save_opt_params modified the dict it was given"))
        except Exception as e:  # noqa
            fails.append(("OptimiserHistory|item-fidelity:raised", "item-fidelity",
                          f"maxlen={ml}: {type(e).__name__}: {e} while storing / reading realistic items"))
        if os.path.exists("fid_trj.zip"):
            os.remove("fid_trj.zip")
    return fails


# --------------------------------------------------------------------------- a file operation fails
class _Fault(OSError):
    pass


def fault_oracles(ctx):
    """one opening of the trajectory file for writing fails (full disk, permissions ...): the operation must raise,
    change nothing that can be observed, and the life must go on as if it had not been attempted."""
    fails = []
    for ml in (1, 2, 3):
        for path in ("OPAAAAC", "AOAAPAC", "OAAAPAAC"):
            nwrite = None
            for k in range(len(path)):
                im = Impl(ml, True)
                _root_record(im)
                raised = None
                for i, op in enumerate(path):
                    if i == k and op in "APC":
                        flat0, before = im.prev_flat, (open(im.path, "rb").read() if os.path.exists(im.path) else None)
                        snap = im.snapshot()
                        _PROXY.fail_writes = _Fault("injected: cannot open the trajectory file for writing")
                        try:
                            code, exc = im.apply(op)
                        finally:
                            hit, _PROXY.fail_writes = _PROXY.fail_hit, None
                            _PROXY.fail_hit = False
                        if not hit:
                            im.restore(snap)         # this operation does not write: nothing to inject
                        else:
                            ctx.count("fault-injection", (ml, path, k), True, sample={"maxlen": ml, "ops": path, "failing": k})
                            sobj = obs_obj(im.obj)
                            flat = flat_obj(sobj) + obs_fs(im.path)
                            after = open(im.path, "rb").read() if os.path.exists(im.path) else None
                            n0 = len(flat_obj(sobj))
                            if exc is None:
                                fails.append(("OptimiserHistory|fault:swallowed", "fault", f"maxlen={ml} ops={path}: operation {k} ({op}) "
                                              "could not open the file for writing but returned normally"))
                            if flat0[:n0] != flat[:n0] or before != after:
                                fails.append((f"OptimiserHistory|fault:failed-{op}-changed-state", "fault",
                                              f"maxlen={ml} ops={path}: operation {k} ({op}) raised {exc} (the file could not be "
                                              f"opened for writing) but changed the trajectory: len {sobj['len']}, closed "
                                              f"{sobj['closed']}, {len(sobj['mem'])} in memory"))
                            im.restore(snap)         # go on from the state before the failed attempt
                    r = im.step(op)
                    for f in r["fails"]:
                        fails.append(f)
    return fails


def reuse_unclosed_oracles(ctx):
    """NDOptimiser.from_file / CalculationExecutorO.run on the file of a run that stopped: a clean error or the
    stored prefix - never anything else"""
    from autode.opt.optimisers.base import OptimiserHistory
    from autode.opt.optimisers.crfo import CRFOptimiser
    from autode.opt.coordinates import CartesianCoordinates
    from autode.values import PotentialEnergy
    from autode.exceptions import CalculationException
    import autode as ade
    from autode.calculations.executors import CalculationExecutorO
    from autode.wrappers.keywords import OptKeywords
    fails = []
    params = CRFOptimiser(maxiter=9, conv_tol="loose").optimiser_params

    def coords(t):
        c = CartesianCoordinates(np.array([0.0, 0.0, 0.0, 0.7 + 0.01 * t, 0.0, 0.0]))
        c.e = PotentialEnergy(-1.0 - 0.001 * t)
        c.g = np.array([0.01 * t, 0.0, 0.0, -0.01 * t, 0.0, 0.0])
        return c

    for ml in (1, 2):
        for save, n in ((False, 0), (True, 0), (True, 1), (True, ml), (True, ml + 1), (True, ml + 3)):
            mol = ade.Molecule(atoms=[ade.Atom("H"), ade.Atom("H", x=0.9)], name="c20h2u")
            ex = CalculationExecutorO(name="c20stop", molecule=mol, method=ade.methods.XTB(), keywords=OptKeywords())
            name = ex._opt_trajectory_name
            if os.path.exists(name):
                os.remove(name)
            h = OptimiserHistory(maxlen=ml)
            h.open(name)
            if save:
                h.save_opt_params(params)
            for t in range(n):
                h.add(coords(t))
            del h                                   # the run stops here: never closed
            stored = max(0, n - ml)
            ctx.count("reuse", ("stopped", ml, save, n), True, sample={"kind": "stopped run", "maxlen": ml, "params": save, "adds": n})
            what = f"file of a stopped run (maxlen {ml}, params {'stored' if save else 'not stored'}, {n} adds => {stored} entries on disk)"
            try:
                o = CRFOptimiser.from_file(name)
                got = [float(c[3]) for c in o._history]
                if got != [0.7 + 0.01 * t for t in range(stored)] or o._maxiter != 9 or deep_equal(params["conv_tol"], o.conv_tol, "conv_tol"):
                    fails.append(("OptimiserHistory|from-file-stopped-run", "from_file", f"{what}: from_file gives entries {got}, maxiter {o._maxiter}"))
            except (FileNotFoundError, ValueError):
                if save:
                    fails.append(("OptimiserHistory|from-file-stopped-run", "from_file", f"{what}: from_file raised although parameters are stored"))
            except Exception as e:  # noqa
                fails.append(("OptimiserHistory|from-file-stopped-run", "from_file", f"{what}: from_file raised {type(e).__name__}: {e}"))
            try:
                ex.run()
                ok = stored >= 1 and float(mol.coordinates[1][0]) == 0.7 + 0.01 * (stored - 1) \
                    and float(mol.energy) == -1.0 - 0.001 * (stored - 1)
                if not ok:
                    fails.append(("OptimiserHistory|executor-stopped-run", "executor", f"{what}: the executor took x={float(mol.coordinates[1][0])}, "
                                  f"E={mol.energy} - not the last stored entry"))
            except (FileNotFoundError, ValueError, CalculationException):
                if save and stored >= 1:
                    fails.append(("OptimiserHistory|executor-stopped-run", "executor", f"{what}: the executor raised although entries are stored"))
            except Exception as e:  # noqa
                fails.append(("OptimiserHistory|executor-stopped-run", "executor", f"{what}: the executor raised {type(e).__name__}: {e}"))
            if os.path.exists(name):
                os.remove(name)
    return fails


# --------------------------------------------------------------------------- run
def run(ctx):
    sys.path.insert(0, REPO)
    quick = ctx.quick
    pins_changed = source_pins(ctx.pid, PINS)
    ctx.cov["source_pins"] = {"pinned": len(PINS), "changed": pins_changed}
    if pins_changed:
        ctx.log("source pins changed:", pins_changed)
    # 1. proofs
    proofs_ok, info = ctx.proofs(["lib/Sums.v", "lib/QcInst.v"] + SLICE, "C20/Props.v", "AV.C20.Props",
                                 extra_targets=["C20/Corr.vo"])
    ctx.log("proofs:", "ok" if proofs_ok else "BROKEN")
    ctx.cov["print_assumptions"] = info.get("assumptions", {})

    # scratch directory for the main process
    _worker_init(ctx.work, REPO)
    col = Collector(ctx)

    # 2. the inputs of the repaired defects on the real code
    try:
        wit = witnesses(ctx)
    except Exception as e:  # noqa
        wit = [("OptimiserHistory|witnesses:valid-use-raised", 0, "<reuse>",
                [("OptimiserHistory|witnesses:valid-use-raised", "witnesses", f"{type(e).__name__}: {e}")])]
    for key, ml, path, fails in wit:
        col.fails(ml, path, fails)
    ctx.log(f"witnesses of former / refuted defects: {sum(1 for w in wit if w[3])} of {len(wit)} fail")
    # 3. reuse by NDOptimiser.from_file / CalculationExecutorO
    for fn in (reuse_oracles, edge_oracles, fidelity_oracles, reuse_unclosed_oracles):
        for f in guarded(fn, ctx):
            col.fails(0, "<reuse>", [f])
    for f in guarded(fault_oracles, ctx):
        col.fails(0, "<fault>", [f])

    # 4. exhaustive enumeration on the implementation (parallel) ...
    depths = {1: 5, 2: 5, 3: 5} if quick else {1: 7, 2: 7, 3: 7}
    plen = 2 if quick else 3
    tasks = []
    for ml in (1, 2, 3):
        tasks.append((ml, "", plen - 1, True))                        # lengths 0 .. plen-1
        for pre in itertools.product(OPS, repeat=plen):
            tasks.append((ml, "".join(pre), depths[ml] - plen, True))      # lengths plen .. depth
    tasks.append((ML_NONE, "", 4 if quick else 5, quick))                      # maxlen=None, shorter
    # an archive of an earlier run is already present under the name, and the name is given to open()/load()
    # with or without the ".zip" suffix, or as ".ZIP"
    if quick:
        stale_cfgs = [((2, "t", True), 4), ((1, "t.ZIP", True), 4), ((3, "t.zip", True), 4), ((2, "t", False), 3),
                      ((2, "t.ZIP", False), 3)]
    else:
        stale_cfgs = [((ml, nm, True), 6 if (ml, nm) == (2, "t") else 5) for ml in (1, 2, 3) for nm in NAMES] + \
                     [((ml, nm, False), 4) for ml in (1, 2, 3) for nm in NAMES[1:]]
    for cfg, d in stale_cfgs:
        tasks.append((cfg, "", 0, True))
        for a in OPS:
            tasks.append((cfg, a, d - 1, True))
    # the process changes its working directory (operation D) between the operations: no effect allowed
    cd_cfgs = [(2, 4), ((1, "t", True), 3)] if quick else [(1, 5), (2, 5), (3, 5), ((1, "t", True), 5), ((2, "t.ZIP", True), 5)]
    for cfg, d in cd_cfgs:
        tasks.append((cfg, "", 0, True, OPS + "D"))
        for a in OPS + "D":
            tasks.append((cfg, a, d - 1, True, OPS + "D"))
    mp = get_context("fork")
    with mp.Pool(min(NPROC, 16), initializer=_worker_init, initargs=(ctx.work, REPO)) as pool:
        results = pool.map(task_subtree, tasks, chunksize=1)
        ctx.log(f"enumeration: {sum(len(r['nodes']) for r in results)} nodes over {len(tasks)} subtrees "
                f"(every sequence up to length {depths}, by maxlen)")
        terms, owners, tterms, towners = [], [], [], []
        for r in results:
            col.add_stats(r["stats"])
            for path, cops, n, fails, code, changed in r["nodes"]:
                col.node("enum", r["ml"], path, fails, code, changed)
            if "D" in r["alpha"]:
                for path, cops, n, fails, code, changed in r["nodes"]:
                    terms.append(node_term(r["ml"], cops, n))
                    owners.append(("node", (r["ml"], path, cops, n)))
            else:
                tterms.append(tree_term(r))
                towners.append(r)
        for r in results[5:8]:
            nd = r["nodes"][min(40, len(r["nodes"]) - 1)]
            ctx.cov["samples"].append({"stream": "enum", "case": {"config": cfg_str(r["ml"]), "ops": nd[0], "coq_ops": coq_ops(nd[1]),
                                                                    "observation_digits": decode(nd[2])}})
        # thorough: state-deduplicated BFS deeper, and random long sequences
        bfs_depth = 6 if quick else 8
        seen, frontier = set(), []
        for ml in ((2, (2, "t", True)) if quick else (1, 2, 3, (2, "t", True), (1, "t.ZIP", True), (3, "t", True))):
            im = Impl(ml, quick)
            _root_record(im)
            frontier.append((ml, "", [], pickle.dumps(im.snapshot()), quick, OPS if quick else OPS + "D"))
        nb = 0
        for level in range(bfs_depth):
            outs = pool.map(task_expand, frontier, chunksize=max(1, len(frontier) // (4 * NPROC)))
            nxt = []
            for fr, (path, cops, out, st) in zip(frontier, outs):
                ml = fr[0]
                col.add_stats(st)
                for op, r, blob, key in out:
                    p2, c2 = path + op, cops + ([r["cop"]] if r["cop"] is not None else [])
                    col.node("bfs-dedup", ml, p2, r["fails"], r["code"], r["changed"])
                    terms.append(node_term(ml, c2, r["n"]))
                    owners.append(("node", (ml, p2, c2, r["n"])))
                    nb += 1
                    if key not in seen:
                        seen.add(key)
                        nxt.append((ml, p2, c2, blob, quick, OPS if quick else OPS + "D"))
            frontier = nxt
        ctx.log(f"state-deduplicated BFS to length {bfs_depth}: {nb} nodes, {len(seen)} distinct states")
        nrand = 30 if quick else 600
        seqs = []
        for i in range(nrand):
            ml = ctx.rng.choice((1, 2, 3))
            if ctx.rng.random() < 0.5:
                ml = (ml, ctx.rng.choice(NAMES), ctx.rng.random() < 0.6)
            ln = ctx.rng.randint(8, 30)
            w = ctx.rng.choice(("AAAAAAOPCLUD", "AAAAAAAAOPCD", "OAPCLUD", "AAAAOAAAAPAAACLD"))
            seqs.append((ml, "".join(ctx.rng.choice(w) for _ in range(ln)), quick))
        # two-digit member names (coords_10 ...) are reached on every run, not by luck
        seqs += [(1, "OP" + "A" * 13 + "CL", quick), (2, "AO" + "A" * 13 + "PCL", quick),
                 ((3, "t", True), "O" + "A" * 15 + "CLC", quick), (1, "O" + "A" * 12 + "L", quick),
                 (2, "OP" + "A" * 14 + "UAC", quick)]
        for r in pool.map(task_sequence, seqs, chunksize=4):
            col.add_stats(r["stats"])
            for path, cops, n, fails, code, changed in r["nodes"]:
                col.node("random-long", r["ml"], path, fails, code, changed)
                terms.append(node_term(r["ml"], cops, n))
                owners.append(("node", (r["ml"], path, cops, n)))
    ctx.cov["streams"].setdefault("simulated-stops", {"evaluations": 0, "distinct_nontrivial": 0})
    ss = ctx.cov["streams"]["simulated-stops"]
    ss["evaluations"] = col.stats["crash_images"]
    ss["distinct_nontrivial"] = col.stats["crash_images"]
    ss["histogram"] = dict(sorted(col.stats["crash_errors"].items()))
    ss["file_changing_operations"] = col.stats["writes"]
    ctx.cov["evaluations"] += col.stats["crash_images"]
    ctx.cov["distinct_nontrivial"] += col.stats["crash_images"]
    ctx.log(f"simulated stops: {col.stats['crash_images']} images over {col.stats['writes']} file-changing operations: "
            f"{ss['histogram']}")

    # 5. ... compared with the model by Coq
    corr_bad, corr_err = [], None
    if proofs_ok:
        terms.append("chk_garbage")
        owners.append(("garbage", None))
        tbad, terr = ctx.coq_bad_indices(PRE, tterms, per_file=max(1, len(tterms) // 36 + 1), name="c20trees")
        ctx.log(f"subtree terms checked by Coq: {len(tterms)} ({len(tbad)} failing)")
        bad, corr_err = ctx.coq_bad_indices(PRE, terms, per_file=max(200, len(terms) // 24 + 1), name="c20cases")
        corr_err = (terr or "") + (corr_err or "") or None
        located = 0
        for kind, i in [("tree", i) for i in tbad] + [("x", i) for i in bad]:
            if kind == "tree":
                o = towners[i]
            else:
                kind, o = owners[i]
            if kind == "tree" and located >= 3:
                corr_bad.append((o["ml"], o["nodes"][0][0] + "*", o["nodes"][0][1], o["nodes"][0][2]))
            elif kind == "tree":
                # locate the nodes inside the subtree
                located += 1
                sub = [node_term(o["ml"], nd[1], nd[2]) for nd in o["nodes"]]
                b2, e2 = ctx.coq_bad_indices(PRE, sub, per_file=400, name=f"c20sub{i}")
                corr_err = corr_err or e2
                for j in b2[:50]:
                    nd = o["nodes"][j]
                    corr_bad.append((o["ml"], nd[0], nd[1], nd[2]))
                if not b2 and not e2:
                    corr_bad.append((o["ml"], o["nodes"][0][0] + "*", o["nodes"][0][1], o["nodes"][0][2]))
            elif kind == "node":
                corr_bad.append(o)
            else:
                corr_bad.append((0, "garbage-image", [], 0))
        ctx.log(f"correspondence: {len(tterms)} subtree terms + {len(terms)} node terms, {len(corr_bad)} disagreeing nodes"
                + (f"; coq error {corr_err[:400]}" if corr_err else ""))
        ctx.cov["disagreements"] = len(corr_bad)

    # 6. decide
    observed = set()
    concrete = 0
    for key, (ln, ml, path, name, what) in sorted(col.fail_first.items()):
        observed.add(key)
        rep = {"kind": "reuse" if path in ("<reuse>", "<fault>") else "operation-sequence", "maxlen": norm_cfg(ml)[0],
               "open_name": norm_cfg(ml)[1], "earlier_archive_present": norm_cfg(ml)[2], "ops": path, "oracle": name,
               "legend": "O=open A=add(next tag) P=save_opt_params C=close L=replace by load() U=clean_up "
                         "D=toggle the working directory between the scratch dir and its sub-directory",
               "observed_vs_required": what}
        before = len(ctx.violations)
        ctx.finding(key, f"{cfg_str(ml)} ops={path}: {what}", rep)
        concrete += len(ctx.violations) - before
    ctx.check_known_still_fail(observed)
    ctx.cov["oracle_failures"] = col.nfails
    ctx.cov["finding_keys_observed"] = sorted(observed)
    if not proofs_ok:
        ctx.proof_failure(info, found_any_input=(concrete > 0))
    if pins_changed and concrete == 0 and proofs_ok and not (corr_bad or corr_err):
        ctx.violation("hand model no longer pinned to the source: " + ", ".join(pins_changed),
                      {"kind": "source-pin", "changed": pins_changed,
                       "note": "the pinned functions differ from the ones coq/C20/Model.v was written from; every stream "
                               "was run and neither an oracle nor the correspondence found a failing input"},
                      found_input=False)
    if corr_bad or corr_err:
        corr_bad.sort(key=lambda t: (t[1].endswith("*"), len(t[1]), norm_cfg(t[0]), t[1]))
        first = corr_bad[0] if corr_bad else None
        rep = {"kind": "correspondence", "coq_error": corr_err, "source_pins_changed": pins_changed}
        if first:
            ml, path, cops, n = first
            small = path
            if concrete == 0 and path and path != "garbage-image" and not path.endswith("*"):
                small = shrink_seq(ctx, ml, path)
            rep.update({"maxlen": norm_cfg(ml)[0], "open_name": norm_cfg(ml)[1],
                        "earlier_archive_present": norm_cfg(ml)[2], "ops": path, "shrunk_ops": small,
                        "implementation_observation": decode(n),
                        "coq_term": node_term(ml, cops, n),
                        "others": [(m, p) for m, p, _, _ in corr_bad[1:10]]})
        if concrete == 0:
            ctx.violation("model and implementation disagree (stream enum/bfs/random) and no property-level oracle "
                          "failed on the implementation: the model no longer describes /repo", rep, found_input=False)
        else:
            ctx.log("correspondence disagreements accompany the implementation-level violations above:",
                    [(m, p) for m, p, _, _ in corr_bad[:5]])
    os.chdir("/verif")


def shrink_seq(ctx, ml, path):
    """smallest sub-sequence on which model and implementation still disagree (few Coq calls)"""
    budget = [12]

    def fails(sub):
        if budget[0] <= 0:
            return False
        budget[0] -= 1
        r = task_sequence((ml, "".join(sub), True))
        terms = [node_term(ml, nd[1], nd[2]) for nd in r["nodes"]]
        bad, err = ctx.coq_bad_indices(PRE, terms, per_file=200, name="c20shrink")
        return bool(bad) and not err

    try:
        return "".join(shrink_list(list(path), fails, max_steps=12))
    except Exception:  # noqa
        return path


def replay(ctx, obj):
    sys.path.insert(0, REPO)
    _worker_init(ctx.work, REPO)
    rep = obj.get("replay", {})
    path = rep.get("shrunk_ops") or rep.get("ops")
    if rep.get("kind") == "reuse":
        fl = [f for fn in (reuse_oracles, edge_oracles, fidelity_oracles, reuse_unclosed_oracles, fault_oracles)
              for f in guarded(fn, ctx)]
        for key, name, what in fl:
            print(f"     FAIL {key}: {what}")
        print(f"replay: from_file / executor reuse: {len(fl)} failures; stored: {obj.get('what')}")
        os.chdir("/verif")
        return 1 if fl else 0
    if rep.get("kind") not in ("operation-sequence", "correspondence") or not isinstance(path, str):
        print("replay: nothing to replay on the implementation:", obj.get("what"))
        os.chdir("/verif")
        return 1
    ml = (rep["maxlen"], rep.get("open_name", "t.zip"), bool(rep.get("earlier_archive_present", False)))
    im, recs = run_path(ml, path.rstrip("*"), quick=False)
    n = 0
    for op, r in zip(path, recs):
        print(f"  {op}: {cname(r['code'])}" + (f" ({r['exc']})" if r["exc"] else ""))
        for key, name, what in r["fails"]:
            if key in ctx.known_keys():
                print(f"     known finding {key}: {what}")
                continue
            n += 1
            print(f"     FAIL {key}: {what}")
    print(f"replay: {cfg_str(ml)} ops={path}: {n} oracle failures; stored: {obj.get('what')}")
    if rep.get("kind") == "correspondence":
        r = task_sequence((ml, path.rstrip("*"), False))
        terms = [node_term(ml, nd[1], nd[2]) for nd in r["nodes"]]
        bad, err = ctx.coq_bad_indices(PRE, terms, per_file=200, name="c20replay")
        for i in bad:
            print(f"     model and implementation disagree after {r['nodes'][i][0]!r}: implementation observes {decode(r['nodes'][i][2])}")
        if err:
            print("     coq error:", err[:500])
        n += len(bad) + (1 if err else 0)
    os.chdir("/verif")
    return 1 if n else 0


MANIFEST = {
    "technique": "Coq proof of a hand-written state-machine model (refinement to the list of pushed items, crash-prefix by "
                 "induction over operation lists) + bounded-exhaustive step-by-step model/implementation correspondence "
                 "on the real file system with simulated stops",
    "level_text": ("Machine-checked theorems (coq/C20/Props.v, closed under the global context) over an executable model of "
                   "OptimiserHistory and its zip file, for EVERY operation sequence of one object life WITHOUT clean_up, every "
                   "window size >= 1, any item type and any archive left by an earlier run: len = number pushed; WITH a "
                   "backing file (opened before the (maxlen+1)-th add; a later open is refused) every valid index (also "
                   "negative) returns the pushed entry whether in memory or spilled (invariant disk ++ memory = pushed, "
                   "|memory| <= maxlen), other indices raise IndexError, iteration in order and reversed, close-then-load "
                   "gives the same length, entries, final, penultimate (the live object has one only for maxlen >= 2) and "
                   "parameters, also for an empty trajectory, after repeated close and for any further operations on the "
                   "reloaded object; misuse (add after close, second open, late open, second parameter store, foreign file) "
                   "is rejected without changing anything; an earlier archive is untouched before open() and replaced by it; "
                   "after a stop BETWEEN two operations load raises a documented error or returns a prefix (partial: see "
                   "note). For EVERY state and operation: an operation that raises leaves object and file unchanged; for "
                   "every sequence on one object, clean_up included: len = number of adds that returned. Without a file "
                   "older entries are answered with None (documented by the class; every_index_without_file_refuted)."),
    "level_note": ("Trusted: Coq kernel; the hand model (tied on every run by source pins on every modelled function and the "
                   "pickling hooks, and by running every operation sequence up to length 5 (thorough 7), state-deduplicated "
                   "to 6/8, fixed long sequences reaching two-digit member names and random ones on the real class, comparing "
                   "every observable after every step with the model under vm_compute). NOT proved, only exercised: stops "
                   "inside an operation (atomic-or-unreadable ZipFile session assumed; probed after every low-level write "
                   "and on torn/truncated images; the model's ValueError for an unreadable file stands for ValueError or "
                   "BadZipFile); that a stored item comes back WHOLE (class, values, energy, gradient, Hessian or inverse "
                   "Hessian, every attribute; Cartesian, DIC, DICWithConstraints items, realistic parameter dicts) is checked "
                   "by the item-fidelity oracle on the implementation only - items are opaque to the model; lives with "
                   "clean_up have two theorems (raising_operation_changes_nothing, len_counts_accepted_adds) and otherwise "
                   "implementation oracles (never another entry, load gives a prefix); failing file operations (injected "
                   "OSError): oracles only; file-name handling, chdir, "
                   "NDOptimiser.from_file and CalculationExecutorO reuse incl. files of stopped runs: oracles only. "
                   "maxlen=None runs as window 126, maxlen=0 and concurrent writers are outside."),
}
