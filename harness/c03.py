"""C03 — perceived connectivity and shape predicates depend only on the geometry (DESIGN 6/C03).

Tie: gen/C03_Gen.v (element tables, the bond test, the planarity normal and out-of-plane test,
default tolerances) is regenerated from /repo by tr/translate_c03.py on every run and the theorems
of coq/C03/Props.v are re-checked against it; the hand model of make_graph /
remove_bonds_invalid_valancies / are_linear / are_planar / distance / angle / dihedral
(coq/C03/Model.v) is run against the implementation on generated structures (RDKit-embedded
organics and hand templates on a k/64 grid, in exactly rotated / reflected frames).  Property-level
oracles are evaluated on the real code in every frame and atom order and give the concrete replays.
The symmetry number search is NOT modelled: it is exercised by the frame-comparison oracle only.
"""
import math
import sys
import warnings
from fractions import Fraction as F

import numpy as np

from common import REPO, VERIF, source_pins, coq_bool, coq_list, coq_string, frac, qc, sh

TRUSTED_BASE = [
    "Coq 8.16.1 kernel + coqc (vm_compute only for the finite sweep over the generated _bond_lengths table, the "
    "witnesses and the non-vacuity example; no native_compute)",
    "Print Assumptions: every C03 theorem is closed under the global context (no axioms)",
    "translator tr/translate_c03.py (Python ast -> gen/C03_Gen.v; fail-closed; element tables and default "
    "tolerances validated each run against the runtime package objects)",
    "hand model coq/C03/Model.v of make_graph, remove_bonds_invalid_valancies, are_linear (squared-cosine form), "
    "are_planar (normal search), distance/angle/dihedral numerators - tied by the correspondence streams",
    "exact rationals stand for IEEE doubles up to rounding: decisions whose exact margin is below 1e-9 relative "
    "(bond threshold, linear / planar thresholds) are skipped and counted; the valence cap orders neighbours by "
    "(round(distance, 6), index) in the code (/repo 3e32450) and by (exact distance, index) in the model: a cut between "
    "two different distances closer than 1.1e-6 A, or an exact tie on a rounding boundary, is a skipped margin class; "
    "exact ties are in the correspondence and probed in extra random rotations (key make_graph|valence-cap-tie|rotation)",
    "sqrt / acos / atan2 are outside the theorems (squared distances, cosine and dihedral numerators are proved "
    "invariant; the dihedral itself is -atan2(S / sqrt L, C))",
    "RDKit (ETKDG embedding) only as a generator of test geometries; networkx adjacency-order semantics",
    "thermochemistry/symmetry.py (symmetry number search) is NOT modelled: implementation-only frame comparison",
]
ASSUMPTIONS = [
    "Arithmetic is exact over Q; IEEE rounding is outside the theorems",
    "the order np.argsort gives to exactly equal distances is unspecified (numpy's SIMD sort is not stable; the model "
    "sorts stably): structures with a tie at a valence-cap cut are skipped in every graph comparison and structures "
    "with any tie among an atom's neighbours in the adjacency-order stream (counted)",
    "The symmetry number is compared between frames / atom orders on the implementation only (claimed partial)",
]
RULE = ("structures: RDKit-embedded small organics + hand templates (linear, planar, metal centre, crowded / "
        "hypervalent, near-threshold bond lengths, degenerate) on a k/64 grid, plus grid jitter; frames: exact "
        "rational rotations (Pythagorean quaternions), translations, mirror reflections, atom permutations (new species "
        "from permuted atom lists AND in-place Species.reorder_atoms on a species holding its graph: all permutations "
        "for n <= 4, cyclic shifts, 3-cycles and random ones above); make_graph called on ONE species with the tolerance "
        "sequence default, 0.1, default, 0.5, 0.05, 0.3 on the structure and on stretched copies (bond lengths between "
        "the cut-offs), each graph checked against the distance criterion and the model for THAT tolerance; a case is "
        "non-trivial when the structure has >= 2 atoms and (for frame cases) the transform is not the identity; "
        "distinct by (structure, transform, observable)")

# Functions the hand model coq/C03/Model.v (and the harness's reference oracles that mirror implementation
# structure) were written from and that tr/translate_c03.py does NOT already regenerate or compare
# structurally.  (Pinned by the translator, hence not listed: Atom.maximal_valance / is_metal / atomic_number /
# atomic_symbol / covalent_radius, Atoms.eqm_bond_distance / are_linear / are_planar / nvector / vector,
# Species.is_linear / is_planar, the element tables; of make_graph the translator only reads the default
# tolerance and the bond test, so the function is pinned here.)
PINS = [("autode/mol_graphs.py", q) for q in (
    "make_graph", "remove_bonds_invalid_valancies", "_set_graph_attributes", "reorder_nodes")] + [
    ("autode/atoms.py", q) for q in (
        "Atom.__init__", "Atom.coord", "Atoms.coordinates", "Atoms.idxs_are_present", "Atoms.distance",
        "AtomCollection.n_atoms", "AtomCollection.coordinates", "AtomCollection.distance",
        "AtomCollection.eqm_bond_distance", "AtomCollection.angle", "AtomCollection.dihedral")] + [
    ("autode/species/species.py", q) for q in ("Species.graph", "Species.bond_matrix", "Species.reorder_atoms")] + [
    # not modelled (the symmetry number is an oracle) but the frame / permutation / state oracles were written against
    # these, and rigid motions are applied through them in the api-motions stream
    ("autode/thermochemistry/symmetry.py", q) for q in (
        "strip_identical_and_inv_axes", "get_possible_axes", "is_same_under_n_fold", "cn_and_axes", "create_pcoords",
        "symmetry_number")] + [
    ("autode/geom.py", "get_rot_mat_euler"), ("autode/geom.py", "get_rot_mat_euler_from_terms"),
    ("autode/species/species.py", "Species.sn"), ("autode/species/species.py", "Species.rotate"),
    ("autode/species/species.py", "Species.translate"), ("autode/species/species.py", "Species._set_rigidly_moved_coordinates"),
    ("autode/species/species.py", "Species.coordinates"),
    ("autode/atoms.py", "Atom.rotate"), ("autode/atoms.py", "Atom.translate")]

SLICE = ["lib/QcInst.v", "C03/Vec.v", "C03/Model.v", "C03/Lemmas.v", "C03/Props.v", "C03/Corr.v", "gen/C03_Gen.v"]
PRE = ("From Coq Require Import ZArith QArith Qcanon List String Bool.\nFrom AV.lib Require Import QcInst.\n"
       "From AV.C03 Require Import Vec.\nFrom AV.gen Require Import C03_Gen.\nFrom AV.C03 Require Import Model Corr.\n"
       "Import ListNotations.\nOpen Scope string_scope.\n")
EPS = F(1, 10**9)
warnings.filterwarnings("ignore", category=RuntimeWarning)   # nan from coincident atoms (modelled: 0 < 0)


# ----------------------------------------------------------------------------------- structures
class Geo:
    def __init__(self, name, kind, syms, xyz):
        self.name, self.kind, self.syms = name, kind, list(syms)
        self.xyz = [[F(v) for v in p] for p in xyz]

    @property
    def n(self):
        return len(self.syms)

    def floats(self):
        return [[float(v) for v in p] for p in self.xyz]

    def moved(self, R, t, tag):
        xyz = [[sum(R[i][k] * p[k] for k in range(3)) + t[i] for i in range(3)] for p in self.xyz]
        return Geo(self.name + "|" + tag, self.kind, self.syms, xyz)

    def permuted(self, sigma, tag):
        """atom i of self is listed at position sigma[i]"""
        inv = [0] * self.n
        for i, s in enumerate(sigma):
            inv[s] = i
        return Geo(self.name + "|" + tag, self.kind, [self.syms[inv[k]] for k in range(self.n)],
                   [self.xyz[inv[k]] for k in range(self.n)])

    def replay(self):
        return {"name": self.name, "symbols": self.syms,
                "coords": [[f"{v.numerator}/{v.denominator}" for v in p] for p in self.xyz]}


def geo_from_replay(d):
    return Geo(d["name"], "replay", d["symbols"], [[F(v) for v in p] for p in d["coords"]])


def g64(x):
    return F(round(x * 64), 64)


def grid(rows):
    return [[g64(v) for v in p] for p in rows]


def hand_templates():
    s3, T = math.sqrt(3.0), []

    def add(name, kind, syms, rows, exact=False):
        T.append(Geo(name, kind, syms, rows if exact else grid(rows)))
    # --- linear
    add("H2", "linear", ["H", "H"], [[0, 0, 0], [0.75, 0, 0]])
    add("CO2", "linear", ["O", "C", "O"], [[-1.15625, 0, 0], [0, 0, 0], [1.15625, 0, 0]])
    add("CO2-COO", "linear", ["C", "O", "O"], [[0, 0, 0], [-1.15625, 0, 0], [1.15625, 0, 0]])
    add("HCN", "linear", ["H", "C", "N"], [[0, 0, -1.0625], [0, 0, 0], [0, 0, 1.15625]])
    add("C2H2", "linear", ["C", "C", "H", "H"], [[0, 0.59375, 0], [0, -0.59375, 0], [0, 1.65625, 0], [0, -1.65625, 0]])
    add("C3O2-diag", "linear", ["O", "C", "C", "C", "O"], [[-2.5, -2.5, 0], [-1.25, -1.25, 0], [0, 0, 0], [1.25, 1.25, 0], [2.5, 2.5, 0]])
    add("CO2-bent-1/64", "linear", ["O", "C", "O"], [[-1.15625, 0, 0], [0, 0, 0], [1.15625, 1 / 64, 0]])
    add("CO2-bent-2/64", "linear", ["O", "C", "O"], [[-1.15625, 0, 0], [0, 0, 0], [1.15625, 2 / 64, 0]])
    add("CO2-bent-6/64", "linear", ["O", "C", "O"], [[-1.15625, 0, 0], [0, 0, 0], [1.15625, 6 / 64, 0]])
    # --- planar
    add("H2O", "planar", ["O", "H", "H"], [[0, 0, 0], [0.75, 0.59375, 0], [-0.75, 0.59375, 0]])
    add("C2H4", "planar", ["C", "C", "H", "H", "H", "H"],
        [[0.671875, 0, 0], [-0.671875, 0, 0], [1.234375, 0.921875, 0], [1.234375, -0.921875, 0],
         [-1.234375, 0.921875, 0], [-1.234375, -0.921875, 0]])
    add("CH2O", "planar", ["C", "O", "H", "H"], [[0, 0, 0], [0, 1.203125, 0], [0.9375, -0.59375, 0], [-0.9375, -0.59375, 0]])
    add("BF3", "planar", ["B", "F", "F", "F"], [[0, 0, 0], [1.3125, 0, 0], [-0.65625, 1.3125 * s3 / 2, 0], [-0.65625, -1.3125 * s3 / 2, 0]])
    add("C6H6", "planar", ["C"] * 6 + ["H"] * 6,
        [[1.390625 * math.cos(k * math.pi / 3), 1.390625 * math.sin(k * math.pi / 3), 0] for k in range(6)] +
        [[2.484375 * math.cos(k * math.pi / 3), 2.484375 * math.sin(k * math.pi / 3), 0] for k in range(6)])
    add("C2H4-tilted", "planar", ["C", "C", "H", "H", "H", "H"],
        [[0.671875, 0, 0.671875], [-0.671875, 0, -0.671875], [1.234375, 0.921875, 1.234375], [1.234375, -0.921875, 1.234375],
         [-1.234375, 0.921875, -1.234375], [-1.234375, -0.921875, -1.234375]])
    add("C2H4-pucker-1/64", "planar", ["C", "C", "H", "H", "H", "H"],
        [[0.671875, 0, 0], [-0.671875, 0, 0], [1.234375, 0.921875, 0], [1.234375, -0.921875, 0],
         [-1.234375, 0.921875, 1 / 64], [-1.234375, -0.921875, 0]])
    # --- not planar / first atoms colinear
    add("CH4", "tetra", ["C", "H", "H", "H", "H"], [[0, 0, 0], [0.625, 0.625, 0.625], [-0.625, -0.625, 0.625], [-0.625, 0.625, -0.625], [0.625, -0.625, -0.625]])
    add("NH3", "tetra", ["N", "H", "H", "H"], [[0, 0, 0.109375], [0.9375, 0, -0.265625], [-0.46875, 0.8125, -0.265625], [-0.46875, -0.8125, -0.265625]])
    add("allene-CCC-first", "colinear3", ["C", "C", "C", "H", "H", "H", "H"],
        [[-1.296875, 0, 0], [0, 0, 0], [1.296875, 0, 0], [-1.859375, 0.921875, 0], [-1.859375, -0.921875, 0], [1.859375, 0, 0.921875], [1.859375, 0, -0.921875]])
    add("butyne-CCCC-first", "colinear3", ["C", "C", "C", "C"] + ["H"] * 6,
        [[-2.0625, 0, 0], [-0.59375, 0, 0], [0.59375, 0, 0], [2.0625, 0, 0],
         [-2.4375, 1.03125, 0], [-2.4375, -0.515625, 0.890625], [-2.4375, -0.515625, -0.890625],
         [2.4375, -1.03125, 0], [2.4375, 0.515625, 0.890625], [2.4375, 0.515625, -0.890625]])
    add("IF5-apex-last", "tetra", ["I", "F", "F", "F", "F", "F"],
        [[0, 0, 0], [1.765625, 0, 0], [-1.765625, 0, 0], [0, 1.765625, 0], [0, -1.765625, 0], [0, 0, 1.6875]])
    add("IF5-apex-second", "tetra", ["I", "F", "F", "F", "F", "F"],
        [[0, 0, 0], [0, 0, 1.6875], [1.765625, 0, 0], [-1.765625, 0, 0], [0, 1.765625, 0], [0, -1.765625, 0]])
    add("SO2-OSO", "planar", ["O", "S", "O"], [[1.234375, 0.71875, 0], [0, 0, 0], [-1.234375, 0.71875, 0]])
    add("H2O-HOH", "planar", ["H", "O", "H"], [[0.75, 0.59375, 0], [0, 0, 0], [-0.75, 0.59375, 0]])
    add("CH2F2", "tetra", ["C", "F", "F", "H", "H"],
        [[0, 0, 0], [1.109375, 0.78125, 0], [-1.109375, 0.78125, 0], [0, -0.625, 0.890625], [0, -0.625, -0.890625]])
    # --- metal centres
    add("K2-long-bond", "metal", ["K", "K"], [[0, 0, 0], [4.5, 0, 0]])
    add("K2-long-bond-diag", "metal", ["K", "K"], [[0, 0, 0], [3.1875, 3.1875, 0]])
    add("CsI-long-bond", "metal", ["Cs", "I"], [[0, 0, 0], [2.5, 2.5, 2.5]])
    add("Fe2-dimer-CO", "metal", ["Fe", "Fe", "C", "O"], [[0, 0, 0], [2.5, 0, 0], [-1.78125, 0, 0], [-2.9375, 0, 0]])
    add("FeO6-octahedral", "metal", ["Fe"] + ["O"] * 6,
        [[0, 0, 0], [2.09375, 0, 0], [-2.09375, 0, 0], [0, 2.09375, 0], [0, -2.09375, 0], [0, 0, 2.09375], [0, 0, -2.09375]])
    add("PtCl4-square", "metal", ["Pt"] + ["Cl"] * 4, [[0, 0, 0], [2.3125, 0, 0], [-2.3125, 0, 0], [0, 2.3125, 0], [0, -2.3125, 0]])
    add("FeO8-overcoordinated", "metal", ["Fe"] + ["O"] * 8,
        [[0, 0, 0], [2.0, 0, 0], [-2.03125, 0, 0], [0, 2.0625, 0], [0, -2.09375, 0], [0, 0, 2.125], [0, 0, -2.15625],
         [1.28125, 1.28125, 1.28125], [-1.3125, -1.3125, -1.3125]])
    add("Li-H2O", "metal", ["Li", "O", "H", "H"], [[0, 0, 0], [1.9375, 0, 0], [2.53125, 0.765625, 0], [2.53125, -0.765625, 0]])
    # --- crowded / hypervalent
    add("CH5-distinct", "crowded", ["C", "H", "H", "H", "H", "H"],
        [[0, 0, 0], [1.09375, 0, 0], [-0.359375, 1.046875, 0], [-0.359375, -0.53125, 0.921875], [-0.375, -0.546875, -0.9375], [0.640625, 0.640625, 0.640625]])
    add("CH5-ties", "crowded", ["C", "H", "H", "H", "H", "H"],
        [[0, 0, 0], [1.09375, 0, 0], [-1.09375, 0, 0], [0, 1.09375, 0], [0, -1.09375, 0], [0, 0, 1.09375]])
    add("SN2-ClCH3Cl", "crowded", ["C", "Cl", "Cl", "H", "H", "H"],     # symmetric TS: two equal C-Cl at the cap cut
        [[0, 0, 0], [0, 0, 2.296875], [0, 0, -2.296875], [1.0625, 0, 0], [-0.53125, 0.921875, 0], [-0.53125, -0.921875, 0]])
    add("SF6", "crowded", ["S"] + ["F"] * 6,
        [[0, 0, 0], [1.5625, 0, 0], [-1.5625, 0, 0], [0, 1.5625, 0], [0, -1.5625, 0], [0, 0, 1.5625], [0, 0, -1.5625]])
    add("PF5", "crowded", ["P"] + ["F"] * 5,
        [[0, 0, 0], [0, 0, 1.578125], [0, 0, -1.578125], [1.53125, 0, 0], [-0.765625, 1.328125, 0], [-0.765625, -1.328125, 0]])
    add("OH4-overcoordinated", "crowded", ["O", "H", "H", "H", "H"],
        [[0, 0, 0], [0.953125, 0, 0], [-0.328125, 0.921875, 0], [-0.34375, -0.484375, 0.84375], [-0.359375, -0.5, -0.875]])
    add("bridging-H", "crowded", ["C", "H", "C"], [[0, 0, 0], [1.25, 0, 0], [2.53125, 0, 0]])
    add("H3-triangle", "crowded", ["H", "H", "H"], [[0, 0, 0], [0.859375, 0, 0], [0.4375, 0.78125, 0]])
    add("H4-chain", "crowded", ["H"] * 4, [[0, 0, 0], [F(4, 5), 0, 0], [F(33, 20), 0, 0], [F(51, 20), 0, 0]], exact=True)
    add("H4-chain-acbd", "crowded", ["H"] * 4, [[0, 0, 0], [F(33, 20), 0, 0], [F(4, 5), 0, 0], [F(51, 20), 0, 0]], exact=True)
    add("H4-chain-compressed", "crowded", ["H"] * 4, [[0, 0, 0], [0.796875, 0, 0], [1.703125, 0, 0], [2.65625, 0, 0]])
    s2, c2 = math.sin(2 * math.pi / 3), math.cos(2 * math.pi / 3)
    fcc = [[0, 0, 0], [1.90625, 0, 0], [-1.5, 0, 0], [4.09375, 0, 0], [0, 1.09375, 0], [0, 1.09375 * c2, 1.09375 * s2],
           [0, 1.09375 * c2, -1.09375 * s2], [1.90625, -1.09375, 0], [1.90625, -1.09375 * c2, 1.09375 * s2],
           [1.90625, -1.09375 * c2, -1.09375 * s2]]
    add("F-CH3-CH3-Cl-crowded", "crowded", ["C", "C", "F", "Cl"] + ["H"] * 6, fcc)
    add("F-CH3-CH3-Cl-crowded-C1first", "crowded", ["C", "C", "F", "Cl"] + ["H"] * 6, [fcc[1], fcc[0]] + fcc[2:])
    add("C2-bridged-H-pair", "crowded", ["C", "H", "H", "C"], [[0, 0, 0], [1.25, 0, 0], [2.0625, 0, 0], [3.3125, 0, 0]])
    add("FHF-HF-cluster", "crowded", ["F", "H", "F", "H", "F"],
        [[0, 0, 0], [1.140625, 0, 0], [2.28125, 0, 0], [2.28125, 1.15625, 0], [2.28125, 2.3125, 0.09375]])
    # --- near-threshold bond lengths (C-C: 1.52*1.3 = 1.976; Cl-Cl 2.5844; H-H 0.9633; C-H 1.391)
    add("CC-in-126/64", "threshold", ["C", "C"], [[0, 0, 0], [126 / 64, 0, 0]])
    add("CC-out-127/64", "threshold", ["C", "C"], [[0, 0, 0], [127 / 64, 0, 0]])
    add("CC-exact-threshold", "threshold", ["C", "C"], [[0, 0, 0], [F(247, 125), 0, 0]], exact=True)
    add("ClCl-in", "threshold", ["Cl", "Cl"], [[0, 0, 0], [0, 165 / 64, 0]])
    add("ClCl-out", "threshold", ["Cl", "Cl"], [[0, 0, 0], [0, 166 / 64, 0]])
    add("HH-in", "threshold", ["H", "H"], [[0, 0, 0], [0, 0, 61 / 64]])
    add("HH-out", "threshold", ["H", "H"], [[0, 0, 0], [0, 0, 62 / 64]])
    add("CH-out-ring", "threshold", ["C", "H", "H", "H", "H"],
        [[0, 0, 0], [89 / 64, 0, 0], [-90 / 64, 0, 0], [0, 88 / 64, 0], [0, -1.078125, 0]])
    add("FF-vs-radii", "threshold", ["F", "F", "Cl", "I", "I"], [[0, 0, 0], [1.828125, 0, 0], [0, 2.046875, 0], [6, 0, 0], [6, 3.453125, 0]])
    # --- degenerate
    add("single-He", "degenerate", ["He"], [[0, 0, 0]])
    add("coincident-CC", "degenerate", ["C", "C", "H"], [[0, 0, 0], [0, 0, 0], [1.0625, 0, 0]])
    add("far-apart", "degenerate", ["C", "O", "N"], [[0, 0, 0], [5, 0, 0], [0, 7, 3]])
    add("no-atoms", "degenerate", [], [])
    add("single-Fr", "degenerate", ["Fr"], [[0, 0, 0]])          # beyond the covalent-radius table
    add("Fr-H", "degenerate", ["Fr", "H"], [[0, 0, 0], [2, 0, 0]])
    add("H-H-U", "degenerate", ["H", "H", "U"], [[0, 0, 0], [0.75, 0, 0], [9, 0, 0]])
    return T


SMILES = ["C", "CC", "C=C", "C#C", "CO", "C=O", "O", "OO", "CN", "C#N", "CF", "CCl", "[NH4+]", "[OH-]", "C[O-]",
          "C=C=C", "CC#CC", "C1CC1", "CCO", "CC(=O)O", "CC=O", "[O-]C=O", "FC(F)(F)F", "ClCCl", "CS", "CSC",
          "C[N+](C)(C)C", "c1ccccc1", "c1ccncc1", "C1CCCCC1", "CC(C)(C)C", "CS(=O)(=O)C", "OP(=O)(O)O", "C[Si](C)(C)C",
          "NC(=O)C", "c1ccoc1", "BrCBr", "CI", "B(O)(O)O", "CC(C)=O"]


def rdkit_structures(rng, limit):
    from rdkit import Chem, RDLogger
    from rdkit.Chem import AllChem
    RDLogger.DisableLog("rdApp.*")
    out = []
    for smi in SMILES[:limit]:
        m = Chem.AddHs(Chem.MolFromSmiles(smi))
        if AllChem.EmbedMolecule(m, randomSeed=rng.randrange(1, 2**20)) != 0:
            continue
        c = m.GetConformer()
        rows = [[c.GetAtomPosition(i).x, c.GetAtomPosition(i).y, c.GetAtomPosition(i).z] for i in range(m.GetNumAtoms())]
        out.append(Geo("rdkit:" + smi, "rdkit", [a.GetSymbol() for a in m.GetAtoms()], grid(rows)))
    return out


def jittered(rng, base, k):
    """grid jitter / uniform scaling of a structure: explores thresholds and over-coordination"""
    out = []
    for j in range(k):
        g = rng.choice(base)
        if g.n < 2:
            continue
        if rng.random() < 0.5:
            sc = F(rng.randrange(44, 84), 64)
            xyz = [[g64(float(v * sc)) for v in p] for p in g.xyz]
            tag = f"scale{sc}"
        else:
            xyz = [[v + F(rng.randrange(-6, 7), 64) for v in p] for p in g.xyz]
            tag = "jitter"
        out.append(Geo(f"{g.name}|{tag}#{j}", "jitter", g.syms, xyz))
    return out


def crowded_clusters(rng, k):
    """random crowded clusters on the k/64 grid (min separation 0.7 A): many adjacent over-coordinated atoms"""
    pools = [["H", "H", "H", "C", "C", "N", "O", "H"], ["H", "H", "C", "O", "F", "H"], ["C", "C", "C", "H", "H", "H", "H"],
             ["H", "H", "H", "H", "H"], ["O", "H", "H", "N", "H", "Cl", "H"]]
    out = []
    while len(out) < k:
        syms = list(rng.choice(pools))
        rng.shuffle(syms)
        half = rng.choice([80, 96, 112])
        xyz = [[F(rng.randrange(-half, half + 1), 64) for _ in range(3)] for _ in syms]
        if min(sum((a - b) ** 2 for a, b in zip(p, q)) for i, p in enumerate(xyz) for q in xyz[:i]) < F(49, 100):
            continue
        out.append(Geo(f"cluster#{len(out)}", "cluster", syms, xyz))
    return out


# ----------------------------------------------------------------------------------- frames
def quat_rot(a, b, c, d):
    n = a * a + b * b + c * c + d * d
    M = [[a * a + b * b - c * c - d * d, 2 * (b * c - a * d), 2 * (b * d + a * c)],
         [2 * (b * c + a * d), a * a - b * b + c * c - d * d, 2 * (c * d - a * b)],
         [2 * (b * d - a * c), 2 * (c * d + a * b), a * a - b * b - c * c + d * d]]
    return [[F(x, n) for x in r] for r in M]


def householder(v):
    n = sum(x * x for x in v)
    return [[F(int(i == j)) - F(2 * v[i] * v[j], n) for j in range(3)] for i in range(3)]


def matmul(A, B):
    return [[sum(A[i][k] * B[k][j] for k in range(3)) for j in range(3)] for i in range(3)]


I3 = [[F(int(i == j)) for j in range(3)] for i in range(3)]
QUATS = [(1, 2, 2, 4), (1, 1, 1, 1), (2, 1, 0, 0), (1, 2, 4, 6), (3, 1, 1, 1), (0, 1, 2, 2), (1, 0, 1, 0), (5, 1, 3, 1), (2, 3, 6, 0)]
MIRRORS = [(1, 0, 0), (0, 0, 1), (1, 1, 0), (1, 2, 2), (2, 3, 6), (1, -1, 1)]


def random_rot(rng):
    """exactly orthogonal rational rotation from a random integer quaternion: generic axis and angle
    (the fixed QUATS are all 'nice'; rounding-driven frame dependence needs generic ones)"""
    while True:
        q = tuple(rng.randrange(-60, 61) for _ in range(4))
        if sum(1 for x in q if x) >= 3:
            return q, quat_rot(*q)


def frames(rng, n_rot, n_ref, n_rand=1):
    fr = [("translate", I3, [F(rng.randrange(-40, 41), 8) for _ in range(3)], 1)]
    for _ in range(n_rand):
        q, R = random_rot(rng)
        fr.append((f"randrot{q}", R, [F(rng.randrange(-24, 25), 8) for _ in range(3)], 1))
    for q in rng.sample(QUATS, n_rot):
        t = [F(rng.randrange(-24, 25), 8) for _ in range(3)]
        fr.append((f"rot{q}", quat_rot(*q), t, 1))
    for k, v in enumerate(rng.sample(MIRRORS, n_ref)):
        H = householder(v)
        if k % 2 == 0:
            q, R = random_rot(rng)
            H = matmul(R, H)
        fr.append((f"mirror{v}{'+randrot' + str(q) if k % 2 == 0 else ''}", H, [F(rng.randrange(-8, 9), 8) for _ in range(3)], -1))
    return fr


# ----------------------------------------------------------------------------------- implementation
def species_of(g):
    from autode.atoms import Atom
    from autode.species.species import Species
    return Species("c03", [Atom(s, *p) for s, p in zip(g.syms, g.floats())], charge_of(g), 1)


CHARGES = {"SN2-ClCH3Cl": -1, "CH5-ties": 1, "CH5-distinct": 1, "FHF-HF-cluster": -1, "OH4-overcoordinated": 2,
           "H3-triangle": 1}


def charge_of(g):
    """formal charge of the structure (charged species are in the quantifier; perception must ignore it)"""
    base = g.name.split("|")[0]
    if base.startswith("rdkit:"):
        return base.count("+]") - base.count("-]")
    return CHARGES.get(base, 0)


def norm_edges(graph):
    return sorted((min(int(i), int(j)), max(int(i), int(j))) for i, j in graph.edges)


def impl_graph(g, allow=False):
    """-> ('ok', edges, adjacency) | ('noatoms',) | ('indexerror',)"""
    from autode.mol_graphs import make_graph
    import autode.exceptions as ex
    sp = species_of(g)
    try:
        make_graph(sp, allow_invalid_valancies=allow)
    except ex.NoAtomsInMolecule:
        return ("noatoms",)
    except IndexError:
        return ("indexerror",)
    adj = [[int(k) for k in sp.graph.neighbors(i)] for i in range(g.n)]
    return ("ok", norm_edges(sp.graph), adj)


class Exact:
    """Exact (rational) facts about a structure, with the implementation's own r0 / maximal valence
    as the only inputs: the independent reference for the oracles and the margin filter."""

    def __init__(self, g, rel_tol=0.3):
        from autode.atoms import Atom, Atoms
        self.g = g
        n = g.n
        atoms = Atoms([Atom(s) for s in g.syms])
        self.maxval = [int(a.maximal_valance) for a in atoms]
        self.d2 = [[sum((a - b) ** 2 for a, b in zip(g.xyz[i], g.xyz[j])) for j in range(n)] for i in range(n)]
        self.thr = {}
        self.radius_error = False
        cache = {}
        for i in range(n):
            for j in range(n):
                if i == j:
                    continue
                key = (g.syms[i], g.syms[j])
                if key not in cache:
                    try:
                        cache[key] = frac(float(atoms.eqm_bond_distance(i, j)) * (1.0 + rel_tol))
                    except IndexError:
                        cache[key] = None
                        self.radius_error = True
                self.thr[(i, j)] = cache[key]
        self.within, self.near = set(), set()
        self.nbrs0, self.overcoordinated, self.cut_tie, self.row_tie = [], [], False, False
        if self.radius_error:
            return
        for i in range(n):
            for j in range(i + 1, n):
                t = min(self.thr[(i, j)], self.thr[(j, i)]), max(self.thr[(i, j)], self.thr[(j, i)])
                d2 = self.d2[i][j]
                if d2 <= (t[1] * (1 + EPS)) ** 2 and d2 >= (t[0] * (1 - EPS)) ** 2:
                    self.near.add((i, j))
                if d2 <= t[1] ** 2:
                    self.within.add((i, j))
        self.nbrs0 = [[j for j in range(n) if (min(i, j), max(i, j)) in self.within and j != i] for i in range(n)]
        self.overcoordinated = [i for i in range(n) if len(self.nbrs0[i]) > self.maxval[i]]
        # a tie (within 4e-9 relative in d^2) among the neighbours of an over-coordinated atom: which of
        # two equally long bonds the cap removes is decided by np.argsort's order on ties, which is
        # unspecified (numpy's SIMD sort is not stable) -> such structures are skipped and counted
        for i in range(n):
            ds = sorted(self.d2[i][j] for j in self.nbrs0[i])
            if any(b - a <= 4 * EPS * b for a, b in zip(ds, ds[1:])):
                self.row_tie = True
                if i in self.overcoordinated:
                    self.cut_tie = True

    def reference_edges(self):
        """The perceived graph according to the property, computed exactly and independently: all pairs
        within tolerance, then atom by atom in index order an atom that is over-coordinated AT THAT
        MOMENT loses its longest bonds, equally long ones in atom-index order (/repo 3e32450).
        -> (sorted edges, log) or None when a cut falls inside the 1e-6 A rounding resolution of the
        code's sort key without being an exact tie, or on a rounding boundary (margin class), or the
        structure has a near-threshold pair / radius error.  self.exact_tie: a cut fell on an exact tie."""
        self.exact_tie = False
        if self.radius_error or self.near:
            return None
        n = self.g.n
        nb = [set(x) for x in self.nbrs0]
        log = []
        for i in range(n):
            cap = self.maxval[i]
            if len(nb[i]) <= cap:
                continue
            order = sorted(nb[i], key=lambda k: (self.d2[i][k], k))
            if cap >= 1:
                da, db = self.d2[i][order[cap - 1]], self.d2[i][order[cap]]
                if da == db:
                    self.exact_tie = True
                    x = math.sqrt(float(da)) * 1e6
                    if abs(x - math.floor(x) - 0.5) < 1e-3:
                        return None          # the common distance sits on a rounding boundary of round(d, 6)
                elif math.sqrt(float(db)) - math.sqrt(float(da)) <= 1.1e-6:
                    return None              # different distances inside the rounding resolution
            for j in order[cap:]:
                nb[i].discard(j)
                nb[j].discard(i)
                log.append((i, j, len(order), cap))
        return sorted((i, j) for i in range(n) for j in nb[i] if i < j), log

    def ref(self):
        if not hasattr(self, "_ref"):
            self._ref = self.reference_edges()
        return self._ref

    def graph_decidable(self):
        """the edge set is determined by the exact geometry (no near-threshold pair, no tie AT a cap cut)"""
        return self.radius_error or self.ref() is not None

    def tie_at_cut(self):
        """a valence-cap cut falls on two EXACTLY equal distances (symmetric over-coordinated structure):
        decided by atom index since /repo 3e32450, hence frame independent"""
        return self.ref() is not None and self.exact_tie

    def linear_margin_ok(self, ct):
        return linear_margin_ok(self.g, ct)

    def planar_margin_ok(self, tol):
        return planar_margin_ok(self.g, tol)


# are_linear / are_planar decision margins of a structure in ITS atom order and frame
def linear_margin_ok(g, ct):
    """no angle (at any atom, between any two others) within 1e-9 of the linearity threshold"""
    if g.n < 3:
        return True
    X = np.array(g.floats())
    for i in range(g.n):
        V = np.delete(X, i, axis=0) - X[i]
        nrm = np.linalg.norm(V, axis=1)
        V = V[nrm > 0] / nrm[nrm > 0][:, None]     # zero vectors: nan in the code, "not off"
        if len(V) and np.any(np.abs(np.abs(V @ V.T) - ct) < 1e-9):
            return False
    return True


def planar_margin_ok(g, tol, eps=1e-8):
    if True:
        if g.n < 4:
            return True
        x0 = g.xyz[0]
        a = [u - v for u, v in zip(g.xyz[1], x0)]
        nv = [F(0)] * 3
        for p in g.xyz[2:]:
            b = [u - v for u, v in zip(p, x0)]
            nv = [a[1] * b[2] - a[2] * b[1], a[2] * b[0] - a[0] * b[2], a[0] * b[1] - a[1] * b[0]]
            nn = math.sqrt(float(sum(x * x for x in nv)))
            if 0 < nn and abs(nn - eps) < 1e-3 * eps:
                return False
            if nn > eps:
                break
        for p in g.xyz[2:]:
            t = abs(float(sum(x * (u - v) for x, u, v in zip(nv, p, x0))))
            if abs(t - tol) < 1e-9 * max(tol, t):
                return False
        return True


def plane_deviation(g):
    X = np.array(g.floats())
    X = X - X.mean(axis=0)
    _, s, vt = np.linalg.svd(X)
    return float(np.max(np.abs(X @ vt[-1]))) if g.n >= 3 else 0.0


def line_deviation_deg(g):
    """largest deviation from 0/180 degrees of any angle (b-a, c-a), in degrees"""
    X, worst = np.array(g.floats()), 0.0
    for a in range(g.n):
        for b in range(g.n):
            for c in range(g.n):
                if len({a, b, c}) == 3:
                    u, v = X[b] - X[a], X[c] - X[a]
                    nu, nv = np.linalg.norm(u), np.linalg.norm(v)
                    if nu > 1e-9 and nv > 1e-9:
                        th = math.degrees(math.acos(max(-1.0, min(1.0, float(u @ v) / (nu * nv)))))
                        worst = max(worst, min(th, 180.0 - th))
    return worst


# ----------------------------------------------------------------------------------- oracles
class Oracles:
    def __init__(self, ctx, consts):
        self.ctx, self.nfail, self.keys, self.per_key, self.reported = ctx, 0, set(), {}, 0
        self.ct, self.ptol, self.rel = consts["lin"], consts["pl"], consts["rel"]
        self.seq_records, self.reorder_records = [], []

    def fail(self, key, what, rep):
        self.nfail += 1
        self.per_key[key] = self.per_key.get(key, 0) + 1
        if self.per_key[key] <= 2 and self.reported < 10:
            self.reported += 1
            self.ctx.finding(key, what, rep)
        self.keys.add(key)

    # -- single-frame oracles: valence cap, bonded iff within tolerance, removed are the longest
    def single(self, g, ex):
        r = impl_graph(g)
        self.ctx.count("impl-oracle:graph-rules", (g.name,), nontrivial=g.n >= 2)
        if r[0] != "ok":
            return r
        self.rules(g, ex, set(r[1]), {"kind": "graph-rules", "structure": g.replay(), "edges": r[1]})
        return r

    def rules(self, g, ex, edges, rep, pre=""):
        """valence cap / bonded iff within tolerance / removed are the longest, for the tolerance of ex"""
        r = None
        deg = [sum(1 for e in edges if i in e) for i in range(g.n)]
        for i in range(g.n):
            if deg[i] > ex.maxval[i]:
                self.fail(pre + "valence-cap", f"{g.name}: atom {i} ({g.syms[i]}) has {deg[i]} bonds, maximal valence {ex.maxval[i]}", rep)
        if ex.radius_error:
            return r
        for e in edges:
            if e not in ex.within and e not in ex.near:
                self.fail(pre + "bonded-outside-tolerance", f"{g.name}: atoms {e} are bonded at distance "
                          f"{math.sqrt(float(ex.d2[e[0]][e[1]])):.6f} > tolerance-scaled equilibrium length "
                          f"{float(ex.thr[e]):.6f}", rep)
        for e in sorted(ex.within - edges - ex.near):
            ok = False
            for i, j in (e, e[::-1]):
                kept = [k for k in range(g.n) if (min(i, k), max(i, k)) in edges]
                if i in ex.overcoordinated and all(ex.d2[i][k] <= ex.d2[i][j] * (1 + 4 * EPS) for k in kept):
                    ok = True
            if not ok:
                why = "neither atom is over-coordinated" if not (set(e) & set(ex.overcoordinated)) else \
                    "an atom keeps a longer bond than the one removed"
                self.fail(pre + "within-tolerance-not-bonded", f"{g.name}: atoms {e} are within tolerance "
                          f"({math.sqrt(float(ex.d2[e[0]][e[1]])):.6f} <= {float(ex.thr[e]):.6f}) but not bonded and "
                          f"{why}", rep)
        # the cap treats the atoms in index order and only an atom that is over-coordinated WHEN IT IS
        # REACHED loses bonds (its longest): exact sequential reference
        ref = ex.reference_edges()
        if ref is None:
            self.ctx.hist("impl-oracle:graph-rules", "sequential-reference-skipped(tie/near)")
        elif sorted(edges) != ref[0]:
            removed = {(min(i, j), max(i, j)): (i, m, c) for i, j, m, c in ref[1]}
            deg = [sum(1 for e in edges if i in e) for i in range(g.n)]
            msgs = []
            for e in sorted(set(ref[0]) - set(edges)):
                msgs.append(f"bond {e} ({math.sqrt(float(ex.d2[e[0]][e[1]])):.4f} A, within tolerance) is missing although "
                            f"atom {e[0]} keeps {deg[e[0]]}/{ex.maxval[e[0]]} and atom {e[1]} keeps {deg[e[1]]}/{ex.maxval[e[1]]} "
                            f"bonds: neither was over-coordinated with this bond among its longest when it was reached")
            for e in sorted(set(edges) - set(ref[0])):
                i, m, c = removed.get(e, (None, 0, 0))
                msgs.append(f"bond {e} is kept although atom {i} had {m} > {c} bonds when reached and this is among its longest")
            self.fail(pre + "valence-cap|not-sequential", f"{g.name}: perceived {sorted(edges)}, the atom-by-atom cap gives "
                      f"{ref[0]}: " + "; ".join(msgs[:3]), dict(rep, reference=ref[0]))
        return r

    def shape(self, g):
        sp = species_of(g)
        return bool(sp.is_linear()), bool(sp.is_planar())

    def sn(self, g):
        return int(species_of(g).sn)

    def geom_values(self, g, idx):
        """distance / angle / dihedral of the implementation for index tuples; None on ValueError"""
        sp, out = species_of(g), []
        for t in idx:
            try:
                f = {2: sp.distance, 3: sp.angle, 4: sp.dihedral}[len(t)]
                out.append(float(f(*t)))
            except ValueError:
                out.append(None)
        return out

    # -- frame oracle: every observable equal in the moved frame
    def frame(self, g, ex, base, fr, do_sn, idx, base_vals):
        ctx = self.ctx
        tag, R, t, det = fr
        h = g.moved(R, t, tag)
        rep = {"kind": "frame", "structure": g.replay(), "frame": tag,
               "R": [[str(x) for x in r] for r in R], "t": [str(x) for x in t], "det": det}
        kind = "reflection" if det < 0 else "rigid-motion"
        r = impl_graph(h)
        ctx.count("impl-oracle:frames", (g.name, tag, "graph"), nontrivial=g.n >= 2)
        if ex.graph_decidable() and ex.tie_at_cut():
            self.tie_probe(g, base, fr, r)
        elif ex.graph_decidable():
            if r[:2] != base["graph"][:2]:
                self.fail(f"graph|{kind}", f"{g.name}: perceived graph changes under {tag}: "
                          f"{base['graph'][1] if base['graph'][0] == 'ok' else base['graph']} -> {r[1] if r[0] == 'ok' else r}", rep)
        else:
            ctx.hist("impl-oracle:frames", "graph-margin-skipped")
        lin, pla = self.shape(h)
        ctx.count("impl-oracle:frames", (g.name, tag, "shape"), nontrivial=g.n >= 3)
        if base["lin_ok"] and linear_margin_ok(h, self.ct):
            if lin != base["shape"][0]:
                self.fail(f"is_linear|{kind}", f"{g.name}: is_linear {base['shape'][0]} -> {lin} under {tag}", rep)
        else:
            ctx.hist("impl-oracle:frames", "linear-margin-skipped")
        if base["pla_ok"] and planar_margin_ok(h, self.ptol):
            if pla != base["shape"][1]:
                self.fail(f"is_planar|{kind}", f"{g.name}: is_planar {base['shape'][1]} -> {pla} under {tag}", rep)
        else:
            ctx.hist("impl-oracle:frames", "planar-margin-skipped")
        if do_sn and base["sn"] is not None:
            ctx.count("impl-oracle:symmetry-number", (g.name, tag), nontrivial=g.n >= 2)
            s = self.sn(h)
            if s != base["sn"]:
                self.fail(f"sn|{kind}", f"{g.name}: symmetry number {base['sn']} -> {s} under {tag}", rep)
        vals = self.geom_values(h, idx)
        for tup, a, b in zip(idx, base_vals, vals):
            ctx.count("impl-oracle:frames", (g.name, tag, tup), nontrivial=True)
            name = {2: "distance", 3: "angle", 4: "dihedral"}[len(tup)]
            r2 = dict(rep, indexes=list(tup), original=a, moved=b)
            if (a is None) != (b is None):
                self.fail(f"{name}|{kind}", f"{g.name}: {name}{tup} defined in one frame only ({a} vs {b}) under {tag}", r2)
                continue
            if a is None:
                continue
            if not (math.isfinite(a) and math.isfinite(b)):
                self.fail(f"{name}|not-finite", f"{g.name}: {name}{tup} = {a!r} in the original frame, {b!r} under {tag}", r2)
                continue
            if len(tup) == 4:
                want = a * det
                diff = abs(math.remainder(b - want, 2 * math.pi))
                if abs(abs(a) - math.pi) < 1e-6 or abs(a) < 1e-9:
                    diff = min(diff, abs(math.remainder(b - a, 2 * math.pi)))
                if diff > 1e-7:
                    key = "dihedral|reflection-sign" if det < 0 else "dihedral|rigid-motion"
                    self.fail(key, f"{g.name}: dihedral{tup} = {a!r}; under {tag} (det {det}) expected {want!r}, got {b!r}", r2)
            else:
                tol = 1e-9 * max(1.0, abs(a)) if len(tup) == 2 else 2e-6
                if abs(a - b) > tol:
                    self.fail(f"{name}|{kind}", f"{g.name}: {name}{tup} = {a!r} -> {b!r} under {tag}", r2)

    # -- a valence-cap cut on two EXACTLY equal bonds: before /repo 3e32450 float rounding decided which one was
    #    dropped and the graph of a symmetric over-coordinated structure depended on the frame; now the atom index
    #    decides.  Probed in extra random exact-rational rotations (a reproduction is a violation).
    def tie_probe(self, g, base, fr, r=None):
        tag, R, t, det = fr
        if r is None:
            r = impl_graph(g.moved(R, t, tag))
        self.ctx.count("impl-oracle:valence-cap-ties", (g.name, tag), nontrivial=True)
        if r[:2] != base["graph"][:2]:
            rep = {"kind": "frame", "structure": g.replay(), "frame": tag,
                   "R": [[str(x) for x in row] for row in R], "t": [str(x) for x in t], "det": det}
            self.fail("make_graph|valence-cap-tie|rotation", f"{g.name}: an over-coordinated atom has two equally long bonds "
                      f"at its valence-cap cut; which one is dropped depends on the frame, the perceived graph changes under "
                      f"{tag}: {base['graph'][1]} -> {r[1] if r[0] == 'ok' else r}", rep)

    # -- permutation oracle
    def permutation(self, g, ex, base, sigma, do_sn):
        ctx = self.ctx
        h = g.permuted(sigma, "perm" + "".join(map(str, sigma)) if g.n <= 10 else "perm")
        rep = {"kind": "permutation", "structure": g.replay(), "sigma": list(sigma)}
        ctx.count("impl-oracle:permutations", (g.name, tuple(sigma), "graph"), nontrivial=g.n >= 2 and list(sigma) != sorted(sigma))
        r = impl_graph(h)
        ru = impl_graph(h, allow=True)
        if not ex.near and not ex.radius_error and base["unpruned"][0] == "ok" and ru[0] == "ok":
            want = sorted((min(sigma[i], sigma[j]), max(sigma[i], sigma[j])) for i, j in base["unpruned"][1])
            if ru[1] != want:
                self.fail("unpruned-graph|permutation", f"{g.name}: edge set before the valence cap is not carried along by "
                          f"the relabelling {list(sigma)}: {ru[1]} vs {want}", rep)
        if ex.graph_decidable() and base["graph"][0] == "ok" and r[0] == "ok":
            want = sorted((min(sigma[i], sigma[j]), max(sigma[i], sigma[j])) for i, j in base["graph"][1])
            if r[1] != want:
                if ex.overcoordinated:
                    ctx.hist("impl-oracle:permutations", "order-dependent-with-overcoordination(exempt)")
                else:
                    self.fail("graph|permutation", f"{g.name} (no over-coordinated atom): perceived graph is not carried "
                              f"along by the relabelling {list(sigma)}: {r[1]} vs {want}", rep)
        lin, pla = self.shape(h)
        ctx.count("impl-oracle:permutations", (g.name, tuple(sigma), "shape"), nontrivial=g.n >= 3)
        # linearity never depends on the atom order (theorem linear_perm_invariant); planarity and the symmetry
        # number are compared for structures without over-coordinated atoms (the property's proviso)
        self.shape_after_relisting(g, h, base, sigma, lin, None if (ex.radius_error or ex.overcoordinated) else pla, rep, "new species")
        if ex.radius_error or ex.overcoordinated:
            return
        if do_sn and base["sn"] is not None and lin == base["shape"][0]:
            ctx.count("impl-oracle:symmetry-number", (g.name, tuple(sigma)), nontrivial=g.n >= 2)
            s = self.sn(h)
            if s != base["sn"]:
                self.fail(sn_perm_key(g), f"{g.name}: symmetry number {base['sn']} -> {s} when the atoms are listed as "
                          f"{list(sigma)}", rep)

    # -- make_graph with a SEQUENCE of tolerances on one species in one process: every graph must obey
    #    the distance criterion for THAT tolerance (the graph is a function of geometry and tolerance)
    def tolerance_sequence(self, g, seq):
        from autode.mol_graphs import make_graph
        ctx, sp = self.ctx, species_of(g)
        if Exact(g).radius_error:
            return
        for k, t in enumerate(seq):
            if t is None:
                make_graph(sp)
                tol = self.rel
            else:
                make_graph(sp, rel_tolerance=t)
                tol = t
            ex = Exact(g, rel_tol=tol)
            edges = norm_edges(sp.graph)
            ctx.count("impl-oracle:tolerance-sequence", (g.name, k, tol), nontrivial=g.n >= 2 and tol != self.rel)
            rep = {"kind": "tolerance-sequence", "structure": g.replay(), "sequence": list(seq), "step": k,
                   "rel_tolerance": tol, "edges": edges}
            if ex.near:
                ctx.hist("impl-oracle:tolerance-sequence", "margin-skipped")
                continue
            self.rules(g, ex, set(edges), rep, pre=f"rel_tolerance-sequence|")
            self.seq_records.append((g, tol, edges, ex))

    # -- Species.reorder_atoms(mapping) on a species that already holds a perceived graph
    def reorder_api(self, g, ex, base, sigma, do_sn):
        from autode.mol_graphs import make_graph
        ctx, n = self.ctx, g.n
        if ex.radius_error:
            return
        sp = species_of(g)
        make_graph(sp)
        old = norm_edges(sp.graph)
        mapping = {i: int(sigma[i]) for i in range(n)}
        sp.reorder_atoms(mapping=mapping)
        rep = {"kind": "reorder", "structure": g.replay(), "sigma": list(sigma)}
        ctx.count("impl-oracle:reorder_atoms", (g.name, tuple(sigma)), nontrivial=list(sigma) != sorted(sigma))
        ctx.hist("impl-oracle:reorder_atoms", "self-inverse" if all(sigma[sigma[i]] == i for i in range(n)) else "not-self-inverse")
        h = g.permuted(sigma, "reordered")
        hf = h.floats()
        for k in range(n):
            if sp.atoms[k].label != h.syms[k] or max(abs(a - b) for a, b in zip(sp.atoms[k].coord, hf[k])) > 1e-12:
                self.fail("reorder_atoms|atoms", f"{g.name}: after reorder_atoms({mapping}) position {k} holds "
                          f"{sp.atoms[k]} instead of atom {sigma.index(k)} of the original", rep)
                return
        got = norm_edges(sp.graph)
        want = sorted((min(sigma[i], sigma[j]), max(sigma[i], sigma[j])) for i, j in old)
        if got != want:
            self.fail("reorder_atoms|graph-relabel", f"{g.name}: after reorder_atoms({mapping}) the graph has edges {got}; the "
                      f"original edges {old} relabelled old -> mapping[old] are {want}", rep)
        labels = [sp.graph.nodes[k].get("atom_label") for k in range(n)]
        if labels != [a.label for a in sp.atoms]:
            self.fail("reorder_atoms|node-labels", f"{g.name}: after reorder_atoms({mapping}) node labels {labels} but atoms "
                      f"{[a.label for a in sp.atoms]}", rep)
        self.reorder_records.append((g, list(sigma), got))
        if not ex.graph_decidable() or ex.radius_error:
            return
        if not ex.overcoordinated:
            fresh = impl_graph(h)
            if fresh[0] == "ok" and fresh[1] != got:
                self.fail("reorder_atoms|graph-vs-fresh", f"{g.name}: after reorder_atoms({mapping}) the graph {got} differs "
                          f"from the graph perceived afresh from the reordered atoms {fresh[1]}", rep)
            bm = sp.bond_matrix
            exh = Exact(h)
            bad = [(i, j) for i in range(n) for j in range(i + 1, n)
                   if bool(bm[i, j]) != ((i, j) in exh.within) or bool(bm[j, i]) != bool(bm[i, j])]
            if bad and not exh.near:
                i, j = bad[0]
                self.fail("reorder_atoms|bond-matrix", f"{g.name}: after reorder_atoms({mapping}) bond_matrix[{i},{j}] = "
                          f"{bool(bm[i, j])} but the atoms are {math.sqrt(float(exh.d2[i][j])):.4f} apart, cut-off "
                          f"{float(exh.thr[(i, j)]):.4f} ({len(bad)} such pairs)", rep)
            lin, pla = bool(sp.is_linear()), bool(sp.is_planar())
            self.shape_after_relisting(g, h, base, sigma, lin, pla, rep, "reorder_atoms")
            if do_sn and base["sn"] is not None and lin == base["shape"][0]:
                ctx.count("impl-oracle:symmetry-number", (g.name, "reorder", tuple(sigma)), nontrivial=True)
                sn = int(sp.sn)
                if sn != base["sn"]:
                    self.fail(sn_perm_key(g), f"{g.name}: symmetry number {base['sn']} -> {sn} after reorder_atoms({mapping})", rep)

    def shape_after_relisting(self, g, h, base, sigma, lin, pla, rep, how):
        if base["lin_ok"] and linear_margin_ok(h, self.ct) and lin != base["shape"][0]:
            self.fail("is_linear|permutation", f"{g.name}: is_linear {base['shape'][0]} -> {lin} when the atoms are listed as "
                      f"{list(sigma)} ({how}; largest angular deviation from a line {line_deviation_deg(g):.3f} deg)", rep)
        if pla is not None and base["pla_ok"] and planar_margin_ok(h, self.ptol) and pla != base["shape"][1]:
            dev = plane_deviation(g)
            # tolerance band of the un-normalised test |n| * distance > 1e-4 with |n| in about [1e-2, 1e2]
            key = "is_planar|permutation|near-threshold" if 1e-6 <= dev <= 0.05 else "is_planar|permutation"
            self.fail(key, f"{g.name}: is_planar {base['shape'][1]} -> {pla} when the atoms are listed as {list(sigma)} "
                      f"({how}; largest distance from the best plane {dev:.4f} A)", rep)

    # -- rigid motions applied through the PUBLIC API (Species.translate / rotate, Atom.rotate) with arguments that
    #    alias the structure's own data, and observables of ONE species object after its atoms were moved
    def api_motions(self, g, ex, base, do_sn):
        from scipy.spatial import distance_matrix
        from autode.atoms import Atom
        from autode.species.species import Species
        ctx, n = self.ctx, g.n
        if n < 2 or ex.radius_error:
            return
        sp = species_of(g)
        rep = {"kind": "api-motions", "structure": g.replay()}
        idx = index_tuples(random_for(g), g, 2)

        def D():
            X = np.array(sp.coordinates, dtype=float)
            return distance_matrix(X, X)

        def vals():
            out = []
            for t in idx:
                try:
                    out.append(float({2: sp.distance, 3: sp.angle, 4: sp.dihedral}[len(t)](*t)))
                except ValueError:
                    out.append(None)
            return out

        def fresh():
            return Species("fresh", [Atom(a.label, *[float(x) for x in a.coord]) for a in sp.atoms], charge_of(g), 1)

        def observe(s_, with_sn=True):
            return (bool(s_.is_linear()), bool(s_.is_planar()), int(s_.sn) if (do_sn and with_sn) else None)
        D0, v0 = D(), vals()
        o0 = observe(sp)                       # queried BEFORE any motion (a cached value would come from here)

        def rigid_ok(step, with_sn=False):
            ctx.count("impl-oracle:api-motions", (g.name, step), nontrivial=True)
            d = float(np.max(np.abs(D() - D0)))
            if not d <= 1e-9:
                self.fail(f"{step}|distances", f"{g.name}: {step} changed the interatomic distances by up to {d:.4f} A", dict(rep, step=step))
                return False
            for t, a, b in zip(idx, v0, vals()):
                if (a is None) != (b is None) or (a is not None and not (abs(a - b) <= (1e-9 if len(t) == 2 else 2e-6)
                                                                         or (len(t) == 4 and abs(abs(a) - math.pi) < 1e-6))):
                    self.fail(f"{step}|{ {2: 'distance', 3: 'angle', 4: 'dihedral'}[len(t)] }", f"{g.name}: {step}: value for atoms {t} "
                              f"changed {a!r} -> {b!r}", dict(rep, step=step))
                    return False
            o = observe(sp, with_sn)
            names = ("is_linear", "is_planar", "sn")
            oks = (base["lin_ok"], base["pla_ok"], with_sn)
            for nm, a, b, ok in zip(names, o0, o, oks):
                if ok and a != b:
                    self.fail(f"{step}|{nm}", f"{g.name}: {nm} {a} -> {b} after {step}", dict(rep, step=step))
                    return False
            if ex.graph_decidable() and base["graph"][0] == "ok":
                f = fresh()
                from autode.mol_graphs import make_graph
                make_graph(f)
                if norm_edges(f.graph) != base["graph"][1]:
                    self.fail(f"{step}|graph", f"{g.name}: graph perceived after {step} {norm_edges(f.graph)} != {base['graph'][1]}", dict(rep, step=step))
                    return False
            return True
        sp.translate(vec=-sp.atoms[0].coord)
        if not rigid_ok("Species.translate(-atoms[0].coord)"):
            return
        k = int(np.argmax(D()[0]))
        if D()[0][k] < 1e-6:
            return
        before = np.array(sp.atoms[k].coord, dtype=float)
        sp.rotate(axis=sp.atoms[k].coord, theta=0.7 + 0.1 * (n % 7))
        moved = float(np.linalg.norm(np.array(sp.atoms[k].coord, dtype=float) - before))
        if moved > 1e-9:
            self.fail("Species.rotate(axis=atoms[k].coord)|axis-atom-moved", f"{g.name}: the atom on the rotation axis moved by {moved:.4f} A",
                      dict(rep, step="rotate"))
            return
        if not rigid_ok("Species.rotate(axis=atoms[k].coord)", True):
            return
        axis = sp.atoms[k].coord
        for atom in sp.atoms:
            atom.rotate(axis=axis, theta=-0.45)
        if not rigid_ok("Atom.rotate(axis=atoms[k].coord) for every atom"):
            return
        # state: move one atom through the Atom-level API; every observable must describe the CURRENT geometry
        j = n - 1 if k != n - 1 else 0
        for step, move in (("atoms[j].translate", lambda: sp.atoms[j].translate(vec=np.array([0.37, 0.21, -0.45]))),
                           ("atoms[j].coord = ...", lambda: setattr(sp.atoms[j], "coord", np.array(sp.atoms[j].coord) + np.array([-0.2, 0.55, 0.3]))),
                           ("Species.rotate after a distortion", lambda: sp.rotate(axis=[1.0, 2.0, -1.0], theta=1.1))):
            move()
            ctx.count("impl-oracle:api-motions", (g.name, "state", step), nontrivial=True)
            first = step == "atoms[j].translate"
            o, of = observe(sp, first), observe(fresh(), first)
            for nm, a, b in zip(("is_linear", "is_planar", "sn"), o, of):
                if a != b:
                    self.fail(f"state|{nm}-stale", f"{g.name}: after {step} the species reports {nm} = {a}, a new species with the "
                              f"identical atoms reports {b}", dict(rep, step=step))
                    return


def random_for(g):
    import random
    return random.Random(sum(map(ord, g.name)) + g.n)


def sn_perm_key(g):
    """The known atom-order dependence of the symmetry number comes from the greedy clustering of candidate
    axes (pair vectors, bisectors and normals of triples with both legs < 2 A) within 0.1: it needs two
    DIFFERENT candidate directions closer than that.  Structures without such a pair get the plain key."""
    X = np.array(g.floats())
    X = X - X.mean(axis=0)
    cand = []
    for i in range(g.n):
        for j in range(g.n):
            if i > j:
                cand.append(X[j] - X[i])
            for k in range(g.n):
                if len({i, j, k}) == 3:
                    v1, v2 = X[j] - X[i], X[k] - X[i]
                    if np.linalg.norm(v1) < 2.0 and np.linalg.norm(v2) < 2.0:
                        cand += [(v1 + v2) / 2.0, np.cross(v1, v2)]
    U = np.array([v / np.linalg.norm(v) for v in cand if np.linalg.norm(v) > 1e-8])
    if len(U) == 0:
        return "sn|permutation"
    C = np.abs(U @ U.T)
    close = (C > 1.0 - 0.5 * 0.13 ** 2) & (C < 1.0 - 1e-9)
    return "sn|permutation|clustered-candidate-axes" if bool(close.any()) else "sn|permutation"


def reorder_sigmas(rng, n, full):
    """all permutations for n <= 4; else a 3-cycle, the cyclic shifts +1 / -1 and random ones"""
    import itertools
    if n <= 4:
        return [list(p) for p in itertools.permutations(range(n))]
    out = [[(i + 1) % n for i in range(n)], [(i - 1) % n for i in range(n)]]
    a, b, c = rng.sample(range(n), 3)
    cyc = list(range(n))
    cyc[a], cyc[b], cyc[c] = b, c, a
    out.append(cyc)
    for _ in range(4 if full else 1):
        p = list(range(n))
        rng.shuffle(p)
        out.append(p)
    return out


TOL_SEQUENCE = [None, 0.1, None, 0.5, 0.05, 0.3]
STRETCH = [F(70, 64), F(76, 64), F(80, 64), F(88, 64), F(94, 64)]


def stretched(rng, g):
    sc = rng.choice(STRETCH)
    return Geo(f"{g.name}|stretch{sc}", g.kind, g.syms, [[g64(float(v * sc)) for v in p] for p in g.xyz])


def index_tuples(rng, g, k, extras=True):
    out = []
    if g.n >= 2:
        out += [tuple(rng.sample(range(g.n), 2)) for _ in range(k)]
    if g.n >= 3:
        out += [tuple(rng.sample(range(g.n), 3)) for _ in range(k)]
    if g.n >= 4:
        out += [tuple(rng.sample(range(g.n), 4)) for _ in range(k)]
    if extras and 3 <= g.n <= 4:
        out += [(i, j, m) for j in range(g.n) for i in range(g.n) for m in range(i + 1, g.n) if j not in (i, m)]
    return list(dict.fromkeys(out))


# ----------------------------------------------------------------------------------- Coq terms
def coq_ps(g):
    return coq_list([f"P3 {qc(p[0])} {qc(p[1])} {qc(p[2])}" for p in g.xyz])


def coq_gres(r):
    if r[0] == "ok":
        return "(GraphOk " + coq_list([f"({i}, {j})%nat" for i, j in r[1]]) + ")"
    return {"noatoms": "NoAtoms", "indexerror": "RadiusIndexError"}[r[0]]


def coq_opt(x):
    return "None" if x is None else f"(Some {x})"


def runtime_consts():
    import inspect
    from autode.mol_graphs import make_graph
    from autode.species.species import Species
    from autode.values import Angle
    rel = inspect.signature(make_graph).parameters["rel_tolerance"].default
    pl = float(inspect.signature(Species.is_planar).parameters["tol"].default.to("ang"))
    ang = inspect.signature(Species.is_linear).parameters["angle_tol"].default
    lin = 1.0 - float(np.abs(1.0 - np.cos(ang.to("rad"))))
    return {"rel": float(rel), "pl": pl, "lin": lin}


def table_terms(ctx, terms, descr):
    """translator validation: generated tables vs the runtime package objects"""
    import autode.atoms as A
    consts = runtime_consts()

    def add(t, d, key):
        terms.append(t)
        descr.append(d)
        ctx.count("model-vs-impl:tables", key, True, sample=d)
    add(f"check_consts {qc(consts['rel'])} {qc(consts['pl'])} {qc(consts['lin'])}", {"kind": "constants", **consts}, ("consts",))
    add(f"Nat.eqb n_elements {len(A.elements)} && Nat.eqb n_radii {len(A._covalent_radii_pm)}", {"kind": "table-sizes"}, ("sizes",))
    nrad = len(A._covalent_radii_pm)
    for e, sym in enumerate(A.elements):
        at = A.Atom(sym)
        cov = float(at.covalent_radius) if e < nrad else 0.0
        if all(32 <= ord(c) < 127 for c in sym):
            add(f"check_elem {e} {coq_string(sym)} {int(at.maximal_valance)} {qc(cov)} {coq_bool(at.is_metal)}",
                {"kind": "element", "symbol": sym}, ("elem", sym))
    pool = ["H", "He", "Li", "B", "C", "N", "O", "F", "Al", "Si", "P", "S", "Cl", "Fe", "Br", "Rh", "I", "Xe", "Pt", "Rn"]
    if ctx.quick:
        pool = ["H", "Li", "C", "O", "F", "Al", "Cl", "Fe", "I", "Rn"]
    for a in pool:
        for b in pool:
            ats = A.Atoms([A.Atom(a), A.Atom(b)])
            add(f"check_r0 {A.elements.index(a)} {A.elements.index(b)} {qc(float(ats.eqm_bond_distance(0, 1)))}",
                {"kind": "r0", "pair": [a, b]}, ("r0", a, b))
    return consts


def model_terms(ctx, structs, frs, consts, terms, descr, rng, nmax):
    """model vs implementation on every structure (original frame) and in exactly moved frames"""
    import autode.atoms as A
    rel, ct, ptol = qc(consts["rel"]), qc(consts["lin"]), qc(consts["pl"])
    skipped = {"graph": 0, "linear": 0, "planar": 0}

    def add(stream, t, d, key, nontrivial=True):
        terms.append(t)
        descr.append(dict(d, stream=stream))
        ctx.count("model-vs-impl:" + stream, key, nontrivial, sample=d)

    for g in structs:
        if g.n > nmax:
            continue
        variants = [(g, "id", True)]
        nstruct = getattr(model_terms, "_k", 0) + 1
        model_terms._k = nstruct
        if g.n >= 2 and frs and (not ctx.quick or g.kind not in ("rdkit", "jitter", "cluster") or nstruct % 3 == 0):
            tag, R, t, det = frs[rng.randrange(len(frs))]
            variants.append((g.moved(R, t, tag), tag, False))
            mir = [f for f in frs if f[3] < 0]
            if mir and det > 0 and not ctx.quick:
                tag, R, t, det = mir[rng.randrange(len(mir))]
                variants.append((g.moved(R, t, tag), tag, False))
        for h, tag, dyadic in variants:
            ex = Exact(h)
            el = coq_list([f"{A.elements.index(s)}%nat" for s in h.syms])
            ps = coq_ps(h)
            d = {"structure": h.replay(), "frame": tag}
            ctx.hist("model-vs-impl:graph", f"{g.kind}:n={min(g.n, 12) if g.n < 12 else '12+'}")
            # graph (a tie at a valence-cap cut is decided by argsort's unspecified order on ties)
            if ex.graph_decidable():
                r, ru = impl_graph(h), impl_graph(h, allow=True)
                add("graph", f"check_graph {rel} {el} {ps} {coq_gres(r)}", dict(d, kind="graph", impl=r[1] if r[0] == "ok" else r[0]),
                    (h.name, "graph"), nontrivial=h.n >= 2)
                if not ctx.quick or ex.overcoordinated or ru != r[:2] + ru[2:] or nstruct % 4 == 0:
                    add("graph", f"check_unpruned {rel} {el} {ps} {coq_gres(ru)}", dict(d, kind="unpruned", impl=ru[1] if ru[0] == "ok" else ru[0]),
                        (h.name, "unpruned"), nontrivial=h.n >= 2)
                if dyadic and r[0] == "ok" and not ex.radius_error and not ex.row_tie:
                    adj = coq_list([coq_list([f"{k}%nat" for k in row]) for row in r[2]])
                    add("adjacency-order", f"check_adjacency {rel} {el} {ps} {adj}", dict(d, kind="adjacency", impl=r[2]),
                        (h.name, "adjacency"), nontrivial=h.n >= 3)
            else:
                skipped["graph"] += 1
            if h.n == 0:
                continue          # is_linear / is_planar / distance require atoms
            sp = species_of(h)
            if ex.linear_margin_ok(consts["lin"]):
                b = bool(sp.is_linear())
                add("shape", f"check_linear {ct} {ps} {coq_bool(b)}", dict(d, kind="is_linear", impl=b), (h.name, "linear"), nontrivial=h.n >= 3)
            else:
                skipped["linear"] += 1
            if ex.planar_margin_ok(consts["pl"]):
                b = bool(sp.is_planar())
                add("shape", f"check_planar {ptol} {ps} {coq_bool(b)}", dict(d, kind="is_planar", impl=b), (h.name, "planar"), nontrivial=h.n >= 4)
            else:
                skipped["planar"] += 1
            if dyadic and h.n >= 3 and (not ctx.quick or g.kind not in ("rdkit", "jitter", "cluster")):
                # non-default tolerances of the public predicates
                from autode.values import Angle
                for deg in (5.0, 0.2):
                    ct2 = 1.0 - float(np.abs(1.0 - np.cos(Angle(deg, "deg").to("rad"))))
                    if linear_margin_ok(h, ct2):
                        b = bool(sp.is_linear(angle_tol=Angle(deg, "deg")))
                        add("shape", f"check_linear {qc(ct2)} {ps} {coq_bool(b)}", dict(d, kind=f"is_linear(angle_tol={deg} deg)", impl=b),
                            (h.name, "linear", deg))
                ct3 = 1.0 - float(np.abs(1.0 - np.cos(float(np.arccos(1.0 - 0.01)))))
                if linear_margin_ok(h, ct3):
                    b = bool(sp.is_linear(tol=0.01))
                    add("shape", f"check_linear {qc(ct3)} {ps} {coq_bool(b)}", dict(d, kind="is_linear(tol=0.01)", impl=b), (h.name, "linear", "tol"))
                if h.n >= 4 and planar_margin_ok(h, 0.05):
                    b = bool(sp.is_planar(tol=0.05))
                    add("shape", f"check_planar {qc(0.05)} {ps} {coq_bool(b)}", dict(d, kind="is_planar(tol=0.05)", impl=b), (h.name, "planar", 0.05))
            for tup in index_tuples(rng, h, 1, extras=dyadic and g.kind in ("linear", "planar")) + ([(0, 0), (0, h.n)] if h.n >= 1 and dyadic else []) + \
                    ([(0, 1, 1), (0, 1, 2, 2)] if h.n >= 3 and dyadic else []):
                name = {2: "distance", 3: "angle", 4: "dihedral"}[len(tup)]
                try:
                    v = float({2: sp.distance, 3: sp.angle, 4: sp.dihedral}[len(tup)](*tup))
                except ValueError:
                    v = None
                if v is not None and not math.isfinite(v):
                    add("geometry", "false", dict(d, kind=name + "-not-finite", indexes=list(tup), impl=repr(v)), (h.name, name, tup))
                    continue
                args = " ".join(f"{k}%nat" for k in tup)
                if len(tup) == 2:
                    t = f"check_distance {ps} {args} {coq_opt(None if v is None else qc(v))}"
                elif len(tup) == 3:
                    t = f"check_angle {ps} {args} {coq_opt(None if v is None else qc(math.cos(v)))}"
                else:
                    t = f"check_dihedral {ps} {args} {coq_opt(None if v is None else f'({qc(math.sin(-v))}, {qc(math.cos(-v))})')}"
                add("geometry", t, dict(d, kind=name, indexes=list(tup), impl=v), (h.name, name, tup))
    for k, v in skipped.items():
        ctx.cov["streams"].setdefault("model-vs-impl:" + ("graph" if k == "graph" else "shape"), {"evaluations": 0, "distinct_nontrivial": 0})[f"margin_skipped_{k}"] = v


def record_terms(ctx, orc, terms, descr, nmax, limit):
    """the graphs the implementation returned in the tolerance-sequence and reorder_atoms streams,
    against the model with THAT tolerance / the relabelled model graph"""
    import autode.atoms as A

    def el_of(g):
        return coq_list([f"{A.elements.index(s)}%nat" for s in g.syms])
    seq = [r for r in orc.seq_records if r[0].n <= nmax and r[3].graph_decidable() and not r[3].radius_error]
    seq = [r for r in seq if abs(r[1] - orc.rel) > 1e-12] + [r for r in seq if abs(r[1] - orc.rel) <= 1e-12]
    for g, tol, edges, _ in seq[:limit]:
        terms.append(f"check_graph {qc(tol)} {el_of(g)} {coq_ps(g)} {coq_gres(('ok', edges))}")
        d = {"kind": "graph@rel_tolerance", "structure": g.replay(), "rel_tolerance": tol, "impl": edges, "stream": "tolerance-sequence"}
        descr.append(d)
        ctx.count("model-vs-impl:tolerance-sequence", (g.name, tol), g.n >= 2, sample=d)
    k = 0
    cache = {}
    for g, sigma, edges in orc.reorder_records:
        if g.n > nmax or k >= limit:
            continue
        if g.name not in cache:
            ex = Exact(g)
            cache[g.name] = ex.graph_decidable() and not ex.radius_error
        if not cache[g.name]:
            continue
        k += 1
        terms.append(f"check_reorder {qc(orc.rel)} {el_of(g)} {coq_ps(g)} {coq_list([f'{x}%nat' for x in sigma])} "
                     + coq_list([f"({i}, {j})%nat" for i, j in edges]))
        d = {"kind": "reorder_atoms", "structure": g.replay(), "sigma": sigma, "impl": edges, "stream": "reorder_atoms"}
        descr.append(d)
        ctx.count("model-vs-impl:reorder_atoms", (g.name, tuple(sigma)), sigma != sorted(sigma), sample=d)


# ----------------------------------------------------------------------------------- run
def build_structures(ctx):
    full = not ctx.quick
    T = hand_templates()
    Rk = rdkit_structures(ctx.rng, len(SMILES) if full else 16)
    J = jittered(ctx.rng, T + Rk, 120 if full else 10) + crowded_clusters(ctx.rng, 80 if full else 12)
    return T, Rk, J


def run_oracles(ctx, structs, consts):
    full = not ctx.quick
    orc = Oracles(ctx, consts)
    rng = ctx.rng
    for g in structs:
        if g.n == 0:
            continue
        ctx.hist("impl-oracle:frames", f"{g.kind}:n={g.n if g.n < 12 else '12+'}")
        ex = Exact(g)
        r = orc.single(g, ex)
        base = {"graph": r, "unpruned": impl_graph(g, allow=True), "shape": orc.shape(g),
                "lin_ok": ex.linear_margin_ok(consts["lin"]), "pla_ok": ex.planar_margin_ok(consts["pl"]), "sn": None}
        do_sn = g.kind not in ("jitter", "cluster") and 2 <= g.n <= (12 if (full or g.kind != "rdkit") else 7)
        if do_sn:
            base["sn"] = orc.sn(g)
        idx = index_tuples(rng, g, 2 if full else 1)
        base_vals = orc.geom_values(g, idx)
        frs = frames(rng, 3 if full else 1, 3 if full else 1, 3 if full else 1)
        for k, fr in enumerate(frs):
            orc.frame(g, ex, base, fr, do_sn and (full or k == 1 + len(g.name) % 3), idx, base_vals)
        if ex.tie_at_cut() and r[0] == "ok":
            for fr in frames(rng, 0, 2, 12 if full else 8)[1:]:
                orc.tie_probe(g, base, fr)
        if g.kind not in ("jitter",) and (full or g.n <= 8 or g.kind != "rdkit"):
            orc.api_motions(g, ex, base, do_sn and g.n <= (8 if full else 5))
        if g.n >= 2:
            for _ in range(3 if full else (2 if g.kind not in ("rdkit", "jitter") else 1)):
                sigma = list(range(g.n))
                rng.shuffle(sigma)
                orc.permutation(g, ex, base, sigma, do_sn and g.kind != "rdkit")
            if g.n >= 3:
                # bring the last atoms to the front (changes which atoms define the line / plane)
                orc.permutation(g, ex, base, [(i + 2) % g.n for i in range(g.n)], False)
            if g.kind != "jitter" or full:
                for k, sigma in enumerate(reorder_sigmas(rng, g.n, full)):
                    orc.reorder_api(g, ex, base, sigma, do_sn and g.kind != "rdkit" and g.n <= 6 and (full or k in (1, 4)))
                if full or (g.n <= 6 and g.kind not in ("rdkit", "cluster")):
                    orc.tolerance_sequence(g, TOL_SEQUENCE)
                for _ in range(2 if full else 1):
                    orc.tolerance_sequence(stretched(rng, g), TOL_SEQUENCE)
    return orc


def no_fork_timeouts():
    """autode.utils.timeout forks one process per call of mol_graphs.is_isomorphic (used by
    _set_graph_attributes for the stereo flags, which C03 does not observe); its wrapper calls the
    function directly when the current process is a daemon.  Marking the harness process as such
    avoids ~10 forks per make_graph without touching any autodE code path that C03 observes."""
    import multiprocessing
    multiprocessing.current_process()._config["daemon"] = True


def run(ctx):
    sys.path.insert(0, REPO)
    no_fork_timeouts()
    full = not ctx.quick
    pins_changed = source_pins(ctx.pid, PINS)
    ctx.cov["source_pins"] = {"pinned": len(PINS), "changed": pins_changed}
    if pins_changed:
        ctx.log("source pins changed:", ", ".join(pins_changed))
    # 1. regenerate the tables / tests from the source
    rc, out = sh(["python3", f"{VERIF}/tr/translate_c03.py"], timeout=120)
    ctx.log("translator:", out.strip()[:400])
    translated = rc == 0
    ctx.cov["translator"] = {"ok": translated, "output": out.strip()[:1500]}
    # 2. proofs over the regenerated definitions
    info = {"hygiene": [], "log_tail": out, "build_ok": False}
    proofs_ok = False
    def gen_sha():
        import hashlib
        try:
            return hashlib.sha256(open(f"{VERIF}/coq/gen/C03_Gen.v", "rb").read()).hexdigest()
        except OSError:
            return None
    if translated:
        h1 = gen_sha()
        proofs_ok, info = ctx.proofs(SLICE, "C03/Props.v", "AV.C03.Props", extra_targets=["C03/Corr.vo"])
        if gen_sha() != h1:
            # a concurrent run for another VERIF_REPO rewrote the shared generated file: regenerate and rebuild once
            ctx.log("gen/C03_Gen.v changed during the build (concurrent run): regenerating")
            ctx.cov["obligations"], ctx.cov["discharged"], ctx.cov["theorems"] = 0, 0, []
            rc, out = sh(["python3", f"{VERIF}/tr/translate_c03.py"], timeout=120)
            proofs_ok, info = ctx.proofs(SLICE, "C03/Props.v", "AV.C03.Props", extra_targets=["C03/Corr.vo"])
        ctx.log("proofs:", "ok" if proofs_ok else "BROKEN")
        ctx.cov["print_assumptions"] = info.get("assumptions", {})
    else:
        ctx.cov["obligations"] += len(ctx.theorems_in("C03/Props.v"))
        ctx.cov["checker_cmd"] = "translator failed closed; proofs not attempted"
    ctx.cov["partial"] = ("rotational symmetry number (thermochemistry/symmetry.py) is not modelled: only compared "
                          "between frames / atom orders on the implementation (stream impl-oracle:symmetry-number)")
    # 3. implementation-side oracles (always: they give the concrete replays)
    T, Rk, J = build_structures(ctx)
    consts = runtime_consts()
    orc = run_oracles(ctx, T + Rk + J, consts)
    ctx.log(f"implementation oracles: {orc.nfail} failures on {len(T) + len(Rk) + len(J)} structures; keys {sorted(orc.keys)}")
    # 4. correspondence
    corr_bad, corr_err = [], None
    if proofs_ok:
        terms, descr = [], []
        table_terms(ctx, terms, descr)
        frs = frames(ctx.rng, 2, 2)[1:]
        model_terms(ctx, T + Rk + J, frs, consts, terms, descr, ctx.rng, 18 if full else 10)
        record_terms(ctx, orc, terms, descr, 18 if full else 10, 400 if full else 70)
        bad, corr_err = ctx.coq_bad_indices(PRE, terms, per_file=120, name="c03cases")
        corr_bad = [(descr[i], terms[i]) for i in bad]
        ctx.log(f"correspondence: {len(terms)} cases, {len(corr_bad)} disagreements" + (f"; coq error {corr_err[:300]}" if corr_err else ""))
        ctx.cov["disagreements"] = len(corr_bad)
    # 5. decide
    unknown = [k for k in orc.keys if k not in ctx.known_keys()]
    if not proofs_ok:
        ctx.proof_failure(info, found_any_input=bool(unknown))
    if corr_bad or corr_err:
        if not unknown:
            ctx.violation("model and implementation disagree (correspondence) and no property-level oracle failed on the "
                          "implementation", {"kind": "correspondence", "first": [d for d, _ in corr_bad[:5]],
                                             "coq_terms": [t for _, t in corr_bad[:2]], "coq_error": corr_err}, found_input=False)
        else:
            ctx.log("correspondence disagreements explained by the implementation-level findings above: " +
                    "; ".join(f"{d.get('kind')}@{d['structure']['name']}" for d, _ in corr_bad[:6] if 'structure' in d))
    if pins_changed and not unknown and not (corr_bad or corr_err) and proofs_ok:
        ctx.violation("hand model no longer pinned to the source: " + ", ".join(pins_changed),
                      {"kind": "source-pin", "changed": pins_changed}, found_input=False)


def replay(ctx, obj):
    """Re-run the stored input on the implementation (all oracles that apply to it)."""
    sys.path.insert(0, REPO)
    no_fork_timeouts()
    rep = obj.get("replay", {})
    if "structure" not in rep:
        print("replay: nothing to re-run on the implementation:", obj.get("what"))
        return 1
    g = geo_from_replay(rep["structure"])
    consts = runtime_consts()
    orc = Oracles(ctx, consts)
    ex = Exact(g)
    r = orc.single(g, ex)
    base = {"graph": r, "unpruned": impl_graph(g, allow=True), "shape": orc.shape(g),
            "lin_ok": ex.linear_margin_ok(consts["lin"]), "pla_ok": ex.planar_margin_ok(consts["pl"]), "sn": orc.sn(g) if g.n <= 14 else None}
    print("replay:", g.name, "graph", r[1] if r[0] == "ok" else r, "is_linear/is_planar", base["shape"], "sn", base["sn"])
    if rep.get("kind") == "frame":
        fr = (rep["frame"], [[F(x) for x in row] for row in rep["R"]], [F(x) for x in rep["t"]], int(rep["det"]))
        idx = [tuple(rep["indexes"])] if "indexes" in rep else index_tuples(ctx.rng, g, 3)
        orc.frame(g, ex, base, fr, base["sn"] is not None, idx, orc.geom_values(g, idx))
    elif rep.get("kind") == "permutation":
        orc.permutation(g, ex, base, rep["sigma"], base["sn"] is not None)
    elif rep.get("kind") == "reorder":
        orc.reorder_api(g, ex, base, rep["sigma"], base["sn"] is not None)
    elif rep.get("kind") == "tolerance-sequence":
        orc.tolerance_sequence(g, rep["sequence"])
    elif rep.get("kind") == "api-motions":
        orc.api_motions(g, ex, base, base["sn"] is not None)
    # the same structure on the model (Coq), compared with what the implementation returns now
    terms, descr = [], []
    model_terms(ctx, [g], [], consts, terms, descr, ctx.rng, 10**6)
    bad, err = ctx.coq_bad_indices(PRE, terms, per_file=200, name="c03replay")
    print(f"replay: model vs implementation on {g.name}: {len(terms)} checks, disagreements:",
          [descr[i].get("kind") for i in bad], ("coq error: " + err[-400:]) if err else "")
    print("replay: failures =", orc.nfail, sorted(orc.keys), "; stored:", obj.get("what"))
    return 1 if (orc.nfail or bad or err) else 0


MANIFEST = {
    "technique": "Coq proof over a hand model whose tables and threshold tests are regenerated from source (ast translator) "
                 "+ model/implementation correspondence in exactly rotated / reflected frames + implementation-side frame, "
                 "reflection (incl. random exact-rational rotations), permutation, reorder_atoms, tolerance-sequence, "
                 "valence-cap-tie and api-motions / object-state oracles",
    "level_text": ("Machine-checked theorems (coq/C03/Props.v, closed under the global context) for EVERY atom count, every "
                   "orthogonal matrix R (R^T R = I, hence det R = +-1) and translation: squared distances, the cosine of "
                   "every angle and both dihedral numerators are invariant under proper rigid motion, the dihedral sine "
                   "numerator changes sign under reflection; triple(Ra,Rb,Rc) = det R triple(a,b,c); the perceived graph "
                   "(before and after the valence cap) is a function of the element list and the distance matrix only, "
                   "hence invariant under every rotation, translation and reflection; after the cap no atom exceeds its "
                   "maximal valence (for every graph); a pair is bonded iff within the tolerance-scaled equilibrium length, "
                   "except bonds removed by the cap, which are the longest at the over-coordinated atom that was being "
                   "treated; is_linear and is_planar models are invariant under rotation, translation and reflection (the "
                   "planarity proof goes through the generated |.| test: the one-sided pre-805490b test is refuted by a "
                   "witness); the unpruned edge set is equivariant under every relabelling and, without over-coordinated "
                   "atoms, so is the whole graph (with over-coordination the order dependence is exhibited by a witness); "
                   "linearity (angles at every atom) is invariant under EVERY permutation of the atom list."),
    "level_note": ("PARTIAL: the rotational symmetry number search (thermochemistry/symmetry.py) is not modelled; it is only "
                   "compared between frames, mirror images and (exactly symmetric templates) atom orders on the "
                   "implementation.  Trusted: Coq kernel + vm_compute (table sweep, witnesses); tr/translate_c03.py "
                   "(element tables, bond test, planarity normal/test, default tolerances; validated each run against the "
                   "runtime objects); the hand model of the make_graph double loop, the valence-cap loop, are_linear in "
                   "squared-cosine form and the normal search of are_planar (tied by correspondence on k/64-grid "
                   "structures in exact rational frames); sqrt/acos/atan2 and IEEE rounding are outside the theorems "
                   "(decisions within 1e-9 of a threshold are skipped and counted).  graph_function_of_distance_matrix is "
                   "true by construction of the model (its content is model fidelity, checked by correspondence).  The cap "
                   "orders equally long bonds by atom index (cap_ties_removed_by_index; /repo 3e32450 repaired the "
                   "rounding-driven frame dependence of symmetric over-coordinated structures, still probed under "
                   "make_graph|valence-cap-tie|rotation).  Frame theorems quantify over rational orthogonal matrices.  "
                   "Planarity has no permutation theorem (known: is_planar|permutation|near-threshold); linearity has "
                   "(linear_perm_invariant, after /repo 5a4ab9d).  Public rigid motions (Species.translate/rotate, "
                   "Atom.rotate) and object state (stale observables) are exercised by the api-motions stream only."),
}
