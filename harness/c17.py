"""C17 — files written for external programs describe the species faithfully (DESIGN 6/C17).

Tie: gen/C17_Gen.v (the line templates with their f-string format specs, separators and index
offsets) is regenerated from the wrappers' print statements by tr/translate_c17.py on every run
and the theorems of coq/C17/Props.v are re-checked against it.  Then generated species x every
wrapper x calculation type x constraint / point-charge / core / memory settings are pushed through
calc.generate_input(); every file is re-read (a) by the independent Python readers below and (b) by
the Coq readers (exact text lines as string literals), and the Coq writer model is compared with
the lines character by character.  Keyword / solvent / core / memory blocks and non-mutation of the
species are implementation-side oracles (correspondence only).
"""
import contextlib
import math
import os
import re
import sys
import tempfile
import traceback
from fractions import Fraction

from common import REPO, VERIF, coq_string, frac, sh, source_pins

TRUSTED_BASE = [
    "Coq 8.16.1 kernel + coqc (vm_compute only for finite sweeps over the generated template table; no native_compute)",
    "Print Assumptions: every C17 theorem is closed under the global context (Z, Q, lists, strings: no axioms)",
    "translator tr/translate_c17.py (Python ast -> gen/C17_Gen.v, fail-closed); validated each run: the Coq writer model built "
    "from the generated templates must reproduce every coordinate / charge / constraint / point-charge line character by character",
    "hand-written documented layouts and index bases of coq/C17/Model.v (from the programs' manuals) and the Python re-implementations "
    "of the same readers in harness/c17.py",
    "Python float.__format__ / str(float) / str(int) (modelled: correctly rounded, half-even; exercised by the writer-model comparison)",
    "exact rationals stand for the doubles held by the species (float.as_integer_ratio); IEEE -0.0, nan, inf are outside the model",
]
ASSUMPTIONS = [
    "Theorems are about exact rational coordinates; the 1e-5 bound is 1/2*10^-d of the printed decimals, rounding of the double itself is not added",
    "Element symbols contain no blanks and are at most max_label_len characters (generated from autode.atoms.elements; Atom() asserts membership)",
    "Keyword, solvent, cores, memory, xyz title, xTB `atoms:` ranges, MOPAC spin keywords and non-mutation are checked on generated inputs only (no theorem)",
    "Command-line settings (xTB --chrg/--uhf/--gbsa, Q-Chem -nt, mpirun -np, OMP_NUM_THREADS) are observed by replacing run_external with a recorder",
]
RULE = ("species 1..60 atoms (quick <= 15) with coordinates +-{1e-6..1e3} incl. near-zero negatives and exact rounding ties, charge -3..3, "
        "mult 1..5 (valid parity), solvent in {none + 7}, x {orca,g09,g16,nwchem,qchem,xtb,mopac} x {sp,grad,opt,optts,hess} default and "
        "custom keyword sets x distance/Cartesian constraints x point charges x active bonds x cores {1..16} x memory; plus xyz / trajectory "
        "writers; regeneration sequences (calculation register enabled, same directory: generate, change geometry / cores / memory / "
        "constraints, generate again, re-read); the SAME species object updated through its API (constraints.update, coordinates, "
        "charge) between two inputs; inputs the Gaussian wrapper regenerates itself after `Bend failed for angle`; distance constraints "
        "handed over as Distance in nm/pm/bohr; memory as Allocation in GB; NWChem mp2/ccsd/scf keyword sets (no dft block); TS optimisations of solvated species with every job of a multi-job input checked; a case is non-trivial when an input file was produced and re-read; distinct by the full case specification")

# Every function the hand-written parts were written from: the documented layouts / readers of Model.v and the
# Python readers, expectation tables and oracles below mirror the block structure of these writers (which section
# follows which, when a block is printed, how keywords are rewritten, where cores / memory / solvent go).  The
# translator regenerates only the format templates of the print statements inside them, not this structure.
PINS = (
    [("autode/wrappers/ORCA.py", q) for q in (
        "print_added_internals", "print_distance_constraints", "print_cartesian_constraints",
        "print_num_optimisation_steps", "print_point_charges", "print_default_params", "print_coordinates",
        "ORCA.generate_input_for", "ORCA.get_keywords", "ORCA.use_vdw_gaussian_solvent", "ORCA.add_solvent_keyword",
        "ORCA.print_solvent", "ORCA.input_filename_for")]
    + [("autode/wrappers/G09.py", q) for q in (
        "_add_opt_option", "_modify_keywords_for_point_charges", "_n_ecp_elements", "_get_keywords",
        "_print_point_charges", "_print_added_internals", "_print_constraints", "_print_custom_basis",
        "G09.generate_input_for", "G09.input_filename_for")]
    + [("autode/wrappers/G16.py", "G16")]
    + [("autode/wrappers/NWChem.py", q) for q in (
        "ecp_block", "get_keywords", "NWChem.generate_input_for", "NWChem.execute", "NWChem.input_filename_for")]
    + [("autode/wrappers/QChem.py", q) for q in (
        "QChem.generate_input_for", "QChem.execute", "QChem._is_ts_opt", "QChem._keywords_contain",
        "QChem._InputFileWriter", "QChem.input_filename_for")]
    + [("autode/wrappers/XTB.py", q) for q in (
        "XTB.print_distance_constraints", "XTB.print_cartesian_constraints", "XTB.print_point_charge_file",
        "XTB.print_xcontrol_file", "XTB.generate_input_for", "XTB.execute", "XTB.input_filename_for")]
    + [("autode/wrappers/MOPAC.py", q) for q in (
        "get_keywords", "get_atoms_and_fixed_atom_indexes", "print_atoms", "print_point_charges",
        "_get_atoms_linear_interp", "MOPAC.generate_input_for", "MOPAC.execute", "MOPAC.input_filename_for")]
    + [("autode/input_output.py", "atoms_to_xyz_file"),
       ("autode/species/species.py", "Species.print_xyz_file"), ("autode/species/species.py", "Species.__str__"),
       ("autode/species/species.py", "Species.has_valid_spin_state"),
       ("autode/path/path.py", "Path.print_geometries"),
       ("autode/opt/optimisers/base.py", "print_geometries_from"),
       ("autode/calculations/executors.py", "CalculationExecutor.__init__"),
       ("autode/calculations/executors.py", "CalculationExecutor._check"),
       ("autode/calculations/executors.py", "CalculationExecutor.generate_input"),
       ("autode/calculations/executors.py", "CalculationExecutor.__str__"),
       ("autode/calculations/executors.py", "CalculationExecutor._fix_unique"),
       ("autode/calculations/executors.py", "_active_bonds"),
       ("autode/calculations/executors.py", "_string_without_leading_hyphen"),
       ("autode/calculations/calculation.py", "Calculation._executor_for"),
       ("autode/calculations/calculation.py", "Calculation.generate_input"),
       ("autode/calculations/calculation.py", "Calculation._check"),
       ("autode/calculations/input.py", "CalculationInput"),
       ("autode/wrappers/keywords/keywords.py", "Keyword.__init__"),
       ("autode/wrappers/keywords/keywords.py", "Keyword.has_only_name"),
       ("autode/wrappers/keywords/keywords.py", "Keywords.append"),
       ("autode/wrappers/keywords/keywords.py", "Keywords._set_keyword"),
       ("autode/wrappers/keywords/keywords.py", "OptKeywords"),
       ("autode/wrappers/keywords/keywords.py", "MaxOptCycles"),
       ("autode/constraints.py", "Constraints.cartesian"), ("autode/constraints.py", "Constraints.distance"),
       ("autode/constraints.py", "Constraints.any"), ("autode/constraints.py", "DistanceConstraints"),
       ("autode/point_charges.py", "PointCharge"),
       ("autode/atoms.py", "Atom.__init__"), ("autode/atoms.py", "DummyAtom.__init__"), ("autode/atoms.py", "Atoms.copy"),
       ("autode/atoms.py", "Atoms.__add__"), ("autode/atoms.py", "Atoms.__radd__"), ("autode/atoms.py", "Atom.coord"),
       ("autode/constraints.py", "Constraints.__init__"), ("autode/constraints.py", "Constraints.update"),
       ("autode/constraints.py", "Constraints.n_cartesian"), ("autode/constraints.py", "Constraints.n_distance"),
       ("autode/wrappers/G09.py", "_rerun_angle_failure"), ("autode/wrappers/G09.py", "_run_hessian"),
       ("autode/wrappers/G09.py", "G09.terminated_normally_in"), ("autode/wrappers/G09.py", "G09.execute"),
       ("autode/species/species.py", "Species.atoms"), ("autode/species/species.py", "Species.coordinates"),
       ("autode/species/species.py", "Species.charge"),
       ("autode/species/species.py", "Species.mult"), ("autode/species/species.py", "Species.solvent"),
       ("autode/calculations/executors.py", "CalculationExecutorO.__init__"),
       ("autode/calculations/executors.py", "CalculationExecutorO._max_opt_cycles"),
       ("autode/config.py", "_ConfigClass.__setattr__"),
       ("autode/utils.py", "run_external"), ("autode/utils.py", "work_in_tmp_dir"),
       ("autode/utils.py", "run_in_tmp_environment")]
)

SLICE = ["C17/Base.v", "C17/Decimal.v", "C17/Model.v", "C17/Lemmas.v", "C17/Props.v", "C17/Corr.v", "gen/C17_Gen.v"]
PRE = ("From Coq Require Import ZArith QArith List String Bool.\nFrom AV.lib Require Import QcInst.\n"
       "From AV.C17 Require Import Base Decimal Model Corr.\nFrom AV.gen Require Import C17_Gen.\nImport ListNotations.\n"
       "Open Scope string_scope.\n")

PROGS = ["orca", "g09", "g16", "nwchem", "qchem", "xtb", "mopac"]
COQP = {"orca": "ORCA", "g09": "G09", "g16": "G16", "nwchem": "NWChem", "qchem": "QChem", "xtb": "XTB",
        "mopac": "MOPAC", "xyz": "XYZ"}
INDEX_BASE = {"orca": 0, "g09": 1, "g16": 1, "qchem": 1, "xtb": 1}      # documented (program manuals)
KWTYPES = ["sp", "grad", "opt", "optts", "hess"]
ELEMENTS = ["H", "C", "N", "O", "F", "Cl", "Br", "S", "P", "Li", "Na", "Si", "B", "Fe", "I", "Pd"]
SOLVENTS = [None, None, "water", "dichloromethane", "acetonitrile", "toluene", "thf", "methanol", "2-butanol"]
TOL = Fraction(1, 100000)
DEC = re.compile(r"^[+-]?\d+(\.\d+)?$")
INT = re.compile(r"^[+-]?\d+$")


# ----------------------------------------------------------------------------- Coq literals
def qq(x):
    f = frac(x)
    return f"(Qmake ({f.numerator})%Z {f.denominator}%positive)"


def zz(n):
    return f"({int(n)})%Z"


def cs(s):
    return coq_string(s)


def ascii_ok(s):
    return all(32 <= ord(c) < 127 for c in s)


# ----------------------------------------------------------------------------- independent python readers
def pdec(tok):
    """plain decimal text -> exact Fraction (None if it is not one)"""
    return Fraction(tok) if DEC.match(tok) else None


def pnum(tok):
    """decimal or str(float) text (may carry an exponent) -> exact Fraction"""
    try:
        return Fraction(tok)
    except (ValueError, ZeroDivisionError):
        return None


def pint(tok):
    return int(tok) if INT.match(tok) else None


def read_atom_line(line, prog):
    """-> (label, x, y, z, frozen) by the documented layout of `prog`, or None"""
    t = line.split(" ")
    t = [w for w in t if w != ""]
    if prog == "mopac":
        if len(t) != 7 or t[2] != t[4] or t[4] != t[6] or t[2] not in ("0", "1"):
            return None
        xs = [pdec(t[1]), pdec(t[3]), pdec(t[5])]
        frozen = t[2] == "0"
    else:
        if len(t) != 4:
            return None
        xs = [pdec(w) for w in t[1:]]
        frozen = False
    if any(x is None for x in xs):
        return None
    return (t[0], xs[0], xs[1], xs[2], frozen)


def expand_xtb_atoms(txt):
    out = []
    for part in txt.split(","):
        part = part.strip()
        if "-" in part:
            a, b = part.split("-")
            out += list(range(int(a), int(b) + 1))
        else:
            out.append(int(part))
    return [i - 1 for i in out]


def sections(lines):
    """blank-line separated sections (Gaussian input)"""
    out, cur = [], []
    for ln in lines:
        if ln.strip() == "":
            out.append(cur)
            cur = []
        else:
            cur.append(ln)
    out.append(cur)
    return out


def parse_qchem_job(text):
    """One job of a (multi-job, @@@ separated) Q-Chem input: its $molecule, $rem and $smx sections."""
    J = {"molecule": None, "charge": None, "mult": None, "atom_lines": [], "rem": {}, "smx": None, "sections": []}
    sec, body = None, []
    for ln in text.split("\n"):
        t = ln.strip()
        if sec is None and t.startswith("$") and t.lower() != "$end":
            sec, body = t.lower(), []
        elif sec is not None and t.lower() == "$end":
            J["sections"].append(sec)
            if sec == "$molecule":
                if body and body[0].strip() == "read":
                    J["molecule"] = "read"
                elif body:
                    J["molecule"] = "explicit"
                    w = body[0].split()
                    J["charge"], J["mult"] = (pint(w[0]), pint(w[1])) if len(w) == 2 else (None, None)
                    J["atom_lines"] = body[1:]
            elif sec == "$rem":
                for b in body:
                    w = b.split()
                    if len(w) >= 2:
                        J["rem"][w[0].lower()] = " ".join(w[1:])
            elif sec == "$smx":
                for b in body:
                    w = b.split()
                    if len(w) == 2 and w[0].lower() == "solvent":
                        J["smx"] = w[1]
            sec = None
        elif sec is not None:
            body.append(ln)
    return J


def parse_files(prog, files, main, n_atoms, n_pcs):
    """Independent reading of the generated files.  -> dict of what the files say (raw lines kept
    for the Coq readers).  Raises ValueError(text) if a file is not in the program's format."""
    R = {"atoms": [], "atom_lines": [], "charge": None, "mult": None, "cm_lines": [], "cores": None, "mem": None,
         "solvent": None, "dist": [], "cart": [], "cart_line": None, "internal": [], "pcs": [], "pc_count": None,
         "natoms_line": None, "title": None}
    text = files[main]
    L = text.split("\n")
    if prog == "orca":
        i = next((k for k, ln in enumerate(L) if ln.startswith("*xyz")), None)
        if i is None:
            raise ValueError("no *xyz line")
        t = L[i].split()
        R["charge"], R["mult"] = pint(t[1]), pint(t[2])
        R["cm_lines"] = [("LChargeMult", L[i])]
        j = i + 1
        while j < len(L) and L[j].strip() != "*":
            R["atom_lines"].append(L[j])
            j += 1
        for k, ln in enumerate(L):
            if ln.startswith("% maxcore"):
                R["mem"] = pint(L[k + 1].strip())
            m = re.match(r"^%pal nprocs (\d+)$", ln)
            if m:
                R["cores"] = int(m.group(1))
            m = re.match(r'^SMDsolvent "(.*)"$', ln)
            if m:
                R["solvent"] = ("smd", m.group(1))
            if ln.startswith("{ B") and ln.rstrip().endswith("C }"):
                t = ln.split()
                R["dist"].append((pint(t[2]), pint(t[3]), pnum(t[4]), ln, t[4]))
            elif ln.startswith("{ B") and "A }" in ln:
                t = ln.split()
                R["internal"].append((pint(t[2]), pint(t[3]), ln))
            elif ln.startswith("{ C"):
                t = ln.split()
                R["cart"].append((pint(t[2]), ln))
            m = re.match(r'^% pointcharges "(.*)"$', ln)
            if m:
                pl = files[m.group(1)].split("\n")
                R["pc_count"] = (pint(pl[0].strip()), pl[0])
                for ln2 in pl[1:]:
                    if ln2.strip():
                        t = ln2.split()
                        R["pcs"].append((pdec(t[0]), pdec(t[1]), pdec(t[2]), pdec(t[3]), ln2))
        if L[0].startswith("!"):
            m = re.search(r"CPCM\(([^)]*)\)", L[0])
            if m and R["solvent"] is None:
                R["solvent"] = ("cpcm", m.group(1))
    elif prog in ("g09", "g16"):
        for ln in L:
            m = re.match(r"^%mem=(\d+)MB$", ln)
            if m:
                R["mem"] = int(m.group(1))
            m = re.match(r"^%nprocshared=(\d+)$", ln)
            if m:
                R["cores"] = int(m.group(1))
            if ln.startswith("#"):
                m = re.search(r"scrf=\(smd,solvent=([^)]*)\)", ln)
                if m:
                    R["solvent"] = ("smd", m.group(1))
        S = sections(L)
        # link0 + route | title | molecule | [point charges] | [modredundant] | ...
        if len(S) < 3:
            raise ValueError("Gaussian input has fewer than three sections")
        mol = S[2]
        t = mol[0].split()
        R["charge"], R["mult"] = pint(t[0]), pint(t[1])
        R["cm_lines"] = [("LChargeMult", mol[0])]
        R["atom_lines"] = mol[1:]
        nxt = 3
        if n_pcs:
            for ln in S[nxt] if nxt < len(S) else []:
                t = ln.split()
                R["pcs"].append((pdec(t[3]), pdec(t[0]), pdec(t[1]), pdec(t[2]), ln))
            nxt += 1
        for ln in S[nxt] if nxt < len(S) else []:
            t = ln.split()
            if t[0] == "B" and len(t) == 5 and t[4] == "B":
                R["dist"].append((pint(t[1]) - 1, pint(t[2]) - 1, pnum(t[3]), ln, t[3]))
            elif t[0] == "B" and len(t) == 4 and t[3] == "F":
                R.setdefault("freeze", []).append((pint(t[1]) - 1, pint(t[2]) - 1, ln))
            elif t[0] == "B" and len(t) == 3:
                R["internal"].append((pint(t[1]) - 1, pint(t[2]) - 1, ln))
            elif t[0] == "X" and len(t) == 3 and t[2] == "F":
                R["cart"].append((pint(t[1]) - 1, ln))
    elif prog == "nwchem":
        i = next((k for k, ln in enumerate(L) if ln.startswith("geometry")), None)
        if i is None:
            raise ValueError("no geometry block")
        j = i + 1
        while j < len(L) and L[j].strip() != "end":
            R["atom_lines"].append(L[j])
            j += 1
        in_bq = False
        for k, ln in enumerate(L):
            t = ln.split()
            if not t:
                continue
            if t[0] == "charge" and len(t) == 2:
                R["charge"] = pint(t[1])
                R["cm_lines"].append(("LCharge", ln))
            elif t[0] == "mult" and len(t) == 2:
                R["mult"] = pint(t[1])
                R["cm_lines"].append(("LMult", ln))
            elif t[0] == "nopen" and len(t) == 2:
                R["mult"] = pint(t[1]) + 1
                R["cm_lines"].append(("LNopen", ln))
            elif t[0] == "memory" and len(t) == 3 and t[2] == "mb":
                R["mem"] = pint(t[1])
            elif t[0] == "solvent" and len(t) == 2:
                R["solvent"] = ("smd", t[1])
            elif ln.strip() == "bq":
                in_bq = True
            elif in_bq and ln.strip() == "end":
                in_bq = False
            elif in_bq:
                R["pcs"].append((pdec(t[3]), pdec(t[0]), pdec(t[1]), pdec(t[2]), ln))
    elif prog == "qchem":
        R["jobs"] = [parse_qchem_job(j) for j in text.split("@@@")]
        i = next((k for k, ln in enumerate(L) if ln.strip() == "$molecule"), None)
        if i is None:
            raise ValueError("no $molecule block")
        t = L[i + 1].split()
        R["charge"], R["mult"] = pint(t[0]), pint(t[1])
        R["cm_lines"] = [("LChargeMult", L[i + 1])]
        j = i + 2
        while j < len(L) and L[j].strip() != "$end":
            R["atom_lines"].append(L[j])
            j += 1
        mode = None
        for k, ln in enumerate(L):
            t = ln.split()
            if not t:
                continue
            if t[0] == "mem_total" and len(t) == 2:
                R["mem"] = pint(t[1])      # the last $rem block wins; all blocks carry the same value
            if ln.strip() == "$smx":
                R["solvent"] = ("smd", L[k + 1].split()[1])
            if ln.strip() in ("CONSTRAINT", "FIXED", "CONNECT"):
                mode = ln.strip()
            elif ln.strip() in ("ENDCONSTRAINT", "ENDFIXED", "ENDCONNECT"):
                mode = None
            elif mode == "CONSTRAINT" and t[0] == "stre":
                R["dist"].append((pint(t[1]) - 1, pint(t[2]) - 1, pdec(t[3]), ln, t[3]))
            elif mode == "FIXED" and len(t) == 2 and t[1] == "XYZ":
                R["cart"].append((pint(t[0]) - 1, ln))
            elif mode == "CONNECT" and len(t) == 3 and t[1] == "1":
                R["internal"].append((pint(t[0]) - 1, pint(t[2]) - 1, ln))
    elif prog in ("xtb", "xyz"):
        R["natoms_line"] = L[0]
        R["title"] = L[1]
        n = pint(L[0].strip())
        if n is None:
            raise ValueError("xyz file without an atom count")
        R["atom_lines"] = L[2:2 + n]
        t = L[1].split()
        for k in range(len(t) - 2):
            if t[k] == "charge" and t[k + 1] == "=":
                R["charge"] = pint(t[k + 2])
            if t[k] == "mult" and t[k + 1] == "=":
                R["mult"] = pint(t[k + 2])
            if t[k] in ("solvent_name", "solvent") and t[k + 1] == "=":
                R["solvent"] = ("title", t[k + 2])
        for fn, txt in files.items():
            if fn.startswith("xcontrol"):
                for ln in txt.split("\n"):
                    if ln.startswith("distance:"):
                        parts = [w.strip() for w in ln[len("distance:"):].split(",")]
                        R["dist"].append((pint(parts[0]) - 1, pint(parts[1]) - 1, pdec(parts[2]), ln, parts[2]))
                    elif ln.startswith("atoms:"):
                        R["cart"] += [(i, ln) for i in expand_xtb_atoms(ln[len("atoms:"):])]
                        R["cart_line"] = ln
                    elif ln.startswith("input=") and ln.endswith(".pc"):
                        pl = files[ln[len("input="):]].split("\n")
                        R["pc_count"] = (pint(pl[0].strip()), pl[0])
                        for ln2 in pl[1:]:
                            if ln2.strip():
                                t = ln2.split()
                                R["pcs"].append((pdec(t[0]), pdec(t[1]), pdec(t[2]), pdec(t[3]), ln2))
    elif prog == "mopac":
        kw = L[0].split()
        for w in kw:
            m = re.match(r"^CHARGE=([+-]?\d+)$", w)
            if m:
                R["charge"] = int(m.group(1))
                R["cm_lines"] = [("LCharge", w)]
            m = re.match(r"^EPS=(.*)$", w)
            if m:
                R["solvent"] = ("eps", m.group(1))
        R["mult"] = 2 if "DOUBLET" in kw else 3 if "OPEN(2,2)" in kw else 1
        R["atom_lines"] = [ln for ln in L[1:] if ln.strip()]
        for fn, txt in files.items():
            if fn.endswith("_mol.in"):
                pl = txt.split("\n")
                R["pot_header"] = pl[1]
                R["potentials"] = [pnum(ln.split()[4]) for ln in pl[2:] if ln.strip()]
    else:
        raise ValueError("unknown program")
    for ln in R["atom_lines"]:
        a = read_atom_line(ln, prog)
        if a is None:
            raise ValueError(f"atom line not in the {prog} format: {ln!r}")
        R["atoms"].append(a)
    return R


# ----------------------------------------------------------------------------- case generation
def rand_coord(rng):
    r = rng.random()
    if r < 0.10:
        return rng.choice([0.0, -1e-9, 1e-9, -4e-6, -5e-6, 5e-6, -6e-6, 4.9999e-6, -0.5e-8, 0.5e-8, 1 / 64, -1 / 64,
                           3 / 64, 1 / 512, -3 / 512, 0.5, -0.5, 999.999995, -999.999995, 1000.0, -1000.0])
    mag = rng.choice([1e-6, 1e-5, 1e-4, 1e-3, 1e-2, 0.1, 1.0, 1.0, 1.0, 10.0, 10.0, 100.0, 1e3])
    x = rng.uniform(-1.0, 1.0) * mag
    if rng.random() < 0.3:
        x = round(x, rng.choice([3, 5, 6, 8]))
    return x + 0.0


def gen_spec(rng, prog, kwtype, nmax):
    n = rng.choice([1, 1, 2, 3]) if rng.random() < 0.15 else rng.randint(2, nmax)
    atoms = []
    for k in range(n):
        lab = rng.choice(ELEMENTS[:8]) if rng.random() < 0.8 else rng.choice(ELEMENTS)
        atoms.append([lab, rand_coord(rng), rand_coord(rng), rand_coord(rng)])
    # keep atoms apart (needed only so that constrained pairs have a direction)
    for k in range(n):
        atoms[k][1] += 0.0
    from autode.atoms import Atom
    nel = sum(Atom(a[0]).atomic_number for a in atoms)
    for _ in range(50):
        charge = rng.randint(-3, 3)
        mult = rng.randint(1, 3 if (prog == "mopac" and rng.random() < 0.8) else 5)
        ne = nel - charge
        if ne >= 0 and mult - 1 <= ne and ne % 2 == (mult - 1) % 2:
            break
    else:
        charge, mult = 0, 1 + nel % 2
    spec = {"prog": prog, "atoms": atoms, "charge": charge, "mult": mult, "kwtype": kwtype,
            "solvent": rng.choice(SOLVENTS), "solv_type": None, "kwsrc": rng.choice(["default", "default", "custom"]),
            "dist": [], "cart": [], "pcs": [], "bonds": [], "n_cores": rng.choice([1, 1, 2, 4, 8, 16]),
            "max_core_mb": rng.choice([4000.0, 1000.0, 1500.0, 500.0, 750.5, 2048.0]), "max_cycles": None,
            "molecule": rng.random() < 0.6, "orca_v5": rng.random() < 0.5}
    spec["dist_unit"] = None
    spec["mem_unit"] = rng.choice(["MB", "MB", "GB"])
    if spec["mem_unit"] == "GB" and spec["max_core_mb"] in (750.5, 2048.0):
        spec["max_core_mb"] = 2000.0      # x GB * 1000 must be exact in binary floating point
    if prog == "nwchem" and rng.random() < 0.3:
        spec["kwsrc"] = rng.choice(sorted(NW_SETS))
        spec["solvent"] = None            # NWChem supports solvent for DFT only (documented rejection)
    if prog == "orca" and spec["solvent"]:
        spec["solv_type"] = rng.choice(["cpcm", "smd"])
    if n >= 2 and rng.random() < 0.5:
        pairs = set()
        for _ in range(rng.randint(1, min(3, n - 1))):
            i, j = rng.sample(range(n), 2)
            if (min(i, j), max(i, j)) in pairs:
                continue
            pairs.add((min(i, j), max(i, j)))
            spec["dist"].append([i, j, rng.choice([0.5, 1.0, 1.23456789, 2.345678, 0.987654321012, 3.000005, 1.00005, 10.5])])
        # MOPAC moves the two atoms along their connecting vector: they must not coincide
        for i, j, _ in spec["dist"]:
            if all(abs(atoms[i][c] - atoms[j][c]) < 1e-3 for c in (1, 2, 3)):
                atoms[j][1] += 1.25
        if spec["dist"] and rng.random() < 0.3:
            spec["dist_unit"] = rng.choice(["nm", "pm", "a0"])     # the user gives the constraint as a Distance in other units
    if rng.random() < 0.4:
        k = rng.randint(1, min(n, 6))
        spec["cart"] = sorted(rng.sample(range(n), k))
    if rng.random() < (0.08 if prog == "qchem" else 0.35):      # Q-Chem rejects point charges (NotImplementedError)
        for _ in range(rng.randint(1, 3)):
            spec["pcs"].append([rng.choice([1.0, -1.0, 0.5, -0.125, 0.3333, 2.0, -1e-3]),
                                rand_coord(rng) + 20.0, rand_coord(rng) - 20.0, rand_coord(rng)])
    if spec["molecule"] and n >= 2 and rng.random() < 0.3:
        i, j = rng.sample(range(n), 2)
        spec["bonds"] = [[min(i, j), max(i, j)]]
    if kwtype in ("opt", "optts") and rng.random() < 0.3:
        spec["max_cycles"] = rng.choice([5, 10, 77])
    return spec


CUSTOM = {   # distinctive extra keywords a user could request, and typed keywords with per-program names
    "orca": (["Grid6", "NoFinalGrid", "SlowConv"], {"func": "B3LYP", "basis": "def2-TZVP", "disp": "D3BJ"}),
    "g09": (["integral=superfinegrid", "pop=nbo"], {"func": "B3LYP", "basis": "Def2TZVP", "disp": "GD3BJ"}),
    "g16": (["integral=superfinegrid", "pop=nbo"], {"func": "B3LYP", "basis": "Def2TZVP", "disp": "GD3BJ"}),
    "nwchem": (["set lindep:n_dep 0"], {"func": "b3lyp", "basis": "Def2-TZVP", "disp": None}),
    "qchem": (["max_diis_cycles 200", "thresh 12"], {"func": "b3lyp", "basis": "def2-TZVP", "disp": "D3_BJ"}),
    "xtb": (["--acc", "0.5"], None),
    "mopac": (["PM7", "PRECISE", "LET"], None),
}
NW_SETS = {   # NWChem inputs without a dft block: the multiplicity has to go into an scf block (nopen)
    "nw-mp2": ["task mp2 energy"],
    "nw-ccsd": ["task ccsd energy"],
    "nw-scf-tail": ["task scf energy"],                              # NWChem.py:121-125
    "nw-scf-block": ["scf\n  maxiter 100\nend", "task scf energy"],   # NWChem.py:104-108
}
TYPE_KW = {  # a calculation-type keyword in each program's own syntax
    "orca": {"sp": "SP", "grad": "EnGrad", "opt": "Opt", "optts": "OptTS", "hess": "Freq"},
    "g09": {"sp": None, "grad": "Force(NoStep)", "opt": "Opt", "optts": "Opt=(TS, CalcFC, NoEigenTest)", "hess": "Freq"},
    "g16": {"sp": None, "grad": "Force(NoStep)", "opt": "Opt", "optts": "Opt=(TS, CalcFC, NoEigenTest)", "hess": "Freq"},
    "nwchem": {"sp": "task dft energy", "grad": "task dft gradient", "opt": "task dft gradient", "optts": "task dft gradient",
               "hess": "task dft freq"},
    "qchem": {"sp": None, "grad": None, "opt": None, "optts": "jobtype ts", "hess": None},
    "xtb": {"sp": None, "grad": "--grad", "opt": "--opt", "optts": "--opt", "hess": None},
    "mopac": {"sp": None, "grad": None, "opt": None, "optts": None, "hess": None},
}


def method_for(prog):
    from autode.wrappers.ORCA import ORCA
    from autode.wrappers.G09 import G09
    from autode.wrappers.G16 import G16
    from autode.wrappers.NWChem import NWChem
    from autode.wrappers.QChem import QChem
    from autode.wrappers.XTB import XTB
    from autode.wrappers.MOPAC import MOPAC
    return {"orca": ORCA, "g09": G09, "g16": G16, "nwchem": NWChem, "qchem": QChem, "xtb": XTB, "mopac": MOPAC}[prog]()


def keywords_for(spec, method):
    """-> (Keywords object, list of (description, words that must appear, exempt reason or None))"""
    import autode.wrappers.keywords as kws
    prog, kt = spec["prog"], spec["kwtype"]
    cls = {"sp": kws.SinglePointKeywords, "grad": kws.GradientKeywords, "opt": kws.OptKeywords,
           "optts": kws.OptTSKeywords, "hess": kws.HessianKeywords}[kt]
    if spec["kwsrc"] == "nw-optx":     # a functional whose NWChem name contains "opt"
        kw = cls([kws.BasisSet(name="def2-SVP", nwchem="Def2-SVP"), kws.Functional(name="optx", nwchem="optx optc"), "task dft energy"])
    elif spec["kwsrc"] in NW_SETS:
        kw = cls([kws.BasisSet(name="def2-SVP", nwchem="Def2-SVP")] + list(NW_SETS[spec["kwsrc"]]))
    elif spec["kwsrc"] == "default":
        base = {"sp": method.keywords.sp, "grad": method.keywords.grad, "opt": method.keywords.opt,
                "optts": method.keywords.opt_ts, "hess": method.keywords.hess}[kt]
        kw = base.copy()
    else:
        strs, typed = CUSTOM[prog]
        items = []
        if TYPE_KW[prog][kt]:
            items.append(TYPE_KW[prog][kt])
        if typed:
            items.append(kws.Functional(name="b3lyp", **{prog: typed["func"]}))
            items.append(kws.BasisSet(name="def2-TZVP", **{prog: typed["basis"]}))
            if typed["disp"]:
                items.append(kws.DispersionCorrection(name="d3bj", **{prog: typed["disp"]}))
            if prog == "orca":
                items.append(kws.RI(name="RIJCOSX"))     # only a name: printed verbatim
        items = [i for i in items if i is not None] + list(strs)
        kw = cls(items)
    if spec.get("ecp_min") is not None:
        kw.ecp = kws.ECP(name="def2-ECP", min_atomic_number=spec["ecp_min"], **{("g09" if prog == "g16" else prog): "zzecp" + str(spec["ecp_min"])})
    if spec["max_cycles"] is not None and isinstance(kw, kws.OptKeywords):
        kw.max_opt_cycles = spec["max_cycles"]
    return kw


def words_of(s):
    return [w for w in re.split(r"[^A-Za-z0-9_.:/+-]+", s.lower()) if w]


def expected_keyword_words(spec, kw, method, n_atoms, heavy, all_ecp=False):
    """For every requested keyword: the words that have to show up in the files (or on the xTB command
    line), or the documented reason why this program handles it elsewhere."""
    import autode.wrappers.keywords as kws
    prog = spec["prog"]
    out = []
    for k in kw:
        if isinstance(k, kws.Keyword):
            tr = getattr(k, "g09" if prog == "g16" and getattr(k, "g09", None) else prog, None)
            if tr is None and k.has_only_name:
                tr = k.name
        else:
            tr = str(k)
        low = (tr or "").lower()
        why = None
        if isinstance(k, kws.MaxOptCycles):
            if prog == "nwchem":
                why = "NWChem never optimises itself: CalculationExecutorO._max_opt_cycles hands the limit to the package's optimiser"
            elif prog in ("xtb", "mopac"):
                why = "DROPPED"        # reported under its own narrow key (check_case)
            elif n_atoms == 1:
                why = "no optimisation (hence no cycle limit) for a single atom"
            tr = str(int(k))
        elif isinstance(k, kws.BasisSet) and prog in ("g09", "g16") and all_ecp:
            why = ("Gaussian: with an ECP the basis keyword becomes genecp + basis.gbs, which lists the basis only for the elements "
                   "WITHOUT an ECP (G09.py:233-263); every atom here carries the ECP, so the basis set is not used at all")
        elif isinstance(k, kws.ECP):
            if not heavy or prog in ("orca",):
                why = "ECP only printed when heavy atoms are present (ORCA: implicit with def2 basis)"
        elif "opt" in low and n_atoms == 1 and prog in ("orca", "g09", "g16", "nwchem", "qchem"):
            why = "optimisation keyword is removed for a single atom"
        elif prog == "nwchem" and "opt" in low and n_atoms == 1:
            why = "optimisation keyword is replaced for a single atom"
        out.append((repr(k), words_of(tr) if tr else [], why))
    return out


@contextlib.contextmanager
def patched(obj, name, value):
    old = getattr(obj, name)
    setattr(obj, name, value)
    try:
        yield
    finally:
        setattr(obj, name, old)


def snapshot(mol):
    import numpy as np
    g = None
    if getattr(mol, "graph", None) is not None:
        g = (sorted(mol.graph.nodes), sorted((min(a, b), max(a, b), bool(d.get("active", False)))
                                             for a, b, d in mol.graph.edges(data=True)))
    dist = mol.constraints.distance
    return {
        "labels": [a.label for a in mol.atoms],
        "coords": [[float(c).hex() for c in a.coord] for a in mol.atoms],
        "charge": mol.charge, "mult": mol.mult, "name": mol.name,
        "solvent": None if mol.solvent is None else mol.solvent.name,
        "dist": None if dist is None else sorted((tuple(k), float(v).hex()) for k, v in dist.items()),
        "cart": None if mol.constraints.cartesian is None else sorted(mol.constraints.cartesian),
        "graph": g, "energy": None if mol.energy is None else float(mol.energy).hex(),
        "n_atoms": mol.n_atoms,
        "atom_classes": [a.atom_class for a in mol.atoms],
    }


def in_unit(d, unit):
    """magnitude of the distance d (Angstrom) expressed in `unit`, by the package's own (C06-verified) conversion"""
    from autode.values import Distance
    return float(Distance(d, units="ang").to(unit))


def build_species(spec):
    import autode as ade
    from autode.atoms import Atom
    atoms = [Atom(a[0], a[1], a[2], a[3]) for a in spec["atoms"]]
    cls = ade.Molecule if spec.get("molecule") else ade.Species
    mol = cls(name="m", atoms=atoms, charge=spec["charge"], mult=spec["mult"], solvent_name=spec["solvent"])
    if spec["dist"]:
        if spec.get("dist_unit"):
            from autode.values import Distance
            # the SAME physical distance d (Angstrom), handed over in another unit
            mol.constraints.distance = {(i, j): Distance(in_unit(d, spec["dist_unit"]), units=spec["dist_unit"])
                                        for i, j, d in spec["dist"]}
        else:
            mol.constraints.distance = {(i, j): d for i, j, d in spec["dist"]}
    if spec["cart"]:
        mol.constraints.cartesian = list(spec["cart"])
    for i, j in spec.get("bonds", []):
        if mol.graph is not None:
            mol.graph.add_active_edge(i, j)
    return mol


# narrow keys of standing findings: derived streams report them under the same key (not as a new regression class)
PASS_KEYS = {"distance-constraint-written-as-moved-atoms", "keyword-dropped:MaxOptCycles", "dist-constraint-units-ignored",
             "mult-missing-without-dft-or-scf-task"}


class Rejected(Exception):
    pass


def run_case(spec, workdir, registry=False, mol=None):
    """Generate the input for one case on the implementation.  -> result dict
    registry=True leaves the package's default calculation register (.autode_calculations) enabled."""
    import autode as ade
    import autode.exceptions as aex
    from autode.calculations import Calculation
    from autode.point_charges import PointCharge
    import autode.wrappers.ORCA as orca_mod
    res = {"files": {}, "main": None, "error": None, "rejected": None, "before": None, "after": None, "kw_expected": [],
           "n_heavy": 0}
    os.makedirs(workdir, exist_ok=True)
    here = os.getcwd()
    os.chdir(workdir)
    old_core = ade.Config.max_core
    if registry:
        os.environ.pop("AUTODE_FIXUNIQUE", None)      # executors.py:99: on unless the variable is "False"
    else:
        os.environ["AUTODE_FIXUNIQUE"] = "False"

    def fake_orca_run(params, output_filename, stderr_to_log=True):
        with open(output_filename, "w") as f:
            print("Program Version " + ("5.0.3" if spec.get("orca_v5") else "4.2.1"), file=f)

    try:
        if spec.get("mem_unit") == "GB":
            from autode.values import Allocation
            ade.Config.max_core = Allocation(spec["max_core_mb"] / 1000.0, units="GB")
        else:
            ade.Config.max_core = spec["max_core_mb"]
        method = method_for(spec["prog"])
        if spec["prog"] == "orca":
            method.path = "orca"
            if spec["solv_type"]:
                import autode.wrappers.keywords.implicit_solvent_types as solv
                method.implicit_solvation_type = getattr(solv, spec["solv_type"])
        if mol is None:
            mol = build_species(spec)
        res["mol"] = mol
        res["n_heavy"] = sum(1 for a in mol.atoms if a.atomic_number >= 37)
        kw = keywords_for(spec, method)
        pcs = [PointCharge(q, x=x, y=y, z=z) for q, x, y, z in spec["pcs"]] or None
        res["before"] = snapshot(mol)
        try:
            calc = Calculation(name="c", molecule=mol, method=method, keywords=kw, n_cores=spec["n_cores"], point_charges=pcs)
        except aex.SolventUnavailable as e:
            res["rejected"] = "SolventUnavailable"
            return res
        ecp_kw = calc.input.keywords.ecp
        if ecp_kw is not None:
            res["ecp"] = {"min_z": int(ecp_kw.min_atomic_number),
                          "name": getattr(ecp_kw, "g09" if spec["prog"] == "g16" and getattr(ecp_kw, "g09", None) else spec["prog"], None) or ecp_kw.name,
                          "z": {a.label: int(a.atomic_number) for a in mol.atoms}}
        all_ecp = ecp_kw is not None and all(a.atomic_number >= ecp_kw.min_atomic_number for a in mol.atoms)
        # an ECP keyword is required exactly when some atom has Z >= ECP.min_atomic_number (same rule as the ecp-threshold oracle)
        needs_ecp = ecp_kw is not None and any(a.atomic_number >= ecp_kw.min_atomic_number for a in mol.atoms)
        res["kw_expected"] = expected_keyword_words(spec, calc.input.keywords, method, mol.n_atoms, needs_ecp, all_ecp)
        res["requested_kw"] = [repr(k) for k in calc.input.keywords]
        if spec["prog"] == "nwchem":
            import autode.wrappers.keywords as kws_
            texts = []
            for k in calc.input.keywords:
                if isinstance(k, kws_.Functional):
                    texts.append(f"dft\n  maxiter 100\n  xc {k.nwchem or k.name}\nend")
                elif isinstance(k, kws_.BasisSet):
                    texts.append(f"basis\n  *   library {k.nwchem or k.name}\nend")
                elif isinstance(k, (kws_.ECP, kws_.MaxOptCycles)):
                    continue
                elif isinstance(k, kws_.Keyword):
                    texts.append(k.nwchem or k.name)
                else:
                    texts.append(str(k))
            res["nw_texts"] = texts
        try:
            with patched(orca_mod, "run_external", fake_orca_run):
                calc.generate_input()
        except aex.UnsupportedCalculationInput as e:
            res["rejected"] = "UnsupportedCalculationInput: " + str(e)[:120]
        except NotImplementedError as e:
            res["rejected"] = "NotImplementedError: " + str(e)[:120]
        except Exception as e:   # noqa
            res["error"] = f"{type(e).__name__}: {e}\n" + traceback.format_exc()[-1500:]
        res["after"] = snapshot(mol)
        if res["rejected"] or res["error"]:
            return res
        res["main"] = calc.input.filename
        for fn in calc.input.filenames + (["basis.gbs"] if os.path.exists("basis.gbs") else []):
            if fn and os.path.exists(fn):
                res["files"][fn] = open(fn).read()
        res["solvent_names"] = None
        if mol.solvent is not None:
            s = mol.solvent
            res["solvent_names"] = {"name": s.name, "prog": getattr(s, "g09" if spec["prog"] == "g16" else spec["prog"], None),
                                    "dielectric": getattr(s, "dielectric", None)}
            if spec["prog"] == "orca":
                res["solvent_names"]["cpcm"] = orca_mod.vdw_gaussian_solvent_dict.get(s.orca)
        # command line / environment of the programs that take settings there
        if spec["prog"] in ("xtb", "qchem", "nwchem", "mopac") and type(calc._executor).__name__ == "CalculationExecutor":
            res["exec"] = capture_execute(spec["prog"], calc)
            res["after_exec"] = snapshot(mol)
    except Exception as e:   # noqa
        res["error"] = f"{type(e).__name__}: {e}\n" + traceback.format_exc()[-1500:]
    finally:
        ade.Config.max_core = old_core
        os.environ["AUTODE_FIXUNIQUE"] = "False"
        os.chdir(here)
    return res


def capture_execute(prog, calc):
    import importlib
    mod = importlib.import_module({"xtb": "autode.wrappers.XTB", "qchem": "autode.wrappers.QChem",
                                   "nwchem": "autode.wrappers.NWChem", "mopac": "autode.wrappers.MOPAC"}[prog])
    seen = {}

    def rec(params, output_filename=None, *a, **k):
        seen["params"] = [None if p is None else str(p) for p in params]
        seen["omp"] = os.environ.get("OMP_NUM_THREADS")
        with open(output_filename, "w") as f:
            f.write("")

    name = "run_external_monitored" if prog == "nwchem" else "run_external"
    omp_before = os.environ.get("OMP_NUM_THREADS")
    try:
        with patched(mod, name, rec):
            calc._executor.output.filename = calc.method.output_filename_for(calc._executor)
            calc.method.execute(calc._executor)
    except Exception as e:   # noqa
        seen["error"] = f"{type(e).__name__}: {e}"
    seen["omp_after_equal"] = os.environ.get("OMP_NUM_THREADS") == omp_before
    return seen


def mopac_expected_atoms(spec):
    """MOPAC has no distance constraints: the wrapper writes each constrained pair moved symmetrically
    along its bond vector to the requested distance and freezes both atoms (MOPAC.py:82-199).  Independent
    re-implementation: every shift is computed from the ORIGINAL geometry; an atom that belongs to several
    constrained pairs receives the shift of the LAST pair (the wrapper keeps one shift per atom).
    -> (expected atoms [[label, x, y, z]], set of moved atom indices)"""
    atoms = [list(a) for a in spec["atoms"]]
    shifts = {}
    for i, j, d in spec["dist"]:
        a, b = min(i, j), max(i, j)
        v = [spec["atoms"][b][c] - spec["atoms"][a][c] for c in (1, 2, 3)]
        r = math.sqrt(sum(x * x for x in v))
        u = [x / r for x in v]
        shifts[b] = [0.5 * (d - r) * x for x in u]
        shifts[a] = [-0.5 * (d - r) * x for x in u]
    for k, sh in shifts.items():
        for c in range(3):
            atoms[k][1 + c] = spec["atoms"][k][1 + c] + sh[c]
    return atoms, set(shifts)


# ----------------------------------------------------------------------------- oracles on one case
def check_case(spec, res):
    """Implementation-side oracles.  -> (failures [(key, what)], parsed or None)"""
    prog = spec["prog"]
    site = f"{prog}.generate_input"
    F = []
    if res["error"]:
        F.append((f"{site}|crash-{res['error'].split(':')[0]}", "generate_input raised " + res["error"].split("\n")[0]))
        return F, None
    if res["before"] is not None and res["after"] is not None and res["before"] != res["after"]:
        diff = [k for k in res["before"] if res["before"][k] != res["after"][k]]
        cls = "distance-constraint-moves-atoms" if (prog == "mopac" and spec["dist"] and diff == ["coords"]) else "species-modified"
        F.append((f"{site}|{cls}", f"generating the input changed the species: {diff} differ "
                  f"(e.g. coordinates of atom {first_diff(res['before'], res['after'])})"))
    if res.get("after_exec") is not None and res["after_exec"] != res["after"]:
        F.append((f"{prog}.execute|species-modified", "preparing the command line changed the species"))
    if res["rejected"]:
        return F, None
    n = len(spec["atoms"])
    try:
        P = parse_files(prog, res["files"], res["main"], n, len(spec["pcs"]))
    except (ValueError, IndexError, KeyError, TypeError) as e:
        F.append((f"{site}|unreadable", f"the generated input is not in the program's format: {type(e).__name__}: {e}"))
        return F, None
    # MOPAC realises distance constraints by moving the pair and freezing it: for the constrained atoms
    # the file is compared (still at 1e-5) with an independent re-implementation of that interpolation,
    # every other atom with the species; the deviation from the species is reported once as a design finding
    ref, moved = spec["atoms"], set()
    if prog == "mopac" and spec["dist"]:
        ref, moved = mopac_expected_atoms(spec)
        if spec.get("dist_unit") and len(P["atoms"]) == n:
            def close_to(R_):
                return all(a[0] == b[0] and all(abs(a[1 + c] - frac(b[1 + c])) <= TOL for c in range(3)) for a, b in zip(P["atoms"], R_))
            raw, _ = mopac_expected_atoms({**spec, "dist": [[i, j, in_unit(d, spec["dist_unit"])] for i, j, d in spec["dist"]]})
            if close_to(raw) and not close_to(ref):
                i, j, d = spec["dist"][0]
                F.append((f"{site}|dist-constraint-units-ignored",
                          f"constraint {i}-{j} given as Distance({in_unit(d, spec['dist_unit'])!r}, units={spec['dist_unit']!r}) = {d!r} A: "
                          f"the atoms are moved to {in_unit(d, spec['dist_unit'])!r} A apart (the magnitude is used as if it were Angstrom)"))
                ref, res["units_ignored"] = raw, True
                res["ref_override"] = raw
    if len(P["atoms"]) != n:
        F.append((f"{site}|atom-count", f"{len(P['atoms'])} atom lines for {n} atoms"))
    else:
        for k, (a, b) in enumerate(zip(P["atoms"], ref)):
            if a[0] != b[0]:
                F.append((f"{site}|atom-order", f"atom {k}: symbol {a[0]!r} in the file, {b[0]!r} in the species"))
                break
            bad = [c for c in range(3) if abs(a[1 + c] - frac(b[1 + c])) > TOL]
            if bad:
                F.append((f"{site}|coord-mismatch", f"atom {k} ({b[0]}): file has {[float(v) for v in a[1:4]]}, "
                          f"{'interpolated position of the constrained atom' if k in moved else 'species'} "
                          f"{b[1:4]} (component {bad[0]} off by {float(abs(a[1 + bad[0]] - frac(b[1 + bad[0]]))):.3g} A)"))
                break
        else:
            dev = [k for k in sorted(moved) if any(abs(P["atoms"][k][1 + c] - frac(spec["atoms"][k][1 + c])) > TOL for c in range(3))]
            if dev:
                k = dev[0]
                F.append((f"{site}|distance-constraint-written-as-moved-atoms",
                          f"MOPAC has no distance constraints: the input holds the constrained atoms {dev} moved along their bond "
                          f"vectors to the requested distances and frozen (atom {k}: file {[float(v) for v in P['atoms'][k][1:4]]}, "
                          f"species {spec['atoms'][k][1:4]}); the species itself is unchanged"))
            cnt = {}
            for i, j, d in spec["dist"]:
                cnt[i] = cnt.get(i, 0) + 1
                cnt[j] = cnt.get(j, 0) + 1
            for i, j, d in spec["dist"] if (prog == "mopac" and not res.get("units_ignored")) else []:
                if cnt[i] == 1 and cnt[j] == 1:
                    r = math.sqrt(sum(float(P["atoms"][i][1 + c] - P["atoms"][j][1 + c]) ** 2 for c in range(3)))
                    if abs(r - d) > 3e-5:
                        F.append((f"{site}|dist-value", f"atoms {i},{j} are {r:.6f} A apart in the file, constrained distance {d!r}"))
    ex = res.get("exec") or {}
    params = ex.get("params") or []
    if "error" in ex:
        F.append((f"{prog}.execute|crash", "execute() raised before the program was started: " + ex["error"]))
    # charge / multiplicity
    if prog == "xtb":
        def flag(name):
            return params[params.index(name) + 1] if name in params and params.index(name) + 1 < len(params) else None
        if params:
            if flag("--chrg") != str(spec["charge"]):
                F.append((f"{prog}.execute|charge", f"--chrg {flag('--chrg')} for charge {spec['charge']}"))
            if flag("--uhf") != str(spec["mult"] - 1):
                F.append((f"{prog}.execute|mult", f"--uhf {flag('--uhf')} for multiplicity {spec['mult']}"))
    if P["charge"] != spec["charge"]:
        F.append((f"{site}|charge", f"charge {P['charge']} in the file, species has {spec['charge']}"))
    if prog == "nwchem" and P["mult"] is None and n == 1 and spec["mult"] != 1 and \
            any("functional" in k.lower() and "opt" in k.lower() for k in res.get("requested_kw", [])):
        F.append((f"{site}|single-atom-opt-rewrite-hits-dft-block",
                  f"single atom: the dft block of {res.get('requested_kw')} contains 'opt', so NWChem.py:85-96 rewrites it (words with "
                  f"'opt' -> 'energy') before the dft branch: the functional is garbled and no `mult` line is written for multiplicity {spec['mult']}"))
    elif prog == "nwchem" and P["mult"] is None:
        # no `mult` (dft) / `nopen` (scf) line at all: NWChem then assumes a closed-shell singlet
        if spec["mult"] != 1:
            F.append((f"{site}|mult-missing-without-dft-or-scf-task",
                      f"the input has no `mult`/`nopen` line (keywords {res.get('requested_kw')}): NWChem runs a singlet, "
                      f"the species has multiplicity {spec['mult']}"))
    elif P["mult"] != spec["mult"]:
        F.append((f"{site}|mult", f"multiplicity {P['mult']} in the file, species has {spec['mult']}"))
    # cores / memory
    nc, mem = spec["n_cores"], Fraction(spec["max_core_mb"])
    exp_mem = {"orca": math.floor(mem), "g09": math.floor(mem * nc), "g16": math.floor(mem * nc),
               "nwchem": math.floor(mem), "qchem": math.floor(mem * nc)}.get(prog)
    if exp_mem is not None and P["mem"] != exp_mem:
        F.append((f"{site}|memory", f"memory {P['mem']} MB in the file; {spec['max_core_mb']} MB per core x {nc} cores needs {exp_mem}"))
    if prog in ("orca", "g09", "g16"):
        if (P["cores"] or 1) != nc:
            F.append((f"{site}|cores", f"{P['cores']} cores in the file, {nc} requested"))
    if prog == "qchem" and params and not ("-nt" in params and params[params.index("-nt") + 1] == str(nc)):
        F.append((f"{prog}.execute|cores", f"command line {params} does not request {nc} threads"))
    if prog == "nwchem" and params and not ("-np" in params and params[params.index("-np") + 1] == str(nc)):
        F.append((f"{prog}.execute|cores", f"command line {params} does not request {nc} processes"))
    if prog in ("xtb", "mopac") and params and ex.get("omp") != str(nc):
        F.append((f"{prog}.execute|cores", f"OMP_NUM_THREADS={ex.get('omp')} while the program runs, {nc} requested"))
    # solvent
    sn = res.get("solvent_names")
    if sn:
        if prog == "orca":
            want = ("smd", sn["prog"]) if spec["solv_type"] == "smd" else ("cpcm", sn.get("cpcm"))
            if P["solvent"] != want:
                F.append((f"{site}|solvent", f"solvent in the file {P['solvent']}, requested {sn['name']} -> {want}"))
        elif prog in ("g09", "g16", "nwchem", "qchem"):
            if P["solvent"] != ("smd", sn["prog"]):
                F.append((f"{site}|solvent", f"solvent in the file {P['solvent']}, requested {sn['name']} -> {sn['prog']}"))
        elif prog == "mopac":
            v = pnum(P["solvent"][1]) if P["solvent"] else None
            if v is None or abs(float(v) - float(sn["dielectric"])) > 1e-9 * abs(float(sn["dielectric"])):
                F.append((f"{site}|solvent", f"EPS in the file {P['solvent']}, solvent {sn['name']} has dielectric {sn['dielectric']}"))
        elif prog == "xtb":
            if P["solvent"] != ("title", sn["name"]):
                F.append((f"{site}|solvent", f"xyz title names solvent {P['solvent']}, species has {sn['name']}"))
            if params and not ("--gbsa" in params and params[params.index("--gbsa") + 1] == sn["prog"]):
                F.append((f"{prog}.execute|solvent", f"command line {params} lacks --gbsa {sn['prog']}"))
    elif P["solvent"] is not None:
        F.append((f"{site}|solvent", f"solvent {P['solvent']} in the file of a gas-phase species"))
    # Q-Chem multi-job inputs (TS optimisation: Hessian @@@ TS search @@@ Hessian): EVERY job must describe the species
    if prog == "qchem":
        jobs = P.get("jobs") or []
        is_ts = any("jobtype" in k.lower() and "ts" in k.lower() for k in res.get("requested_kw", []))
        if is_ts and len(jobs) != 3:
            F.append((f"{site}|job-count", f"{len(jobs)} jobs in the input of a TS optimisation (Hessian, TS search, Hessian expected)"))
        for jn, J in enumerate(jobs):
            where = f"job {jn + 1} of {len(jobs)}"
            if "$rem" not in J["sections"] or J["molecule"] is None:
                F.append((f"{site}|job-incomplete", f"{where} has sections {J['sections']}: $molecule and $rem are required"))
                continue
            if jn == 0 and J["molecule"] != "explicit":
                F.append((f"{site}|job-incomplete", f"{where} does not carry the geometry"))
            if J["molecule"] == "explicit":
                if (J["charge"], J["mult"]) != (spec["charge"], spec["mult"]):
                    F.append((f"{site}|charge", f"{where}: charge/multiplicity {J['charge']} {J['mult']}, species has {spec['charge']} {spec['mult']}"))
                ja = [read_atom_line(ln, prog) for ln in J["atom_lines"]]
                if len(ja) != n or any(a is None or a[0] != b[0] or any(abs(a[1 + c] - frac(b[1 + c])) > TOL for c in range(3))
                                       for a, b in zip(ja, spec["atoms"])):
                    F.append((f"{site}|coord-mismatch", f"{where}: the $molecule block does not list the species' atoms within 1e-5 A"))
            if pint(J["rem"].get("mem_total", "")) != exp_mem:
                F.append((f"{site}|memory", f"{where}: mem_total {J['rem'].get('mem_total')}, {spec['max_core_mb']} MB x {nc} cores needs {exp_mem}"))
            if sn:
                if J["rem"].get("solvent_method", "").lower() != "smd" or J["smx"] != sn["prog"]:
                    F.append((f"{site}|solvent", f"{where}: solvent_method {J['rem'].get('solvent_method')!r}, $smx solvent {J['smx']!r}; "
                              f"the species is in {sn['name']} ({sn['prog']}): every job must name it"))
            elif J["smx"] is not None or "solvent_method" in J["rem"]:
                F.append((f"{site}|solvent", f"{where} requests a solvent model for a gas-phase species"))
    # constraints
    is_opt = spec["kwtype"] in ("opt", "optts")
    want_d = {(min(i, j), max(i, j)): d for i, j, d in spec["dist"]}
    want_c = sorted(set(spec["cart"]))
    if prog in INDEX_BASE:
        got_d = {(min(i, j), max(i, j)): (d, txt) for i, j, d, ln, txt in P["dist"]}
        must = is_opt or prog in ("orca", "g09", "g16") or (prog == "xtb" and bool(spec["pcs"]))
        if must or got_d:
            if set(got_d) != set(want_d):
                F.append((f"{site}|dist-constraint", f"distance constraints on pairs {sorted(got_d)} (0-based after removing the program's "
                          f"index base {INDEX_BASE[prog]}) in the file, requested {sorted(want_d)}"))
            else:
                tol = Fraction(1, 10000) if prog == "xtb" else TOL
                for pr, (d, txt) in got_d.items():
                    if d is not None and spec.get("dist_unit") and abs(d - frac(want_d[pr])) > tol and \
                            abs(d - frac(in_unit(want_d[pr], spec["dist_unit"]))) <= tol:
                        F.append((f"{site}|dist-constraint-units-ignored",
                                  f"constraint {pr} given as Distance({in_unit(want_d[pr], spec['dist_unit'])!r}, units="
                                  f"{spec['dist_unit']!r}) = {want_d[pr]!r} A: the file says {txt} (the magnitude is written as if it were Angstrom)"))
                        res["units_ignored"] = True
                        break
                    if d is None or abs(d - frac(want_d[pr])) > tol:
                        F.append((f"{site}|dist-value", f"constrained distance {pr}: {txt} in the file, requested {want_d[pr]!r}"))
        got_c = sorted(i for i, _ in P["cart"])
        if must or got_c:
            if got_c != want_c:
                F.append((f"{site}|cart-constraint", f"frozen atoms {got_c} (0-based after removing the index base {INDEX_BASE[prog]}) "
                          f"in the file, requested {want_c}"))
        if prog in ("g09", "g16"):
            fr = sorted((min(i, j), max(i, j)) for i, j, _ in P.get("freeze", []))
            if fr != sorted(want_d):
                F.append((f"{site}|dist-constraint", f"frozen bonds {fr} in the file, requested {sorted(want_d)}"))
        want_b = sorted((min(i, j), max(i, j)) for i, j in spec["bonds"]) if spec.get("molecule") else []
        got_b = sorted((min(i, j), max(i, j)) for i, j, _ in P["internal"])
        if prog in ("orca", "g09", "g16") or (prog == "qchem" and is_opt):
            if got_b != want_b:
                F.append((f"{site}|internal", f"added internal coordinates {got_b} (0-based) in the file, active bonds {want_b}"))
    if prog == "mopac" and len(P["atoms"]) == n:
        frozen = sorted(k for k, a in enumerate(P["atoms"]) if a[4])
        want_f = sorted(set(want_c) | {i for pr in want_d for i in pr})
        if frozen != want_f:
            F.append((f"{site}|cart-constraint", f"atoms with optimisation flag 0: {frozen}, requested frozen {want_f}"))
    # point charges
    if spec["pcs"] and prog != "mopac":
        got = P["pcs"]
        if len(got) != len(spec["pcs"]) or (P["pc_count"] is not None and P["pc_count"][0] != len(spec["pcs"])):
            F.append((f"{site}|point-charge", f"{len(got)} point charges (count line {P['pc_count']}) for {len(spec['pcs'])} requested"))
        else:
            for k, (g, w) in enumerate(zip(got, spec["pcs"])):
                if any(v is None for v in g[:4]) or abs(g[0] - frac(w[0])) > Fraction(1, 10**7) or \
                        any(abs(g[1 + c] - frac(w[1 + c])) > TOL for c in range(3)):
                    F.append((f"{site}|point-charge", f"point charge {k}: file {[float(v) if v is not None else None for v in g[:4]]}, requested {w}"))
                    break
    if spec["pcs"] and prog == "mopac":
        pots = P.get("potentials")
        from autode.constants import Constants
        K = Constants.ha_to_kcalmol * Constants.a0_to_ang
        want = []
        for a in ref:
            v = 0.0
            for q, x, y, z in spec["pcs"]:
                v += q / math.sqrt((a[1] - x) ** 2 + (a[2] - y) ** 2 + (a[3] - z) ** 2)
            want.append(K * v)
        if pots is None or len(pots) != n or P.get("pot_header", "").split() != [str(n), "0"]:
            F.append((f"{site}|point-charge", f"mol.in lists {None if pots is None else len(pots)} potentials (header {P.get('pot_header')!r}) for {n} atoms"))
        elif any(p is None or abs(float(p) - w) > 1e-9 * max(1.0, abs(w)) for p, w in zip(pots, want)):
            F.append((f"{site}|point-charge", f"electrostatic potentials at the atoms {[float(p) for p in pots][:3]}.. differ from sum q/r {want[:3]}.."))
        if "QMMM" not in res["files"][res["main"]].split("\n")[0].split():
            F.append((f"{site}|point-charge", "QMMM keyword missing although point charges were given"))
    # effective core potentials: written for exactly the elements with Z >= ECP.min_atomic_number
    if res.get("ecp") and prog in ("qchem", "nwchem", "g09", "g16"):
        E = res["ecp"]
        want_el = sorted(l for l, z in E["z"].items() if z >= E["min_z"])
        Lm = res["files"][res["main"]].split("\n")
        got_el, where = None, ""
        if prog == "qchem":
            has = any(ln.split()[:1] == ["ecp"] and ln.split()[1:] == E["name"].split() for ln in Lm)
            got_el = want_el if has == bool(want_el) else ([] if want_el else ["<ecp line present>"])
            where = "$rem `ecp` line"
        elif prog == "nwchem":
            got_el, inb = [], False
            for ln in Lm:
                t = ln.split()
                if t == ["ecp"]:
                    inb = True
                elif inb and t == ["end"]:
                    inb = False
                elif inb and len(t) >= 3 and t[1] == "library":
                    got_el.append(t[0] if " ".join(t[2:]) == E["name"] else t[0] + "?")
            got_el, where = sorted(got_el), "`ecp ... end` block"
        else:
            route = next((ln for ln in Lm if ln.startswith("#")), "")
            gbs = res["files"].get("basis.gbs", "")
            secs = [b for b in gbs.split("\n\n") if b.strip()]
            got_el = sorted(secs[-1].split("\n")[0].split()[:-1]) if len(secs) >= 2 else []
            if ("genecp" in route.lower().split()) != bool(want_el) or (want_el and E["name"] not in gbs):
                got_el = got_el + ["<genecp/route mismatch>"]
            where = "genecp + basis.gbs ECP section"
        if got_el != want_el:
            F.append((f"{site}|ecp-threshold", f"ECP {E['name']} (min_atomic_number {E['min_z']}), atoms {E['z']}: the {where} covers "
                      f"{got_el}, elements with Z >= {E['min_z']} are {want_el}"))
    # keywords
    hay = " ".join(res["files"].values()).lower() + " " + " ".join(p for p in params if p).lower()
    haywords = set(words_of(hay))
    garbled = any(k.endswith("single-atom-opt-rewrite-hits-dft-block") for k, _ in F)
    for desc, words, why in res["kw_expected"]:
        if garbled and "functional" in desc.lower():
            continue
        if prog == "xtb" and not params:      # xTB takes its keywords on the command line only
            continue
        if why == "DROPPED":
            # xTB (`--cycles N`) and MOPAC (`CYCLES=N`) have a cycle limit, the wrappers drop the request silently
            if prog == "mopac" and not any(w.startswith("cycles") for w in haywords):
                F.append((f"{site}|keyword-dropped:MaxOptCycles", f"requested {desc} is filtered out of the MOPAC keyword line "
                          "(MOPAC.py:31-35) although MOPAC has CYCLES=n; it is neither written nor rejected"))
            if prog == "xtb" and "--cycles" not in params:
                F.append((f"{prog}.execute|keyword-dropped:MaxOptCycles", f"requested {desc} is removed from the keywords before the "
                          "command line is built (XTB.py:194-197) although xtb has --cycles; it is neither passed nor rejected"))
            continue
        if why:
            continue
        missing = [w for w in words if w not in haywords and w not in hay]
        if missing:
            F.append((f"{site}|keyword-dropped", f"requested keyword {desc} does not appear in the input (missing {missing})"))
            break
    if prog == "xtb" and params:
        xc = [fn for fn in res["files"] if fn.startswith("xcontrol")]
        if xc and not ("--input" in params and params[params.index("--input") + 1] == xc[0]):
            F.append((f"{prog}.execute|xcontrol-not-passed", f"constraints / point charges were written to {xc[0]} but the command line "
                      f"{params} does not pass it with --input"))
    return F, P


def first_diff(a, b):
    for k, (x, y) in enumerate(zip(a["coords"], b["coords"])):
        if x != y:
            return f"{k}: {[float.fromhex(v) for v in x]} -> {[float.fromhex(v) for v in y]}"
    return "-"


# ----------------------------------------------------------------------------- Coq terms for one case
def has_negzero(vals):
    return any(v == 0.0 and math.copysign(1.0, v) < 0 for v in vals)


def coq_terms_for(spec, res, P, ctx):
    """One bool term: the Coq readers on the exact lines, and the Coq writer model against them."""
    prog = spec["prog"]
    p = COQP[prog]
    parts = []
    ref, moved = spec["atoms"], set()
    if prog == "mopac" and spec["dist"]:
        ref, moved = mopac_expected_atoms(spec)
        if res.get("ref_override"):
            ref = res["ref_override"]
    wp = "XYZ" if prog == "xtb" else p      # the xTB input is the xyz writer
    if len(P["atom_lines"]) == len(ref):
        for ka, (ln, a, pa) in enumerate(zip(P["atom_lines"], ref, P["atoms"])):
            if not ascii_ok(ln):
                return None
            fixed = "true" if pa[4] else "false"
            parts.append(f"check_atom {wp} {fixed} {cs(ln)} {cs(a[0])} {qq(a[1])} {qq(a[2])} {qq(a[3])}")
            if has_negzero(a[1:4]):
                ctx.hist("coq-lines", "negative-zero-writer-skipped")
            elif ka in moved:
                # the exact doubles of the interpolated position are the implementation's: reader check only
                ctx.hist("coq-lines", "mopac-interpolated-atom-writer-skipped")
            else:
                k = "LCoordFixed" if pa[4] else "LCoord"
                parts.append(f"check_render {wp} {k} (mk_env {cs(a[0])} {qq(a[1])} {qq(a[2])} {qq(a[3])} 0 0 0 0 0 0 0 \"0\" \"0\") {cs(ln)}")
    else:
        parts.append("false")
    for kind, ln in P["cm_lines"]:
        if kind in ("LChargeMult", "LCharge"):
            parts.append(f"check_int {p} {kind} FChg {cs(ln)} {zz(spec['charge'])}")
            parts.append(f"check_render {p} {kind} (mk_env \"X\" 0 0 0 0 0 {zz(spec['charge'])} {zz(spec['mult'])} 0 0 0 \"0\" \"0\") {cs(ln)}")
        if kind in ("LChargeMult", "LMult", "LNopen"):
            parts.append(f"check_int {p} {kind} FMult {cs(ln)} {zz(spec['mult'])}")
            if kind != "LChargeMult":
                parts.append(f"check_render {p} {kind} (mk_env \"X\" 0 0 0 0 0 0 {zz(spec['mult'])} 0 0 0 \"0\" \"0\") {cs(ln)}")
    if prog == "nwchem" and res.get("nw_texts") is not None:
        n1 = len(spec["atoms"]) == 1
        ks = "[" + "; ".join("mkNw %s %s %s %s" % tuple("true" if b else "false" for b in (
            t.lower().startswith("dft"), t.lower().startswith("scf"), "nopen" in t, ("opt" in t.lower()) and n1))
            for t in res["nw_texts"]) + "]"
        tscf = "true" if any("task scf" in t.lower() for t in res["nw_texts"]) else "false"
        nm = sum(1 for k, _ in P["cm_lines"] if k == "LMult")
        nn = sum(1 for k, _ in P["cm_lines"] if k == "LNopen")
        parts.append(f"check_nw_spin {tscf} {ks} {nm}%nat {nn}%nat")
    if prog == "xtb":
        parts.append(f"check_title {cs(P['title'])} {zz(spec['charge'])} {zz(spec['mult'])}")
        parts.append(f"check_int XYZ LNAtoms FN {cs(P['natoms_line'])} {zz(len(spec['atoms']))}")
    if prog in INDEX_BASE:
        want_d = {(min(i, j), max(i, j)): d for i, j, d in spec["dist"]}
        for i, j, d, ln, txt in P["dist"]:
            if (min(i, j), max(i, j)) not in want_d or not ascii_ok(ln):
                continue
            w = want_d[(min(i, j), max(i, j))]
            parts.append(f"check_int {p} LDist FI {cs(ln)} {zz(i)}")
            parts.append(f"check_int {p} LDist FJ {cs(ln)} {zz(j)}")
            if res.get("units_ignored"):
                ctx.hist("coq-lines", "distance-units-ignored-value-skipped")
            elif DEC.match(txt):
                tol = "(Qmake 1 10000)" if prog == "xtb" else "tol5"
                parts.append(f"check_q {p} LDist FDist {cs(ln)} {tol} {qq(w)}")
                parts.append(f"check_render {p} LDist (mk_env \"X\" 0 0 0 0 {qq(w)} 0 0 {zz(i)} {zz(j)} 0 {cs(txt)} \"0\") {cs(ln)}")
        for i, ln in P["cart"]:
            if prog != "xtb":
                parts.append(f"check_int {p} LCart FI {cs(ln)} {zz(i)}")
                parts.append(f"check_render {p} LCart (mk_env \"X\" 0 0 0 0 0 0 0 {zz(i)} 0 0 \"0\" \"0\") {cs(ln)}")
        if prog == "xtb" and P["cart_line"]:
            parts.append(f"check_xtb_atoms {cs(P['cart_line'])} [" + "; ".join(zz(i) for i in sorted(set(spec["cart"]))) + "]")
        for i, j, ln in P["internal"]:
            parts.append(f"check_int {p} LInternal FI {cs(ln)} {zz(i)}")
            parts.append(f"check_int {p} LInternal FJ {cs(ln)} {zz(j)}")
            parts.append(f"check_render {p} LInternal (mk_env \"X\" 0 0 0 0 0 0 0 {zz(i)} {zz(j)} 0 \"0\" \"0\") {cs(ln)}")
        for i, j, ln in P.get("freeze", []):
            parts.append(f"check_int {p} LDistFreeze FI {cs(ln)} {zz(i)}")
            parts.append(f"check_int {p} LDistFreeze FJ {cs(ln)} {zz(j)}")
            parts.append(f"check_render {p} LDistFreeze (mk_env \"X\" 0 0 0 0 0 0 0 {zz(i)} {zz(j)} 0 \"0\" \"0\") {cs(ln)}")
    if spec["pcs"] and prog in ("orca", "g09", "g16", "nwchem", "xtb") and len(P["pcs"]) == len(spec["pcs"]):
        for g, w in zip(P["pcs"], spec["pcs"]):
            ln = g[4]
            for f, v in (("FQ", w[0]), ("FX", w[1]), ("FY", w[2]), ("FZ", w[3])):
                parts.append(f"check_q {p} LPointCharge {f} {cs(ln)} tol5 {qq(v)}")
            if not has_negzero(w):
                parts.append(f"check_render {p} LPointCharge (mk_env \"X\" {qq(w[1])} {qq(w[2])} {qq(w[3])} {qq(w[0])} 0 0 0 0 0 0 \"0\" \"0\") {cs(ln)}")
        if P["pc_count"] is not None:
            parts.append(f"check_int {p} LNAtoms FN {cs(P['pc_count'][1])} {zz(len(spec['pcs']))}")
            parts.append(f"check_render {p} LNAtoms (mk_env \"X\" 0 0 0 0 0 0 0 0 0 {zz(len(spec['pcs']))} \"0\" \"0\") {cs(P['pc_count'][1])}")
    return "all [" + ";\n    ".join(parts) + "]"


# ----------------------------------------------------------------------------- regeneration in one directory
def regen_variant(rng, spec, what=None):
    """The same calculation (name, species name, charge, mult, keywords, solvent) after something the file must
    reflect has changed: geometry, core count, memory, or the constraints."""
    import copy
    s2 = copy.deepcopy(spec)
    what = what or rng.choice(["coords", "coords", "cores", "memory", "constraints"])
    if what == "coords":
        for a in s2["atoms"]:
            for c in (1, 2, 3):
                a[c] = a[c] + rng.choice([0.25, -0.5, 1e-3, 0.125])
    elif what == "cores":
        s2["n_cores"] = {1: 4, 2: 8, 4: 2, 8: 16, 16: 1}[spec["n_cores"]]
    elif what == "memory":
        s2["max_core_mb"] = 3000.0 if spec["max_core_mb"] != 3000.0 else 1250.0
    else:
        n = len(spec["atoms"])
        s2["cart"] = sorted(set(range(n)) - set(spec["cart"]))[:3]
    return what, s2


def regen_cases(ctx, rng, n_per_prog, nmax, workdir, fail):
    """generate_input twice in ONE directory with the calculation register enabled (the package default):
    the second file set must describe the CURRENT species / settings.  -> (Coq terms, descriptions)"""
    terms, descr = [], []
    c = 0
    for prog in PROGS:
        for r in range(n_per_prog):
            spec1 = gen_spec(rng, prog, rng.choice(KWTYPES), nmax)
            if prog == "qchem":
                spec1["pcs"] = []
            what, spec2 = regen_variant(rng, spec1, ["coords", "cores", "memory", "constraints", None][min(r, 4)])
            wd = os.path.join(workdir, f"r{c}")
            c += 1
            res1 = run_case(spec1, wd, registry=True)
            res2 = run_case(spec2, wd, registry=True)
            rep = {"kind": "regen", "changed": what, "specs": [spec1, spec2]}
            ctx.count("regenerate", (prog, what, repr(spec2)), res2["main"] is not None,
                      sample={"prog": prog, "changed": what, "kwtype": spec1["kwtype"], "n_atoms": len(spec1["atoms"])})
            ctx.hist("regenerate", f"{prog}:{what}")
            if res1["rejected"] or res1["error"]:
                continue
            F, P = check_case(spec2, res2)
            for k, w in F:
                site, cls = k.split("|", 1)
                if cls in PASS_KEYS:
                    fail(k, w, rep)
                else:
                    fail(f"{site}|regenerated-after-{what}-change:{cls}",
                         f"second generate_input in the same directory after the {what} changed: " + w, rep)
            if P is not None:
                t = coq_terms_for(spec2, res2, P, ctx)
                if t is not None:
                    terms.append(t)
                    descr.append(rep)
    return terms, descr


# ----------------------------------------------------------------------------- same species object updated between two files
def apply_ops(mol, ops):
    """Update a live species through its public API (the way user code / the package does between calculations)."""
    import numpy as np
    for op, arg in ops:
        if op == "cart":
            mol.constraints.update(cartesian=list(arg))
        elif op == "dist":
            mol.constraints.update(distance={(arg[0], arg[1]): arg[2]})
        elif op == "coords":
            mol.coordinates = np.array(arg)
        elif op == "charge":
            mol.charge = arg


def sameobj_cases(ctx, rng, n_per_prog, nmax, workdir, fail):
    """Write an input, update THE SAME species object (constraints.update, coordinates, charge), write again:
    the second input must describe the updated species (covers state cached inside Species / Constraints / Atoms)."""
    import copy
    terms, descr = [], []
    c = 0
    for prog in PROGS:
        for r in range(n_per_prog):
            spec1 = gen_spec(rng, prog, "opt", max(4, nmax))
            while len(spec1["atoms"]) < 4:
                spec1 = gen_spec(rng, prog, "opt", max(4, nmax))
            n = len(spec1["atoms"])
            spec1.update({"pcs": [], "dist_unit": None, "cart": sorted(rng.sample(range(n), 2)), "solvent": None, "kwsrc": "default"})
            spec1["mult"] = min(spec1["mult"], 3) if prog == "mopac" else spec1["mult"]
            ops = []
            spec2 = copy.deepcopy(spec1)
            free = [k for k in range(n) if k not in spec1["cart"]]
            newc = sorted(rng.sample(free, min(len(free), rng.choice([1, 2]))))
            ops.append(["cart", newc])
            spec2["cart"] = sorted(set(spec1["cart"]) | set(newc))
            used = {(min(i, j), max(i, j)) for i, j, _ in spec1["dist"]}
            a, b = sorted(rng.sample(range(n), 2))
            if (a, b) not in used and rng.random() < 0.6 and not all(abs(spec1["atoms"][a][k] - spec1["atoms"][b][k]) < 1e-3 for k in (1, 2, 3)):
                d = rng.choice([1.1, 1.75, 2.5])
                ops.append(["dist", [a, b, d]])
                spec2["dist"] = spec2["dist"] + [[a, b, d]]
            if rng.random() < 0.5 and not spec2["dist"]:
                newxyz = [[x + 0.5, y - 0.25, z + 0.125] for _, x, y, z in spec1["atoms"]]
                ops.append(["coords", newxyz])
                spec2["atoms"] = [[a_[0]] + xyz for a_, xyz in zip(spec1["atoms"], newxyz)]
            if rng.random() < 0.4:
                spec2["charge"] = spec1["charge"] + (2 if spec1["charge"] <= 0 else -2)
                ops.append(["charge", spec2["charge"]])
            mol = build_species(spec1)
            res1 = run_case(spec1, os.path.join(workdir, f"s{c}a"), mol=mol)
            rep = {"kind": "sameobj", "specs": [spec1, spec2], "ops": ops}
            ctx.count("species-updated", (prog, repr(ops), repr(spec1)), res1["main"] is not None,
                      sample={"prog": prog, "ops": [o for o, _ in ops], "n_atoms": n})
            ctx.hist("species-updated", f"{prog}:{'+'.join(o for o, _ in ops)}")
            c += 1
            if res1["rejected"] or res1["error"]:
                continue
            apply_ops(mol, ops)
            res2 = run_case(spec2, os.path.join(workdir, f"s{c}b"), mol=mol)
            F, P = check_case(spec2, res2)
            for k, w in F:
                site, cls = k.split("|", 1)
                if cls in PASS_KEYS:
                    fail(k, w, rep)
                else:
                    fail(f"{site}|after-species-update:{cls}",
                         f"input written after the same species object was updated by {[o for o, _ in ops]}: " + w, rep)
            if P is not None:
                t = coq_terms_for(spec2, res2, P, ctx)
                if t is not None:
                    terms.append(t)
                    descr.append(rep)
    return terms, descr


# ----------------------------------------------------------------------------- inputs the wrappers regenerate themselves (retry paths)
def fake_gaussian_log(inp_text, name):
    """What a Gaussian run prints, as far as the wrapper reads it: the input orientation, an SCF energy and either a
    normal termination or the 180-degree bend failure (first run only)."""
    from autode.atoms import elements
    lines = inp_text.split("\n")
    S = sections(lines)
    atoms = [ln.split() for ln in S[2][1:]] if len(S) > 2 else []
    out = [" Entering Gaussian System", " Gaussian 09:  ES64L-G09RevD.01 24-Apr-2013",
           "                         Input orientation:",
           " ---------------------------------------------------------------------",
           " Center     Atomic      Atomic             Coordinates (Angstroms)",
           " Number     Number       Type             X           Y           Z",
           " ---------------------------------------------------------------------"]
    for i, a in enumerate(atoms):
        out.append(f"  {i + 1:5d} {elements.index(a[0]) + 1:10d} {0:11d} {float(a[1]):15.6f} {float(a[2]):11.6f} {float(a[3]):11.6f}")
    out += [" ---------------------------------------------------------------------",
            " SCF Done:  E(RPBE1PBE) =  -40.4155012345     A.U. after    9 cycles"]
    if name.endswith("_cartesian") or name.endswith("_internal"):
        out += [" Optimization completed.", " Normal termination of Gaussian 09 at Sat Jan  9 11:00:00 2021."]
    else:
        out += [" Bend failed for angle     2 -     1 -     3", " Error termination via Lnk1e in /g09/l103.exe"]
    return "\n".join(out) + "\n"


def retry_one(spec, wd):
    """Run the calculation with a recorder in place of Gaussian that reports the bend failure for the first input.
    -> result dict holding the wrapper-regenerated <name>_internal.com (main None if the retry path was not taken)"""
    import autode as ade
    import autode.wrappers.G09 as g09_mod
    from autode.calculations import Calculation
    prog, n = spec["prog"], len(spec["atoms"])
    os.makedirs(wd, exist_ok=True)
    here = os.getcwd()
    os.chdir(wd)
    old_core = ade.Config.max_core
    os.environ["AUTODE_FIXUNIQUE"] = "False"
    res = {"files": {}, "main": None, "error": None, "rejected": None, "before": None, "after": None, "kw_expected": [],
           "requested_kw": [], "solvent_names": None, "listing": []}

    def fake_run(params, output_filename, stderr_to_log=True):
        with open(output_filename, "w") as f:
            f.write(fake_gaussian_log(open(params[1]).read(), os.path.basename(params[1])[:-4]))
    try:
        ade.Config.max_core = spec["max_core_mb"]
        method = method_for(prog)
        method.path = sys.executable           # only has to exist: the program is never started
        mol = build_species(spec)
        kw = keywords_for(spec, method)
        res["before"] = snapshot(mol)
        calc = Calculation(name="b", molecule=mol, method=method, keywords=kw, n_cores=spec["n_cores"])
        res["requested_kw"] = [repr(k) for k in calc.input.keywords]
        res["kw_expected"] = expected_keyword_words(spec, calc.input.keywords, method, n, False)
        run_error = None
        with patched(g09_mod, "run_external", fake_run):
            try:
                calc.run()
            except Exception as e:   # noqa
                run_error = f"{type(e).__name__}: {e}"
        res["listing"] = sorted(os.listdir("."))
        internal = [fn for fn in res["listing"] if fn.endswith("_internal.com")]
        if not internal:
            res["run_error"] = run_error
            return res
        res["main"] = internal[0]
        res["files"] = {internal[0]: open(internal[0]).read()}
        if os.path.exists("basis.gbs"):
            res["files"]["basis.gbs"] = open("basis.gbs").read()
        if mol.solvent is not None:
            res["solvent_names"] = {"name": mol.solvent.name, "prog": mol.solvent.g09, "dielectric": None}
        # the first run already "ended": set_properties put the geometry echoed by the program (6 decimals) into the
        # species before the retry copied the calculation, so that is the geometry the regenerated input must hold
        res["spec_now"] = {**spec, "atoms": [[a.label] + [float(x) for x in a.coord] for a in mol.atoms]}
    finally:
        ade.Config.max_core = old_core
        os.chdir(here)
    return res


def retry_cases(ctx, rng, n_per_prog, workdir, fail):
    """Gaussian's automatic retry after `Bend failed for angle` (G09._rerun_angle_failure): the wrapper itself generates
    <name>_cartesian.com (deliberately unconstrained) and <name>_internal.com, whose output becomes the user's result:
    the regenerated _internal input must describe the user's species like the first one."""
    terms, descr = [], []
    c = 0
    for prog in ("g09", "g16"):
        for r in range(n_per_prog):
            spec = gen_spec(rng, prog, "opt", 8)
            while not (3 <= len(spec["atoms"]) and all(a[0] in ELEMENTS[:8] for a in spec["atoms"])):
                spec = gen_spec(rng, prog, "opt", 8)
            n = len(spec["atoms"])
            spec.update({"pcs": [], "dist_unit": None, "kwsrc": "custom", "bonds": [], "molecule": True, "max_cycles": None,
                         "solvent": rng.choice([None, "water"]), "mem_unit": "MB",
                         "cart": sorted(rng.sample(range(n), rng.choice([1, 2])))})
            if not spec["dist"]:
                a, b = sorted(rng.sample(range(n), 2))
                if all(abs(spec["atoms"][a][k] - spec["atoms"][b][k]) < 1e-3 for k in (1, 2, 3)):
                    spec["atoms"][b][1] += 1.25
                spec["dist"] = [[a, b, 1.2345]]
            res = retry_one(spec, os.path.join(workdir, f"f{c}"))
            c += 1
            rep = {"kind": "retry", "spec": spec}
            ctx.count("retry-inputs", (prog, repr(spec)), res["main"] is not None,
                      sample={"prog": prog, "n_atoms": n, "files": res["listing"][:8]})
            ctx.hist("retry-inputs", f"{prog}:{'regenerated' if res['main'] else 'retry-path-not-taken'}")
            if res["main"] is None:
                if res.get("run_error"):
                    ctx.hist("retry-inputs", "run-error:" + res["run_error"].split(":")[0])
                continue
            spec_now = res["spec_now"]
            if any(abs(a[c] - b[c]) > 1e-6 for a, b in zip(spec_now["atoms"], spec["atoms"]) for c in (1, 2, 3)):
                fail(f"{prog}.rerun_angle_failure|geometry-changed", "the species' geometry after the retried run differs from the "
                     "geometry the recorder echoed (identical to the input up to 6 decimals)", rep)
            F, P = check_case(spec_now, res)
            for k, w in F:
                site, cls = k.split("|", 1)
                if cls in PASS_KEYS:
                    fail(k, w, rep)
                    continue
                fail(f"{prog}.rerun_angle_failure|{cls}",
                     f"input {res['main']} regenerated by the wrapper after `Bend failed for angle`: " + w, rep)
            if P is not None:
                t = coq_terms_for(spec_now, res, P, ctx)
                if t is not None:
                    terms.append(t)
                    descr.append(rep)
    return terms, descr


# ----------------------------------------------------------------------------- xyz / trajectory writers
def xyz_one(writer, spec, frames, fn, fail):
    """Write `frames` of the species with one of the xyz / trajectory writers and re-read the file.
    -> list of Coq sub-terms, or None when an oracle already failed."""
    import autode as ade
    import numpy as np
    from autode.atoms import Atom
    from autode.input_output import atoms_to_xyz_file
    from autode.path.path import Path
    nfr = len(frames)
    rep = {"kind": "xyz", "writer": writer, "spec": spec, "frames": frames}
    mol = build_species({**spec, "dist": [], "cart": [], "bonds": [], "molecule": False})
    before = snapshot(mol)
    if os.path.exists(fn):
        os.remove(fn)
    try:
        if writer == "atoms_to_xyz_file":
            for k, fr in enumerate(frames):
                atoms_to_xyz_file([Atom(*a) for a in fr], fn, title_line=f"frame {k}", append=(k > 0))
        elif writer == "print_xyz_file":
            for k, fr in enumerate(frames):
                m2 = mol.copy()
                m2.coordinates = np.array([[a[1], a[2], a[3]] for a in fr])
                m2.print_xyz_file(filename=fn, append=(k > 0))
        elif writer == "path":
            imgs = []
            for k, fr in enumerate(frames):
                m2 = mol.copy()
                m2.coordinates = np.array([[a[1], a[2], a[3]] for a in fr])
                m2.energy = -1.5 - 0.25 * k
                imgs.append(m2)
            Path(*imgs).print_geometries(name=fn[:-4])
        else:
            from autode.opt.coordinates import CartesianCoordinates
            from autode.opt.optimisers.base import print_geometries_from
            trj = []
            for k, fr in enumerate(frames):
                cc = CartesianCoordinates(np.array([[a[1], a[2], a[3]] for a in fr]).flatten())
                cc.e = ade.values.PotentialEnergy(-2.0 - 0.125 * k)
                trj.append(cc)
            print_geometries_from(trj, mol, fn)
    except Exception as e:  # noqa
        fail(f"{writer}|crash", f"{writer} raised {type(e).__name__}: {e}", rep)
        return None
    if before != snapshot(mol):
        fail(f"{writer}|species-modified", "writing the xyz file changed the species", rep)
    L = open(fn).read().split("\n")
    n = len(spec["atoms"])
    if len([x for x in L if x != ""]) != nfr * (n + 2):
        fail(f"{writer}|frame-count", f"{len(L)} lines for {nfr} frames of {n} atoms", rep)
        return None
    parts = []
    for k, fr in enumerate(frames):
        blk = L[k * (n + 2):(k + 1) * (n + 2)]
        if len(blk) < n + 2 or pint(blk[0].strip()) != n:
            fail(f"{writer}|atom-count", f"frame {k}: count line {blk[:1]} for {n} atoms", rep)
            return None
        parts.append(f"check_int XYZ LNAtoms FN {cs(blk[0])} {zz(n)}")
        if writer != "atoms_to_xyz_file":
            t = blk[1].split()
            cm = {t[i]: t[i + 2] for i in range(len(t) - 2) if t[i + 1] == "="}
            if cm.get("charge") != str(spec["charge"]) or cm.get("mult") != str(spec["mult"]):
                fail(f"{writer}|charge-mult", f"title line {blk[1]!r} for charge {spec['charge']} mult {spec['mult']}", rep)
            if ascii_ok(blk[1]):
                parts.append(f"check_title {cs(blk[1])} {zz(spec['charge'])} {zz(spec['mult'])}")
            if spec["solvent"] and mol.solvent is not None and mol.solvent.name not in blk[1]:
                fail(f"{writer}|solvent", f"title line {blk[1]!r} does not name the solvent {mol.solvent.name}", rep)
        for i, (ln, a) in enumerate(zip(blk[2:], fr)):
            r = read_atom_line(ln, "xyz")
            if r is None or r[0] != a[0]:
                fail(f"{writer}|atom-order", f"frame {k} atom {i}: line {ln!r} for {a}", rep)
                return None
            if any(abs(r[1 + c] - frac(a[1 + c])) > TOL for c in range(3)):
                fail(f"{writer}|coord-mismatch", f"frame {k} atom {i}: line {ln!r} for {a}", rep)
                return None
            parts.append(f"check_atom XYZ false {cs(ln)} {cs(a[0])} {qq(a[1])} {qq(a[2])} {qq(a[3])}")
            if not has_negzero(a[1:4]):
                parts.append(f"check_render XYZ LCoord (mk_env {cs(a[0])} {qq(a[1])} {qq(a[2])} {qq(a[3])} 0 0 0 0 0 0 0 \"0\" \"0\") {cs(ln)}")
    return parts


def xyz_cases(ctx, rng, n_cases, nmax, workdir, fail):
    """atoms_to_xyz_file, Species.print_xyz_file (single + appended trajectory), Path.print_geometries,
    print_geometries_from.  -> Coq terms"""
    terms, descr = [], []
    os.makedirs(workdir, exist_ok=True)
    here = os.getcwd()
    os.chdir(workdir)
    try:
        for c in range(n_cases):
            spec = gen_spec(rng, "xyz", "sp", nmax)
            spec["solvent"] = rng.choice([None, "water", "thf"])
            nfr = rng.choice([1, 1, 2, 4])
            frames = [[[a[0], rand_coord(rng), rand_coord(rng), rand_coord(rng)] for a in spec["atoms"]] for _ in range(nfr)]
            frames[0] = spec["atoms"]
            writer = rng.choice(["atoms_to_xyz_file", "print_xyz_file", "path", "opt_trajectory"])
            ctx.count("xyz-writers", (writer, repr(frames)), True, sample={"writer": writer, "n_atoms": len(spec["atoms"]), "frames": nfr})
            ctx.hist("xyz-writers", writer)
            parts = xyz_one(writer, spec, frames, f"w{c}.xyz", fail)
            if parts is not None:
                terms.append("all [" + ";\n    ".join(parts) + "]")
                descr.append({"kind": "xyz", "writer": writer, "spec": spec, "frames": frames})
    finally:
        os.chdir(here)
    return terms, descr


def explicit_solvent_case(ctx, workdir, fail):
    """Species.print_xyz_file(with_solvent=True) of an explicitly solvated species: solute followed by the
    solvent atoms, and the species itself unchanged (species.py:1195-1202)."""
    import autode as ade
    os.makedirs(workdir, exist_ok=True)
    here = os.getcwd()
    os.chdir(workdir)
    try:
        mol = ade.Molecule(smiles="O", solvent_name="water", name="es")
        try:
            mol.explicitly_solvate(num=2)
        except Exception as e:  # noqa
            ctx.hist("xyz-writers", f"explicit-solvent-unavailable:{type(e).__name__}")
            return
        if mol.solvent is None or not mol.solvent.is_explicit:
            ctx.hist("xyz-writers", "explicit-solvent-unavailable")
            return
        n0, ns = mol.n_atoms, len(mol.solvent.atoms)
        labels0 = [a.label for a in mol.atoms]
        rep = {"kind": "explicit-solvent", "smiles": "O", "solvent": "water", "num": 2}
        for k in range(2):
            mol.print_xyz_file(filename="es.xyz")
            L = open("es.xyz").read().split("\n")
            ctx.count("xyz-writers", ("explicit", k), True, sample={"writer": "print_xyz_file(explicit solvent)", "call": k})
            ctx.hist("xyz-writers", "explicit-solvent")
            n_file = pint(L[0].strip())
            if mol.n_atoms != n0 or [a.label for a in mol.atoms] != labels0:
                fail("print_xyz_file|explicit-solvent-atoms-appended-to-species",
                     f"print_xyz_file (call {k + 1}) of an explicitly solvated species changed the species: {n0} atoms before, "
                     f"{mol.n_atoms} after (the {ns} solvent atoms are appended to the species' own atom list); the file lists {n_file} atoms", rep)
                return
            if n_file != n0 + ns:
                fail("print_xyz_file|explicit-solvent-atom-count", f"file lists {n_file} atoms for {n0} solute + {ns} solvent atoms", rep)
                return
    finally:
        os.chdir(here)


# ----------------------------------------------------------------------------- untranslatable keywords
def untranslatable_cases(ctx, rng, workdir, fail):
    """A Keyword that has a translation for ANOTHER program only must be rejected, not dropped."""
    import autode.wrappers.keywords as kws
    import autode.exceptions as aex
    n = 0
    for prog in PROGS:
        for other in ["orca", "g09", "qchem", "nwchem", "xtb"]:
            if other == prog or (prog == "g16" and other == "g09"):
                continue
            for kcls, nm in ((kws.Functional, "B3LYP"), (kws.BasisSet, "def2-QZVPP"), (kws.DispersionCorrection, "D4X"),
                             (kws.ECP, "def2-ECPX"), (kws.RI, "RIJX"), (kws.WFMethod, "MP2X"), (kws.ImplicitSolventType, "smdx")):
                if kcls in (kws.ECP, kws.RI, kws.WFMethod, kws.ImplicitSolventType) and other not in ("orca", "g09"):
                    continue
                spec = gen_spec(rng, prog, rng.choice(KWTYPES), 4)
                spec.update({"solvent": None, "pcs": [], "dist": [], "cart": [], "bonds": [], "kwsrc": "custom"})
                marker = f"zz{other}only{nm.lower().replace('-', '')}"
                kw_obj = kcls(name=nm, **{other: marker})
                res = run_untranslatable(spec, kw_obj, os.path.join(workdir, f"u{n}"))
                n += 1
                ctx.count("untranslatable", (prog, other, kcls.__name__), True,
                          sample={"prog": prog, "keyword": repr(kw_obj), "defined_for": other, "outcome": res["outcome"]})
                ctx.hist("untranslatable", res["outcome"].split(":")[0])
                if res["outcome"].startswith("accepted"):
                    txt = " ".join(res["files"].values())
                    fail(f"{prog}.generate_input|untranslatable-keyword-accepted",
                         f"{kw_obj!r} defined only for {other} was accepted for {prog}; the input "
                         f"{'contains the foreign text ' + marker if marker in txt else 'silently lacks it'}",
                         {"kind": "untranslatable", "spec": spec, "keyword": [kcls.__name__, nm, other, marker]})
    # a keyword defined for Gaussian 16 only is not a Gaussian 09 keyword
    spec = gen_spec(rng, "g09", "sp", 4)
    spec.update({"solvent": None, "pcs": [], "dist": [], "cart": [], "bonds": [], "kwsrc": "custom"})
    kw_obj = kws.Functional(name="B3LYP", g16="zzg16onlyb3lyp")
    res = run_untranslatable(spec, kw_obj, os.path.join(workdir, f"u{n}"))
    n += 1
    ctx.count("untranslatable", ("g09", "g16", "Functional"), True)
    ctx.hist("untranslatable", res["outcome"].split(":")[0])
    if res["outcome"].startswith("accepted"):
        fail("g09.generate_input|untranslatable-keyword-accepted", f"{kw_obj!r} defined only for g16 was accepted for g09",
             {"kind": "untranslatable", "spec": spec, "keyword": ["Functional", "B3LYP", "g16", "zzg16onlyb3lyp"]})
    # a keyword translated for the target AND for another program: accepted, the target's text is written, the other's is not
    for prog in ("orca", "g09", "g16", "nwchem", "qchem"):
        other = "orca" if prog != "orca" else "qchem"
        spec = gen_spec(rng, prog, "sp", 4)
        spec.update({"solvent": None, "pcs": [], "dist": [], "cart": [], "bonds": [], "kwsrc": "custom"})
        kw_obj = kws.BasisSet(name="def2-QZVPP", **{prog: "zzmine" + prog, other: "zzforeign" + other})
        res = run_untranslatable(spec, kw_obj, os.path.join(workdir, f"u{n}"))
        n += 1
        ctx.count("untranslatable", (prog, "both", "BasisSet"), True)
        ctx.hist("untranslatable", "both:" + res["outcome"].split(":")[0])
        txt = " ".join(res["files"].values()).lower()
        if not res["outcome"].startswith("accepted") or ("zzmine" + prog) not in txt or ("zzforeign" + other) in txt:
            fail(f"{prog}.generate_input|translated-keyword-not-written",
                 f"{kw_obj!r} with {prog}='zzmine{prog}' and {other}='zzforeign{other}': outcome {res['outcome']}, "
                 f"own text {'present' if ('zzmine' + prog) in txt else 'absent'}, foreign text {'present' if ('zzforeign' + other) in txt else 'absent'}",
                 {"kind": "untranslatable", "spec": spec, "keyword": ["BasisSet", "def2-QZVPP", prog, "zzmine" + prog]})
    return n


def run_untranslatable(spec, kw_obj, workdir):
    import autode.exceptions as aex
    import autode.wrappers.keywords as kws
    from autode.calculations import Calculation
    os.makedirs(workdir, exist_ok=True)
    here = os.getcwd()
    os.chdir(workdir)
    os.environ["AUTODE_FIXUNIQUE"] = "False"
    out = {"outcome": "?", "files": {}}
    try:
        method = method_for(spec["prog"])
        mol = build_species(spec)
        cls = {"sp": kws.SinglePointKeywords, "grad": kws.GradientKeywords, "opt": kws.OptKeywords,
               "optts": kws.OptTSKeywords, "hess": kws.HessianKeywords}[spec["kwtype"]]
        calc = Calculation(name="u", molecule=mol, method=method, keywords=cls([kw_obj]), n_cores=1)
        try:
            calc.generate_input()
            out["outcome"] = "accepted"
            for fn in calc.input.filenames:
                if fn and os.path.exists(fn):
                    out["files"][fn] = open(fn).read()
        except aex.UnsupportedCalculationInput:
            out["outcome"] = "UnsupportedCalculationInput"
        except Exception as e:  # noqa
            out["outcome"] = f"other-exception:{type(e).__name__}"
    finally:
        os.chdir(here)
    return out


# ----------------------------------------------------------------------------- main
def all_cases(ctx, full):
    rng = ctx.rng
    nmax = 60 if full else 15
    per = 12 if full else 2
    specs = []
    for prog in PROGS:
        for kt in KWTYPES:
            for r in range(per):
                specs.append(gen_spec(rng, prog, kt, nmax))
    # directed cases: 1-based/0-based edges, first and last atom constrained, widest fields
    for prog in PROGS:
        n = 12
        atoms = [["Cl" if k % 3 == 0 else "C", (-1) ** k * 1000.0 + k * 1e-6, -999.99999999 + k, 1e-6 * k] for k in range(n)]
        specs.append({"prog": prog, "atoms": atoms, "charge": 0, "mult": 1, "kwtype": "opt", "solvent": "water",
                      "solv_type": "smd" if prog == "orca" else None, "kwsrc": "default",
                      "dist": [[0, n - 1, 1.5], [9, 10, 2.25]], "cart": [0, 1, 2, 5, 9, 10, 11],
                      "pcs": [] if prog == "qchem" else [[1.0, 10.0, 1.0, 1.0]],
                      "bonds": [[0, 1]], "n_cores": 8, "max_core_mb": 2048.0, "max_cycles": 10, "molecule": True, "orca_v5": True})
        specs[-1]["mult"] = 1 if (sum(17 if a[0] == "Cl" else 6 for a in atoms)) % 2 == 0 else 2
    # directed inputs for clauses the random stream reaches only sometimes
    base = [["O", 0.0, 0.0, 0.0], ["H", 0.96, 0.0, 0.0], ["H", -0.24, 0.93, 0.0], ["C", 2.5, 0.125, -1.0], ["H", 3.1, 0.9, -1.5]]
    common = {"charge": 0, "mult": 2, "solvent": None, "solv_type": None, "kwsrc": "default", "cart": [], "pcs": [], "bonds": [],
              "n_cores": 2, "max_core_mb": 2000.0, "max_cycles": None, "molecule": True, "orca_v5": True, "dist_unit": None, "mem_unit": "GB"}
    for prog in ("orca", "g09", "g16", "qchem", "xtb", "mopac"):       # constraint handed over in nm / pm / bohr
        for unit in (("nm",) if not full else ("nm", "pm", "a0")):
            specs.append({**common, "prog": prog, "atoms": [list(a) for a in base], "kwtype": "opt",
                          "dist": [[0, 3, 1.5]], "dist_unit": unit})
    specs.append({**common, "prog": "nwchem", "atoms": [["O", 0.0, 0.0, 0.0]], "kwtype": "sp", "kwsrc": "nw-optx", "mult": 3, "dist": [],
                  "molecule": False})
    for src in sorted(NW_SETS):                                           # NWChem without a dft block, open shell
        specs.append({**common, "prog": "nwchem", "atoms": [list(a) for a in base], "kwtype": "sp", "kwsrc": src, "mult": 4,
                      "dist": []})
    for prog in ("xtb", "mopac", "orca", "g09", "qchem"):                # optimisation cycle limit
        specs.append({**common, "prog": prog, "atoms": [list(a) for a in base], "kwtype": "opt", "max_cycles": 7, "dist": [],
                      "mem_unit": "MB"})
    # atoms exactly at / just below / just above the ECP threshold (default 37 = Rb; custom 35 = Br)
    zof = {"Se": 34, "Br": 35, "Kr": 36, "Rb": 37, "Sr": 38, "C": 6, "H": 1}
    for prog in ("qchem", "nwchem", "g09", "g16", "orca"):
        for heavy, ecp_min in (("Kr", None), ("Rb", None), ("Sr", None), ("Se", 35), ("Br", 35)) + ((("Kr", 35), ("Rb", 38)) if full else ()):
            at = [["C", 0.0, 0.0, 0.0], ["H", 1.09, 0.0, 0.0], [heavy, -1.2, 1.5, 0.25]]
            ne = sum(zof[a[0]] for a in at)
            specs.append({**common, "prog": prog, "atoms": at, "kwtype": "sp", "dist": [], "mult": 1 + ne % 2, "molecule": False,
                          "ecp_min": ecp_min, "mem_unit": "MB"})
    # TS optimisations of solvated species: multi-job / multi-block inputs (Q-Chem: three jobs; ORCA: extra %geom block)
    for prog in PROGS:
        for src, solvent in (("default", "water"), ("custom", "dichloromethane")) + ((("default", "acetonitrile"),) if full else ()):
            sp = gen_spec(rng, prog, "optts", min(nmax, 12))
            sp.update({"kwsrc": src, "solvent": solvent, "pcs": [], "solv_type": "smd" if prog == "orca" and src == "custom" else
                       ("cpcm" if prog == "orca" else None), "n_cores": rng.choice([2, 4, 8])})
            if len(sp["atoms"]) == 1:
                sp["atoms"].append(["H", 0.7, 0.1, -0.2])
                sp["charge"], sp["mult"] = 0, 1 + sum(__import__("autode").atoms.Atom(a[0]).atomic_number for a in sp["atoms"]) % 2
                sp["dist"], sp["cart"], sp["bonds"] = [], [], []
            specs.append(sp)
    return specs


def run(ctx):
    sys.path.insert(0, REPO)
    full = not ctx.quick
    tempfile.tempdir = ctx.work
    os.environ["AUTODE_FIXUNIQUE"] = "False"
    pins_changed = source_pins(ctx.pid, PINS)
    ctx.cov["source_pins"] = {"pinned": len(PINS), "changed": pins_changed}
    if pins_changed:
        ctx.log("source pins changed:", ", ".join(pins_changed))     # streams keep their tier size (thorough is ~5 min)
    # 1. regenerate the template table from /repo
    rc, out = sh(["python3", f"{VERIF}/tr/translate_c17.py"], timeout=120)
    ctx.log("translator:", out.strip()[:300])
    translated = rc == 0
    ctx.cov["translator"] = {"ok": translated, "output": out.strip()[:600]}
    # 2. proofs over the regenerated table
    info = {"hygiene": [], "log_tail": out, "build_ok": False}
    proofs_ok = False
    if translated:
        proofs_ok, info = ctx.proofs(SLICE, "C17/Props.v", "AV.C17.Props", extra_targets=["C17/Corr.vo"])
        ctx.log("proofs:", "ok" if proofs_ok else "BROKEN")
        ctx.cov["print_assumptions"] = info.get("assumptions", {})
    else:
        ctx.cov["obligations"] += len(ctx.theorems_in("C17/Props.v"))
        ctx.cov["checker_cmd"] = "translator failed closed; proofs not attempted"
    # 3. implementation-side oracles on generated inputs
    import logging
    logging.disable(logging.CRITICAL)
    nfail = 0
    reported = {}

    def fail(key, what, rep):
        nonlocal nfail
        nfail += 1
        reported[key] = reported.get(key, 0) + 1
        if reported[key] <= 1 and len(reported) <= 30:
            ctx.finding(key, what, rep)

    terms, descr = [], []
    specs = all_cases(ctx, full)
    for n, spec in enumerate(specs):
        res = run_case(spec, os.path.join(ctx.work, f"case{n}"))
        F, P = check_case(spec, res)
        key = (spec["prog"], spec["kwtype"], repr(spec))
        nontrivial = P is not None
        ctx.count("generate-input", key, nontrivial,
                  sample={"prog": spec["prog"], "kwtype": spec["kwtype"], "n_atoms": len(spec["atoms"]), "charge": spec["charge"],
                          "mult": spec["mult"], "solvent": spec["solvent"], "n_dist": len(spec["dist"]), "n_cart": len(spec["cart"]),
                          "n_pcs": len(spec["pcs"]), "n_cores": spec["n_cores"]})
        ctx.hist("generate-input", f"{spec['prog']}:{'rejected' if res['rejected'] else 'error' if res['error'] else 'read'}")
        if res["rejected"]:
            ctx.hist("generate-input", "rejected:" + res["rejected"].split(":")[0])
        for k, what in F:
            fail(k, what, {"kind": "case", "spec": spec})
        if P is not None and proofs_ok:
            t = coq_terms_for(spec, res, P, ctx)
            if t is not None:
                terms.append(t)
                descr.append({"kind": "case", "spec": spec})
    ctx.log(f"generate_input cases: {len(specs)}; oracle failures so far: {nfail}")
    xt, xd = xyz_cases(ctx, ctx.rng, 120 if full else 24, 60 if full else 15, os.path.join(ctx.work, "xyz"), fail)
    if proofs_ok:
        terms += xt
        descr += xd
    rt, rd = regen_cases(ctx, ctx.rng, 8 if full else 4, 30 if full else 10, os.path.join(ctx.work, "regen"), fail)
    if proofs_ok:
        terms += rt
        descr += rd
    ctx.log(f"regeneration sequences (register enabled, same directory): {7 * (8 if full else 4)}; oracle failures: {nfail}")
    st, sd = sameobj_cases(ctx, ctx.rng, 4 if full else 2, 20 if full else 8, os.path.join(ctx.work, "sameobj"), fail)
    ft, fd = retry_cases(ctx, ctx.rng, 4 if full else 2, os.path.join(ctx.work, "retry"), fail)
    if proofs_ok:
        terms += st + ft
        descr += sd + fd
    ctx.log(f"species-updated sequences: {len(sd)}; wrapper-regenerated retry inputs: {len(fd)}; oracle failures: {nfail}")
    explicit_solvent_case(ctx, os.path.join(ctx.work, "explicit"), fail)
    nu = untranslatable_cases(ctx, ctx.rng, os.path.join(ctx.work, "untr"), fail)
    ctx.log(f"xyz cases: {len(xt)}; untranslatable-keyword cases: {nu}; oracle failures: {nfail}")
    logging.disable(logging.NOTSET)
    # 4. correspondence: Coq readers / writer model on the exact file lines
    corr_bad, corr_err = [], None
    if proofs_ok and terms:
        for d in descr:
            ctx.count("coq-lines", repr(d), True)
        bad, corr_err = ctx.coq_bad_indices(PRE, terms, per_file=12 if full else 16, timeout=600, name="c17cases")
        corr_bad = [(descr[i], terms[i]) for i in bad]
        ctx.log(f"correspondence (Coq readers + writer model on {len(terms)} files): {len(corr_bad)} disagreements"
                + (f"; coq error {corr_err[:300]}" if corr_err else ""))
        ctx.cov["disagreements"] = len(corr_bad)
        for d, t in corr_bad[:6]:
            sp = d.get("spec") or (d.get("specs") or [{}])[-1]
            ctx.log("  disagreement:", d.get("kind"), sp.get("prog"), sp.get("kwtype"), sp.get("kwsrc"), "dist_unit", sp.get("dist_unit"))
            with open(os.path.join(VERIF, ".work", "c17_last_disagreement.txt"), "w") as f:
                f.write(t)
    # a wrapper that rejects (almost) everything would pass every oracle above: demand a floor of files actually read
    hist = ctx.cov["streams"].get("generate-input", {}).get("histogram", {})
    for prog in PROGS:
        nread = hist.get(f"{prog}:read", 0)
        ntot = nread + hist.get(f"{prog}:rejected", 0) + hist.get(f"{prog}:error", 0)
        if ntot and nread * 2 < ntot:
            ctx.violation(f"{prog}: only {nread} of {ntot} generated cases produced an input file (the rest was rejected): the wrapper "
                          "is not exercised", {"kind": "acceptance-floor", "prog": prog, "histogram": hist}, found_input=False)
    # 5. decide (a KNOWN finding is not a new failing input: it never explains a broken proof / disagreement)
    concrete = len(ctx.violations) > 0
    if not translated:
        if not concrete:
            ctx.violation("the wrappers' print statements are outside the translator's vocabulary (model cannot be regenerated): "
                          + out.strip()[:300], {"kind": "translator", "output": out.strip()[:2000]}, found_input=False)
    elif not proofs_ok:
        ctx.proof_failure(info, found_any_input=concrete)
    if corr_bad or corr_err:
        if not concrete:
            ctx.violation("Coq readers / writer model and the generated files disagree (stream coq-lines) and no implementation-side "
                          "oracle failed", {"kind": "correspondence", "first": [d for d, _ in corr_bad[:3]],
                                            "coq_terms": [t[:3000] for _, t in corr_bad[:1]], "coq_error": corr_err},
                          found_input=False)
        else:
            ctx.log("correspondence disagreements explained by the implementation-level findings above")
    if pins_changed and not concrete and translated and proofs_ok and not (corr_bad or corr_err):
        ctx.violation("hand model no longer pinned to the source: " + ", ".join(pins_changed),
                      {"kind": "source-pin", "changed": pins_changed}, found_input=False)


def nfail_unknown(ctx):
    """number of violations recorded so far (known findings do not count: they are not new failing inputs)"""
    return len(ctx.violations)


def replay(ctx, obj):
    sys.path.insert(0, REPO)
    import logging
    logging.disable(logging.CRITICAL)
    tempfile.tempdir = ctx.work
    rep = obj.get("replay", {})
    n = 0
    if rep.get("kind") == "case":
        res = run_case(rep["spec"], os.path.join(ctx.work, "replay"))
        F, P = check_case(rep["spec"], res)
        for k, what in F:
            print("replay:", k, "->", what)
        for fn, txt in res["files"].items():
            print(f"----- {fn}\n{txt}")
        n = len(F)
    elif rep.get("kind") == "regen":
        wd = os.path.join(ctx.work, "replay")
        run_case(rep["specs"][0], wd, registry=True)
        res = run_case(rep["specs"][1], wd, registry=True)
        F, P = check_case(rep["specs"][1], res)
        F = [(k, w) for k, w in F if not k.endswith("written-as-moved-atoms")]
        for k, what in F:
            print("replay (second generate_input in the same directory):", k, "->", what)
        for fn, txt in res["files"].items():
            print(f"----- {fn}\n{txt}")
        n = len(F)
    elif rep.get("kind") == "sameobj":
        mol = build_species(rep["specs"][0])
        run_case(rep["specs"][0], os.path.join(ctx.work, "replay_a"), mol=mol)
        apply_ops(mol, rep["ops"])
        res = run_case(rep["specs"][1], os.path.join(ctx.work, "replay_b"), mol=mol)
        F, P = check_case(rep["specs"][1], res)
        F = [(k, w) for k, w in F if not k.endswith("written-as-moved-atoms")]
        for k, what in F:
            print("replay (input written after", [o for o, _ in rep["ops"]], "on the same species object):", k, "->", what)
        for fn, txt in res["files"].items():
            print(f"----- {fn}\n{txt}")
        n = len(F)
    elif rep.get("kind") == "retry":
        res = retry_one(rep["spec"], os.path.join(ctx.work, "replay"))
        print("replay: files after the run:", res["listing"])
        F, P = check_case(res["spec_now"], res) if res["main"] else ([("retry-path-not-taken", str(res.get("run_error")))], None)
        for k, what in F:
            print("replay (input regenerated by the wrapper after the bend failure):", k, "->", what)
        for fn, txt in res["files"].items():
            print(f"----- {fn}\n{txt}")
        n = len(F)
    elif rep.get("kind") == "untranslatable":
        import autode.wrappers.keywords as kws
        cname, nm, other, marker = rep["keyword"]
        r = run_untranslatable(rep["spec"], getattr(kws, cname)(name=nm, **{other: marker}), os.path.join(ctx.work, "replay"))
        print("replay: outcome", r["outcome"])
        n = 1 if r["outcome"].startswith("accepted") else 0
    elif rep.get("kind") == "explicit-solvent":
        fails = []

        class _C:
            def hist(self, *a):
                pass

            def count(self, *a, **k):
                pass
        explicit_solvent_case(_C(), os.path.join(ctx.work, "replay"), lambda k, w, r: fails.append((k, w)))
        for k, w in fails:
            print("replay:", k, "->", w)
        n = len(fails)
    elif rep.get("kind") == "xyz":
        fails = []
        os.makedirs(os.path.join(ctx.work, "replay"), exist_ok=True)
        here = os.getcwd()
        os.chdir(os.path.join(ctx.work, "replay"))
        try:
            xyz_one(rep["writer"], rep["spec"], rep["frames"], "r.xyz", lambda k, w, r: fails.append((k, w)))
            for k, w in fails:
                print("replay:", k, "->", w)
            if os.path.exists("r.xyz"):
                print(open("r.xyz").read())
        finally:
            os.chdir(here)
        n = len(fails)
    else:
        print("replay: stored object carries no re-runnable input:", obj.get("what"))
    print("replay: failures =", n, "; stored:", obj.get("what"))
    return 1 if n else 0


MANIFEST = {
    "technique": "Coq proof over format templates and loop shapes regenerated from the wrappers' print statements (ast translator) + "
                 "re-reading of generated input files by independent Python and Coq readers; 100+ source pins for the hand-written parts",
    "level_text": ("Machine-checked theorems (coq/C17/Props.v, closed under the global context): fixed-point text of EVERY rational "
                   "is parsed back by an independent parser to the half-even rounded value, within 1/2*10^-d of the exact value "
                   "(no magnitude bound); every coordinate spec in the table generated from the wrappers has >= 5 decimals, so each "
                   "program's documented reader recovers element and coordinates within 1e-5 A; adjacent fields are always separated "
                   "(fields never merge however wide Python makes them); for the generated loop shape (`for atom in <atoms>`, "
                   "`x, y, z = atom.coord`, no skip) atom blocks are read back in order for any atom list; each constraint / "
                   "added-internal printer uses the index base of the target program (ORCA 0; Gaussian, Q-Chem, xTB 1); charge and "
                   "multiplicity LINES are read back exactly; point charges (position and charge) are read back within 1e-5."),
    "level_note": ("PARTIAL. Theorems are about the text of one line / one loop; WHICH lines are emitted for a given keyword set is not "
                   "modelled, except for NWChem's multiplicity (`nwchem_multiplicity_always_written`, guard generated, with a `_refuted` "
                   "witness for the single-atom `opt` rewrite); `charge_mult_lines_read_back_partial` proves readability of the lines "
                   "and existence of the print statements only. Per-program keyword blocks "
                   "(requested keywords appear, untranslatable Keyword rejected), solvent, core count, memory and its units, units of "
                   "constrained distances, the xyz title line, xTB `atoms:` ranges and command line (incl. --input), MOPAC spin "
                   "keywords / potentials / interpolation, every job of a Q-Chem multi-job input, regeneration in one directory, "
                   "updates of a live species object, wrapper-regenerated retry inputs and 'generating a file does not modify the "
                   "species' are covered by implementation oracles / correspondence on generated inputs only. Constrained-distance "
                   "values have a theorem only where printed with a fixed-point spec (xTB 4 decimals: 5e-5 A). That the list a loop "
                   "runs over is the species' atom list is correspondence only. NWChem has no constraint syntax in its input (the "
                   "package's own optimiser applies constraints); G09._run_hessian and the NEB/TS trajectory writers are not run. "
                   "Trusted: Coq kernel + vm_compute, the translator (validated each run by character-exact comparison of the "
                   "writer model with the files), the documented layouts / index bases written in Model.v from the programs' "
                   "manuals, Python's float formatting (modelled on exact rationals; -0.0/nan/inf excluded)."),
}
