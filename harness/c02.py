"""C02 — molecules built from SMILES agree with the SMILES on every build path (DESIGN 6/C02).

Tie: tr/translate_c02.py re-reads init_organic_smiles / init_smiles / calc_multiplicity /
Molecule._init_smiles (and checks the helper functions the model writes by hand) on every run and
emits them as operation lists (coq/gen/C02_Gen.v); the theorems of coq/C02/Props.v are re-checked over
those lists.  The model is then run against the implementation on generated SMILES (each path forced by
calling init_smiles / init_organic_smiles on a blank Molecule, plus the constructor), and the
property itself is evaluated on the implementation with RDKit - called here, independently of
autodE - as the reference for what the SMILES denotes.  3D embedding is an oracle: coordinates are only
observed to be finite and pairwise distinct.
"""
import os
import re
import sys
import traceback

import numpy as np

from common import REPO, VERIF, coq_bool, coq_list, coq_z, sh, source_pins

TRUSTED_BASE = [
    "Coq 8.16.1 kernel + coqc (vm_compute only in the correspondence shards and in the concrete _refuted / Example witnesses; no native_compute)",
    "Print Assumptions: every C02 theorem is closed under the global context (nat/Z/list only)",
    "translator tr/translate_c02.py (Python ast -> gen/C02_Gen.v, fail-closed, matches statements by ast.dump; drops logging and the RDKit embedding calls; "
    "one RDKit bond loop setting pi and stereo is emitted as two consecutive marks: independent attributes)",
    "hand model coq/C02/Model.v of make_graph(bond_list), networkx add_edge/attribute assignment, Builder._explicit_all_hydrogens, the Species.atoms setter, "
    "lazy Species.graph, canonical_atoms(_at_origin): their source text is compared with the text the model was written from (translator) and their behaviour by the correspondence",
    "oracles (not verified): RDKit (MolFromSmiles, AddHs, formal charge, radical electrons, bond types, stereo perception, ETKDG embedding), "
    "autodE's SMILES Parser (property C01), Builder.build / get_simanl_atoms (3D coordinates), minimum_cycle_basis (max_ring_n)",
    "reference for 'what the SMILES denotes' in the implementation oracles: RDKit called by the harness (sanitized mol with removeHs=False for atoms/H counts/charges; "
    "unsanitized mol for bond orders, chiral tags and bond directions as written, and for everything when RDKit rejects the string; which specified marks ARE stereochemistry: "
    "Chem.FindPotentialStereo, i.e. NOT the legacy FindMolChiralCenters/GetStereo calls the implementation makes); atom classes and the footprint of the known parser scan "
    "deviation from the harness's own tokenizer",
    "the harness: SMILES generator, canonicalisation of the observed graph, literal printer",
]
ASSUMPTIONS = [
    "the parsed SMILES (parser.atoms/bonds) is an INPUT of the model: parser defects are visible only through the implementation oracles (RDKit reference)",
    "coordinates: finite and pairwise distinct (> 1e-6 A) is observed on every built molecule, not proved (3D embedding is an oracle: partial claim)",
    "multiplicity 'as the SMILES denotes' = lowest multiplicity compatible with the electron count (autodE's documented convention: several unpaired electrons default to a singlet)",
    "a bond is 'aromatic in the SMILES' when it joins two lower-case atoms and RDKit perceives it aromatic; 'multiple' is the bond symbol as written",
    "path selection is compared with the predicate AS WRITTEN in Molecule._init_smiles (a metal symbol anywhere inside a bracket, so [Kr] selects init_smiles; text pinned by the translator), evaluated on the harness's own metal table",
    "AtRdkit takes RDKit's atom list; atoms_from_rdkit_mol reads the mol block by position since f435c13 (pinned); should an atom be dropped again (class >= 100 defect) the finding "
    "init_organic_smiles|atom-class-ge-100-drops-atom is raised and that string's RDKit-path correspondence terms are skipped",
    "the model has no crash for Builder.set_atoms_bonds on > 8 neighbours: the forced init_organic_smiles run of such strings is skipped; r_unreasonable (RDKit embedding unreasonable) is read off the observed flag",
    "forced RDKit path on metal-containing strings: only atoms/bonds/pi/stereo/classes are compared (charge and multiplicity through RDKit's radical count are not meaningful for metals and Molecule never takes that path)",
]
RULE = ("one case = one generated SMILES x one build path (init_smiles forced, init_organic_smiles forced, Molecule constructor; plus explicit charge/mult variants). "
        "SMILES: every special string of each input class (single atoms, >=8-membered rings, metals with one- and two-letter symbols and odd/even electron counts, "
        "9-coordinate centres with implicit/bracket/explicit hydrogens (builder failure), quadruple '$' bonds, fused/aromatic rings, biphenyl linkers, Kekule rings, "
        "charged, radicals incl. odd poly-radical, tetrahedral and double-bond stereo incl. marks on non-stereocentres and three-coordinate S/P lone-pair centres in both hands, atom classes, explicit [H]) plus random template x substituent "
        "combinations; a case is non-trivial when the molecule has >1 atom; distinct by (SMILES, path, charge, mult)")

# Functions the hand-written parts of coq/C02/Model.v (and the observation/decision code of this harness) were
# written from and that tr/translate_c02.py does NOT already regenerate or compare statement by statement.
# (Translated: init_organic_smiles, init_smiles, calc_multiplicity, Molecule._init_smiles, the pi rule.  Compared by
#  the translator: check_bonds, make_graph's bond_list branch, Builder._explicit_all_hydrogens / set_atoms_bonds
#  prologue / canonical_atoms(_at_origin) / max_ring_n / build's first statement, the setters Species.atoms / charge /
#  mult and AtomCollection.atoms, Species.graph, SMILESAtom.is_aromatic / has_stereochem, Parser.charge / mult, and the
#  tables aromatic_symbols, bond_order_symbols, metals.)
PINS = [
    ("autode/species/molecule.py", "Molecule.__init__"),                 # Model.init_state; passes charge on to _init_smiles
    ("autode/species/species.py", "Species.__init__"),                   # charge / mult / no atoms, no graph
    ("autode/species/species.py", "Species.charge"),
    ("autode/species/species.py", "Species.mult"),
    ("autode/species/species.py", "Species.has_reasonable_coordinates"),  # ResimIfUnreasonable: touches the lazy graph
    ("autode/conformers/conformers.py", "atoms_from_rdkit_mol"),         # AtRdkit: labels in mol-block order, no atom_class
    ("autode/conformers/conf_gen.py", "get_simanl_atoms"),               # AtSimanl: moved copies of the same atoms, reads species.graph
    ("autode/smiles/base.py", "SMILESAtom.__init__"),                    # satom fields; new H atoms have no class / mark
    ("autode/smiles/base.py", "SMILESBond.__init__"),                    # order from the bond symbol
    ("autode/smiles/base.py", "SMILESBond.__getitem__"),                 # idx_i, idx_j = bond
    ("autode/smiles/base.py", "SMILESBond.symbol"),
    ("autode/smiles/base.py", "SMILESBond.atom_indexes"),
    ("autode/smiles/base.py", "SMILESBonds._bond_exists"),               # wf_mol: no duplicate / self bonds
    ("autode/smiles/base.py", "SMILESBonds.append"),
    ("autode/smiles/base.py", "SMILESBonds.insert"),
    ("autode/smiles/base.py", "SMILESAtom.invert_stereochem"),           # ring-closing atom: marks must survive the inversion
    ("autode/smiles/base.py", "RingBond.close"),
    ("autode/smiles/base.py", "RingBond.__init__"),
    ("autode/atoms.py", "AtomCollection.n_atoms"),                       # builder.n_atoms (GNAtomsEq), species.n_atoms == 0
    ("autode/atoms.py", "AtomCollection.atoms"),
    ("autode/atoms.py", "Atom.__init__"),                                # label, atom_class
    ("autode/atoms.py", "Atom.atomic_number"),                           # Parser.mult electron count
    # round 3: transitive dependencies of the observed clauses that nothing else protected
    ("autode/smiles/parser.py", "atomic_charge"),                        # bracket-atom helpers: the parsed molecule is the model's input
    ("autode/smiles/parser.py", "atomic_n_hydrogens"),
    ("autode/smiles/parser.py", "atomic_class"),
    ("autode/smiles/parser.py", "atomic_sterochem"),
    ("autode/smiles/parser.py", "Parser._parse_sq_bracket"),
    ("autode/smiles/parser.py", "Parser._set_implicit_hs"),
    ("autode/smiles/parser.py", "Parser._set_double_bond_stereochem"),    # footprint of the known stereo-extra-atom deviation (reference())
    ("autode/smiles/builder.py", "Builder._set_atom_types"),            # coordination > 8 -> NotImplementedError (build-failure class)
    ("autode/mol_graphs.py", "MolecularGraph.expected_planar_geometry"),  # decides has_reasonable_coordinates
    ("autode/conformers/conf_gen.py", "_get_coords_no_init_structure"),   # simanl fallback that delivers the coordinates after a failed build
    ("autode/conformers/conf_gen.py", "_get_atoms_rotated_stereocentres"),
    ("autode/conformers/conf_gen.py", "_add_dist_consts_for_stereocentres"),
    ("autode/conformers/conf_gen.py", "_get_non_random_atoms"),
]

SLICE = ["C02/Model.v", "C02/Lemmas.v", "C02/Props.v", "C02/Corr.v", "gen/C02_Gen.v"]
PRE = ("From Coq Require Import ZArith List Bool Arith.\nFrom AV.lib Require Import QcInst.\n"
       "From AV.C02 Require Import Model Corr.\nFrom AV.gen Require Import C02_Gen.\nImport ListNotations.\n")

AROMATIC = ("b", "c", "n", "o", "s", "p")

# --------------------------------------------------------------------------------------------
# generator
SPECIALS = [
    # (smiles, tags)
    ("C/C=C/C(=O)O", ["db-stereo", "extra-atom"]),
    ("c1ccccc1-c1ccncc1", ["aromatic", "linker"]),
    ("C1=CC=CC=C1", ["kekule"]),
    ("C[C]", ["radical", "polyradical-odd"]),
    ("[C@H](C)(C)F", ["tet-stereo", "nongenuine"]),
    ("[H]C[Cl:5]", ["explicit-H", "class"]),
    ("[La:1](F)(F)(F)(F)(F)(F)(F)(F)F", ["metal", "class", "build-fails"]),
    ("C1CCCCCCC1", ["ring8"]),
    ("[Cu]", ["metal", "single-atom"]),
    ("[CH3:3][C@H](F)Cl", ["tet-stereo", "class"]),
    ("c1ccc2ccccc2c1", ["aromatic", "fused"]),
    ("C[N+](C)(C)CC(=O)[O-]", ["charged"]),
    ("[Fe](Cl)Cl", ["metal"]),
    ("F/C=C\\F", ["db-stereo"]),
    ("[CH2]C[CH2]", ["radical"]),
    ("C[CH2]", ["radical"]),
    # one-letter metal symbols (K, V, W, Y, U) and two-letter ones, odd and even electron counts
    ("Cl[V](Cl)(Cl)Cl", ["metal", "metal-1letter", "odd-electrons"]),
    ("Cl[W](Cl)(Cl)(Cl)Cl", ["metal", "metal-1letter", "odd-electrons"]),
    ("Cl[V](Cl)Cl", ["metal", "metal-1letter"]),
    ("Cl[Y](Cl)Cl", ["metal", "metal-1letter"]),
    ("[K+]", ["metal", "metal-1letter", "single-atom", "charged"]),
    ("[U]", ["metal", "metal-1letter", "single-atom"]),
    ("Cl[Ti](Cl)Cl", ["metal", "odd-electrons"]),
    # coordination number 9: Builder.build fails, hydrogens implicit (CH3) and in the bracket (H9)
    ("C[Fe](C)(C)(C)(C)(C)(C)(C)C", ["metal", "build-fails", "odd-electrons"]),
    ("[ReH9-2]", ["metal", "build-fails", "charged"]),
    # quadruple bonds
    ("[Mo]$[Mo]", ["metal", "quadruple"]),
    ("Cl[Re-](Cl)(Cl)(Cl)$[Re-](Cl)(Cl)(Cl)Cl", ["metal", "quadruple", "charged"]),
    ("CC(=O)O[Cr]$[Cr]OC(C)=O", ["metal", "quadruple"]),
    # three-coordinate lone-pair stereocentres (sulfoxide, phosphine, sulfonium)
    ("C[S@](=O)CC", ["tet-stereo", "lone-pair-centre"]),
    ("C[P@@](CC)c1ccccc1", ["tet-stereo", "lone-pair-centre", "aromatic"]),
    ("C[S@+](CC)CCC", ["tet-stereo", "lone-pair-centre", "charged"]),
    # stereocentres on ring atoms (cis/trans ring centres), strings RDKit rejects (fallback inside init_organic_smiles),
    # bracket atoms combining numeric charge / H count / class / stereo, three-digit class, [Kr], aromatic [se]
    ("C[C@H]1CC[C@@H](C)CC1", ["tet-stereo", "ring-stereo"]),
    ("C[C@H]1CCCC[C@@H]1C", ["tet-stereo", "ring-stereo"]),
    ("CN(C)(C)(C)C", ["rdkit-rejects"]),
    ("c1cccc1", ["rdkit-rejects", "aromatic", "radical"]),
    ("F[Kr]F", ["rdkit-rejects", "metal-substring"]),
    ("Cl[Fe+2:1]Cl", ["metal", "charged", "class", "bracket-combo"]),
    ("[CH3:5][Zn+1:6]", ["metal", "charged", "class", "bracket-combo"]),
    ("C[N+:3](C)(C)[C@H:12](F)Cl", ["charged", "class", "tet-stereo", "bracket-combo"]),
    ("[CH3:123]C", ["class", "class-ge-100"]),
    ("c1cc[se]c1", ["aromatic", "two-letter-aromatic"]),
    ("Cl[Pd-2](Cl)(Cl)Cl", ["metal", "charged", "square-planar"]),
    ("F[W](F)(F)(F)(F)(F)(F)F", ["metal", "metal-1letter", "coord-8"]),
    # a / \\ alkene atom that itself carries the ring-CLOSING digit (Parser inverts the closing atom's stereochem), built-in path
    ("C1CCCCCC/C=C/1", ["ring8", "db-stereo", "ring-closing-alkene"]),
    ("[Pd]1CCC/C=C/1", ["metal", "db-stereo", "ring-closing-alkene"]),
    ("C1C/C=C\\CC/C=C\\1", ["ring8", "db-stereo", "ring-closing-alkene"]),
    # ---- thorough tier continues (quick takes the first 46) ----
    ("C1CCCCCC/C=C\\1", ["ring8", "db-stereo", "ring-closing-alkene"]), ("[Pd]1CC/C=C\\C1", ["metal", "db-stereo"]), ("C1CCC/C=C/CC1", ["ring8", "db-stereo"]),
    ("C1CCC/C=C\\CC1", ["ring8", "db-stereo"]), ("O1CCCCCC[C@H]1C", ["ring8", "tet-stereo", "ring-closing-centre"]), ("O1CCCCCC[C@@H]1C", ["ring8", "tet-stereo", "ring-closing-centre"]),
    ("[Zn]1CC[C@H]1C", ["metal", "tet-stereo", "ring-closing-centre"]), ("C1CCCCCCC/C=C/1", ["ring8", "db-stereo", "ring-closing-alkene"]),
    ("C[C@H]1CC[C@H](C)CC1", ["tet-stereo", "ring-stereo"]), ("C[C@@H]1CC[C@@H](C)CC1", ["tet-stereo", "ring-stereo"]),
    ("O[C@H]1CC[C@@H](O)CC1", ["tet-stereo", "ring-stereo"]), ("C[C@H]1C[C@@H](C)C1", ["tet-stereo", "ring-stereo"]),
    ("C[C@@H]1CCC[C@H](C)C1", ["tet-stereo", "ring-stereo"]), ("F[C@H]1CC[C@@H](Cl)CC1", ["tet-stereo", "ring-stereo"]),
    ("C1CC/C=C/C1", ["db-stereo", "nongenuine"]), ("F/C=C/1CCCC1", ["db-stereo", "nongenuine"]), ("C[S@](=O)C", ["tet-stereo", "nongenuine"]),
    ("C[N+](C)(C)(C)C", ["rdkit-rejects", "charged"]), ("FC(F)(F)(F)F", ["rdkit-rejects"]), ("CC(C)(C)(C)(C)C", ["rdkit-rejects"]),
    ("CO(C)O", ["rdkit-rejects"]), ("C1CCCCCCN1", ["ring8"]), ("C1CCCCCC[CH]1", ["ring8", "radical"]), ("[Kr]", ["single-atom", "metal-substring"]),
    ("C1CCCCCC[N-1:2]1", ["ring8", "charged", "class", "bracket-combo"]), ("[Cu+2:9]", ["metal", "single-atom", "charged", "class", "bracket-combo"]),
    ("[O-:4]C", ["charged", "class", "bracket-combo"]), ("[NH3+:2]C", ["charged", "class", "bracket-combo"]), ("C[Fe+3:12](C)C", ["metal", "charged", "class", "bracket-combo"]),
    ("[F:3][Zr-5:4](F)(F)(F)(F)(F)(F)(F)[F:5]", ["metal", "charged", "class", "build-fails", "bracket-combo"]), ("[Br-:1]", ["single-atom", "charged", "class"]),
    ("[OH-:7]", ["charged", "class", "bracket-combo"]), ("C[C@@H:8](N)[O-:9]", ["charged", "class", "tet-stereo", "bracket-combo"]), ("[Co+3:2](N)(N)N", ["metal", "charged", "class", "bracket-combo"]),
    ("[CH3:100]C", ["class", "class-ge-100"]), ("[CH3:99]C", ["class"]), ("C[CH2:250]O", ["class", "class-ge-100"]), ("[CH3:0]C", ["class"]),
    ("F[Re](F)(F)(F)(F)(F)F", ["metal", "coord-7"]), ("F[Xe](F)(F)F", ["square-planar"]),
    ("Cl[Rh](C=O)(C=O)Cl", ["metal", "square-planar"]), ("F/C=C/[La](F)(F)(F)(F)(F)(F)(F)F", ["metal", "build-fails", "db-stereo"]),
    ("C[C@H](F)[La](F)(F)(F)(F)(F)(F)(F)F", ["metal", "build-fails", "tet-stereo"]),
    ("C[S@@](=O)CC", ["tet-stereo", "lone-pair-centre"]), ("C[P@](CC)c1ccccc1", ["tet-stereo", "lone-pair-centre", "aromatic"]),
    ("C[S@@+](CC)CCC", ["tet-stereo", "lone-pair-centre", "charged"]), ("C[S@](=O)c1ccccc1", ["tet-stereo", "lone-pair-centre", "aromatic"]),
    ("C[S@@](=O)c1ccccc1", ["tet-stereo", "lone-pair-centre", "aromatic"]), ("C[P@](=O)(CC)c1ccccc1", ["tet-stereo"]),
    ("C[P@@](=O)(CC)c1ccccc1", ["tet-stereo"]), ("CC[S@](=O)C=C", ["tet-stereo", "lone-pair-centre"]), ("C[P@](CC)CCC", ["tet-stereo", "lone-pair-centre"]),
    ("C[P@@](CC)C=C", ["tet-stereo", "lone-pair-centre"]), ("C[N@+](CC)(CCC)C=C", ["tet-stereo", "charged"]), ("C[S@@+](CC)c1ccccc1", ["tet-stereo", "lone-pair-centre", "charged", "aromatic"]),
    ("C[W](C)(C)(C)C", ["metal", "metal-1letter", "odd-electrons"]), ("[K]", ["metal", "metal-1letter", "single-atom", "odd-electrons"]),
    ("[V]", ["metal", "metal-1letter", "single-atom", "odd-electrons"]), ("[W]", ["metal", "metal-1letter", "single-atom"]),
    ("[Y]", ["metal", "metal-1letter", "single-atom", "odd-electrons"]), ("C[K]", ["metal", "metal-1letter"]), ("Cl[Y]Cl", ["metal", "metal-1letter", "odd-electrons"]),
    ("Cl[W](Cl)(Cl)(Cl)(Cl)Cl", ["metal", "metal-1letter"]), ("O=[V](Cl)(Cl)Cl", ["metal", "metal-1letter"]), ("Cl[Co](Cl)Cl", ["metal"]), ("Cl[Mn]Cl", ["metal", "odd-electrons"]),
    ("[CH3:1][Fe](C)(C)(C)(C)(C)(C)(C)C", ["metal", "build-fails", "class"]), ("O[La](O)(O)(O)(O)(O)(O)(O)O", ["metal", "build-fails"]),
    ("[H][Re-2]([H])([H])([H])([H])([H])([H])([H])[H]", ["metal", "build-fails", "explicit-H", "charged"]),
    ("[W]$[W]", ["metal", "metal-1letter", "quadruple"]), ("C[Mo](C)$[Mo](C)C", ["metal", "quadruple"]), ("Cl[Cr]$[Cr]Cl", ["metal", "quadruple"]),
    ("[H]", ["single-atom"]), ("C", ["single-atom"]), ("[Na+]", ["metal", "single-atom", "charged"]), ("[F-]", ["single-atom", "charged"]),
    ("O", ["single-atom"]), ("[OH-]", ["charged"]), ("[NH4+]", ["charged"]), ("[H][H]", ["explicit-H"]),
    ("C1CCCCCCCC1", ["ring8"]), ("O=C1CCCCCCCCC1", ["ring8"]), ("C1CCCCCCC1[CH3:2]", ["ring8", "class"]),
    ("c1ccc2[nH]ccc2c1", ["aromatic", "fused"]), ("C1CCC2CCCCC2C1", ["fused"]), ("C1CC2CCC1C2", ["fused"]), ("C1C2CC3CC1CC(C2)C3", ["fused"]),
    ("c1ccoc1", ["aromatic"]), ("c1ccsc1", ["aromatic"]), ("c1ccncc1", ["aromatic"]), ("c1ccccc1c1ccccc1", ["aromatic", "linker"]),
    ("Cc1ccccc1-c1ccccc1[Pd]Cl", ["aromatic", "linker", "metal"]),
    ("CC1=CC=CC=C1", ["kekule"]), ("C1=CC=NC=C1", ["kekule"]), ("C1=CC=CC1", []), ("O=C1C=CC(=O)C=C1", []),
    ("[CH3]", ["radical"]), ("C[O]", ["radical"]), ("[O][O]", ["radical"]),
    ("C[CH]C", ["radical"]), ("[CH]", ["radical", "polyradical-odd"]), ("C[N]", ["radical"]),
    ("C[C@H](C)O", ["tet-stereo", "nongenuine"]), ("C/C=C(/C)C", ["db-stereo", "nongenuine"]), ("C=CC(/F)=C/F", ["db-stereo", "extra-atom"]),
    ("F/C=C/CC=C/C=C/F", ["db-stereo", "extra-atom"]), ("F/C=C/C=C", ["db-stereo", "extra-atom"]), ("C[C@H](N)C(=O)O", ["tet-stereo"]),
    ("N[C@@H](C)C(=O)O", ["tet-stereo"]), ("C(/F)=C/F", ["db-stereo"]), ("OC[C@@H](O)[C@H](O)C=O", ["tet-stereo"]),
    ("[H]O[H]", ["explicit-H"]), ("[H]C([H])([H])[H]", ["explicit-H"]),
    ("C[Zn]C", ["metal"]), ("[Li]C", ["metal"]), ("C[Mg]Br", ["metal"]), ("Cl[Pt](Cl)(Cl)Cl", ["metal"]), ("C[Al](C)C", ["metal"]),
    ("[Ti](Cl)(Cl)(Cl)Cl", ["metal"]), ("O=[Mn](=O)(=O)[O-]", ["metal", "charged"]), ("c1ccccc1[Li]", ["metal", "aromatic"]),
    ("[CH3:1][Sn]([CH3:2])(C)C", ["metal", "class"]), ("[ReH9-2:3]", ["metal", "class", "charged", "build-fails"]),
    ("[CH3:1]C(=O)[OH:2]", ["class"]), ("[CH2:7]=O", ["class"]), ("c1cc[cH:4]cc1", ["class", "aromatic"]),
    ("CS(=O)(=O)C", []), ("CP(C)C", []), ("C#N", []), ("CC#CC", []), ("[O-][N+](=O)c1ccccc1", ["charged", "aromatic"]), ("C[NH3+]", ["charged"]),
]
N_QUICK_SPECIALS = 46

TEMPLATES = [
    ("{R}C(=O)O", []), ("{R}C#N", []), ("{R}C(=O)N{S}", []), ("c1ccc({R})cc1", ["aromatic"]), ("{R}c1ccc({S})cc1", ["aromatic"]),
    ("C1CC({R})CC1", []), ("{R}C1CCC({S})CC1", []), ("c1cc({R})ncc1", ["aromatic"]), ("{R}c1ccc2ccccc2c1", ["aromatic", "fused"]),
    ("{R}/C=C/{S}", ["db-stereo"]), ("{R}/C=C\\{S}", ["db-stereo"]), ("{R}/C=C/C(=O)O{S}", ["db-stereo", "extra-atom"]),
    ("{T}[C@H](F)Cl", ["tet-stereo"]), ("{T}[C@@H](F)Cl", ["tet-stereo"]), ("C[C@@H]({U})N", ["tet-stereo"]),
    ("{R}C(=O)[O-]", ["charged"]), ("{R}[NH2+]{S}", ["charged"]), ("{R}C1CCCCCCC1", ["ring8"]), ("{R}c1ccoc1", ["aromatic"]),
    ("{R}C1=CC=CC=C1", ["kekule"]), ("{R}C(C)=C{S}", []), ("{R}OC(=O){S}", []), ("{R}[Zn]{S}", ["metal"]), ("{R}S(=O)(=O){S}", []),
    ("{R}C1CC2CCC1C2", ["fused"]), ("{R}[Mo]$[Mo]{S}", ["metal", "quadruple"]), ("{R}[V]{S}", ["metal", "metal-1letter"]),
    ("{R}[C@H]1CC[C@@H]({S})CC1", ["tet-stereo", "ring-stereo"]), ("{R}[C@H]1CC[C@H]({S})CC1", ["tet-stereo", "ring-stereo"]),
    ("{R}N(C)(C)(C){S}", ["rdkit-rejects"]), ("{R}[Fe+2:4]{S}", ["metal", "charged", "class", "bracket-combo"]),
]
SUBS = ["C", "CC", "O", "N", "F", "Cl", "Br", "C(C)C", "C=C", "C#C", "CO", "C(=O)C", "[CH3:1]", "[CH2:2]C", "C2CC2", "c2ccccc2", "CS", "CCC"]
SUBS_T = ["C", "CC", "O", "N", "Br", "C=C", "[CH3:6]", "c2ccccc2"]       # keeps {T}[C@H](F)Cl a genuine centre
SUBS_U = ["CC", "O", "F", "Cl", "C=C", "c2ccccc2", "C(=O)O"]              # keeps C[C@@H]({U})N a genuine centre


def gen_smiles(ctx):
    specials = SPECIALS[:N_QUICK_SPECIALS] if ctx.quick else SPECIALS
    out = [(s, list(t) + ["special"]) for s, t in specials]
    n_random = 14 if ctx.quick else 260
    seen = {s for s, _ in out}
    tries = 0
    while len(out) < len(specials) + n_random and tries < 20 * n_random:
        tries += 1
        tpl, tags = ctx.rng.choice(TEMPLATES)
        r, s_, t, u = ctx.rng.choice(SUBS), ctx.rng.choice(SUBS), ctx.rng.choice(SUBS_T), ctx.rng.choice(SUBS_U)
        smi = tpl.replace("{R}", r).replace("{S}", s_).replace("{T}", t).replace("{U}", u)
        if smi in seen:
            continue
        seen.add(smi)
        tg = list(tags)
        used = [x for k, x in (("{R}", r), ("{S}", s_), ("{T}", t), ("{U}", u)) if k in tpl]
        if any(":" in x for x in used):
            tg.append("class")
        if "c2ccccc2" in used and "c1" in tpl:
            tg.append("linker")
        out.append((smi, tg + ["random"]))
    return out


# --------------------------------------------------------------------------------------------
# reference: what the SMILES denotes, by RDKit called here (never through autodE)
def elements_table():
    from rdkit import Chem
    pt = Chem.GetPeriodicTable()
    return {pt.GetElementSymbol(z): z for z in range(1, 119)}


def metals_table():
    """the harness's own copy of the metal symbols (tr/translate_c02.py compares it with autode.atoms.metals)"""
    import importlib.util
    spec = importlib.util.spec_from_file_location("translate_c02", os.path.join(VERIF, "tr", "translate_c02.py"))
    mod = importlib.util.module_from_spec(spec)
    spec.loader.exec_module(mod)
    return list(mod.METALS)


def bracket_is_metal(smiles, metals, sym2z):
    """element symbol of every bracket atom, parsed properly (not by substring)"""
    for m in re.finditer(r"\[([^\]]*)\]", smiles):
        body = re.sub(r"^\d+", "", m.group(1))
        sym = None
        if len(body) >= 2 and body[:2] in sym2z:
            sym = body[:2]
        elif body[:1] in sym2z:
            sym = body[:1]
        if sym in metals:
            return True
    return False


def substring_metal(smiles, metals):
    """Molecule._init_smiles as written (text pinned by the translator): a metal symbol occurring ANYWHERE inside a
    bracket, so `[Kr]` (contains K) also selects init_smiles.  Evaluated on the harness's own metal table."""
    return any(m in b for m in metals for b in re.findall(r"\[.*?]", smiles))


def atom_tokens(smiles):
    """(position, text) of every atom token of the SMILES, in order (own tokenizer; None if a character is unknown)"""
    out, i, n = [], 0, len(smiles)
    while i < n:
        c = smiles[i]
        if c == "[":
            j = smiles.find("]", i)
            if j < 0:
                return None
            out.append((i, smiles[i:j + 1]))
            i = j + 1
        elif smiles[i:i + 2] in ("Cl", "Br"):
            out.append((i, smiles[i:i + 2]))
            i += 2
        elif c in "BCNOPSFI" or c in AROMATIC:
            out.append((i, c))
            i += 1
        elif c in "-=#$/\\()%0123456789":
            i += 1
        else:
            return None
    return out


def reference(smiles):
    """What the SMILES denotes, by RDKit called here.  Uses the sanitized molecule where RDKit gives one and the
    unsanitized parse (atoms, bonds, H counts by valence, marks as written) for strings RDKit rejects.
    -> dict or None when RDKit cannot even parse the string."""
    from rdkit import Chem
    from rdkit import RDLogger
    RDLogger.DisableLog("rdApp.*")
    p = Chem.SmilesParserParams()
    p.removeHs = False
    ref = Chem.MolFromSmiles(smiles, p)
    p2 = Chem.SmilesParserParams()
    p2.removeHs = False
    p2.sanitize = False
    raw = Chem.MolFromSmiles(smiles, p2)
    if raw is None:
        return None
    sanitized = ref is not None and ref.GetNumAtoms() == raw.GetNumAtoms()
    if not sanitized:
        ref = Chem.Mol(raw)
        ref.UpdatePropertyCache(strict=False)
    n = ref.GetNumAtoms()
    toks = atom_tokens(smiles)
    if toks is None or len(toks) != n:
        return None
    z = [a.GetAtomicNum() for a in ref.GetAtoms()]
    nh = [a.GetTotalNumHs(includeNeighbors=False) for a in ref.GetAtoms()]
    charges = [a.GetFormalCharge() for a in ref.GetAtoms()]
    # atom classes from the text (RDKit cannot tell ":0" from no class)
    classes = []
    for _, t in toks:
        m = re.search(r":(\d+)\]$", t)
        classes.append(int(m.group(1)) if m else None)
    lower = [a.GetIsAromatic() for a in raw.GetAtoms()]          # written in lower case
    heavy_bonds, pi, ring_bond = [], set(), {}
    for rb, sb in zip(raw.GetBonds(), ref.GetBonds()):
        i, j = sorted((rb.GetBeginAtomIdx(), rb.GetEndAtomIdx()))
        assert (i, j) == tuple(sorted((sb.GetBeginAtomIdx(), sb.GetEndAtomIdx())))
        heavy_bonds.append((i, j))
        ring_bond[(i, j)] = sb.IsInRing() if sanitized else None
        if lower[i] and lower[j]:
            is_pi = (sb.GetIsAromatic() or sb.GetBondType() != Chem.rdchem.BondType.SINGLE) if sanitized else rb.GetIsAromatic() \
                or rb.GetBondType() not in (Chem.rdchem.BondType.SINGLE, Chem.rdchem.BondType.AROMATIC)
        else:
            is_pi = rb.GetBondType() not in (Chem.rdchem.BondType.SINGLE,)
        if is_pi:
            pi.add((i, j))
    perceived_pi = {tuple(sorted((b.GetBeginAtomIdx(), b.GetEndAtomIdx()))) for b in ref.GetBonds()
                    if b.GetBondType() != Chem.rdchem.BondType.SINGLE} if sanitized else set(pi)
    # hydrogens: one new atom per implicit/bracket H, appended in atom order
    edges = set(heavy_bonds)
    k = n
    for i in range(n):
        for _ in range(nh[i]):
            edges.add((i, k))
            k += 1
    atoms = z + [1] * (k - n)
    # stereo as written: @/@@ tags, and double bonds with a directional bond at both ends
    specified = {a.GetIdx() for a in raw.GetAtoms() if a.GetChiralTag() != Chem.rdchem.ChiralType.CHI_UNSPECIFIED}
    dirs = (Chem.rdchem.BondDir.ENDUPRIGHT, Chem.rdchem.BondDir.ENDDOWNRIGHT)
    for b in raw.GetBonds():
        if b.GetBondType() == Chem.rdchem.BondType.DOUBLE:
            ends = (b.GetBeginAtom(), b.GetEndAtom())
            if all(any(nb.GetBondDir() in dirs for nb in a.GetBonds() if nb.GetIdx() != b.GetIdx()) for a in ends):
                specified |= {a.GetIdx() for a in ends}
    # which of them ARE stereochemistry: RDKit's new stereo perception (FindPotentialStereo), NOT the legacy
    # FindMolChiralCenters / Bond.GetStereo calls init_organic_smiles itself makes
    if sanitized:
        genuine = set()
        for si in Chem.FindPotentialStereo(ref):
            if str(si.specified) != "Specified":
                continue
            if str(si.type) == "Atom_Tetrahedral":
                genuine.add(si.centeredOn)
            elif str(si.type) == "Bond_Double":
                b = ref.GetBondWithIdx(si.centeredOn)
                genuine |= {b.GetBeginAtomIdx(), b.GetEndAtomIdx()}
        legacy = {i for i, _ in Chem.FindMolChiralCenters(ref)}
        for b in ref.GetBonds():
            if b.GetStereo() != Chem.rdchem.BondStereo.STEREONONE:
                legacy |= {b.GetBeginAtomIdx(), b.GetEndAtomIdx()}
    else:
        genuine, legacy = set(specified), set(specified)
    # footprint of the known parser defect (unbounded scans in _set_double_bond_stereochem): for a double bond written
    # `=` before atom i, i is marked if ANY slash follows it in the string, its partner if ANY slash precedes it
    scan = set()
    if "/" in smiles or "\\" in smiles:
        for rb in raw.GetBonds():
            if rb.GetBondType() != Chem.rdchem.BondType.DOUBLE:
                continue
            a, b = sorted((rb.GetBeginAtomIdx(), rb.GetEndAtomIdx()))
            pos = toks[b][0]
            if pos == 0 or smiles[pos - 1] != "=":
                continue                        # ring-closure double bonds are not scanned
            if "/" in smiles[pos:] or "\\" in smiles[pos:]:
                scan.add(b)
            if "/" in smiles[:pos] or "\\" in smiles[:pos]:
                scan.add(a)
    ne = sum(atoms) - sum(charges)
    return {"n_heavy": n, "atoms": atoms, "nh": nh, "charge": sum(charges), "mult": ne % 2 + 1, "edges": edges,
            "pi": pi, "perceived_pi": perceived_pi, "genuine": genuine, "specified": specified | genuine, "legacy": legacy,
            "scan_footprint": scan, "ring_bond": ring_bond, "sanitized": sanitized,
            "classes": classes + [None] * (k - n), "lower": lower, "heavy_bonds": heavy_bonds,
            "n_rad": sum(a.GetNumRadicalElectrons() for a in ref.GetAtoms())}


TR_INFO = {"chiral_legacy": True}     # filled from the translator's report before the workers are forked


def rdkit_oracle(smiles):
    """the facts init_organic_smiles reads from RDKit (same calls, made by the harness)"""
    from rdkit import Chem
    from rdkit.Chem.Descriptors import NumRadicalElectrons
    m = Chem.MolFromSmiles(smiles)
    if m is None:
        return {"none": True, "charge": 0, "nrad": 0, "atoms": [], "bonds": [], "chiral": []}
    m = Chem.AddHs(m)
    return {"none": False, "charge": Chem.GetFormalCharge(m), "nrad": NumRadicalElectrons(m),
            "atoms": [a.GetAtomicNum() for a in m.GetAtoms()],
            "bonds": [(b.GetBeginAtomIdx(), b.GetEndAtomIdx(), b.GetBondType() != Chem.rdchem.BondType.SINGLE,
                       b.GetStereo() != Chem.rdchem.BondStereo.STEREONONE) for b in m.GetBonds()],
            "chiral": [i for i, _ in (Chem.FindMolChiralCenters(m) if TR_INFO["chiral_legacy"]
                                      else Chem.FindMolChiralCenters(m, useLegacyImplementation=False))]}


def parsed(smiles, sym2z):
    """parser.atoms / parser.bonds as Parser.parse leaves them (model input) + builder oracle"""
    from autode.smiles.parser import Parser
    from autode.smiles.builder import Builder
    p = Parser()
    p.parse(smiles)
    atoms = [{"z": sym2z[a.label], "arom": a.smiles_label in AROMATIC, "nh": a.n_hydrogens or 0, "charge": a.charge,
              "cls": a.atom_class, "mark": bool(a.has_stereochem)} for a in p.atoms]
    bonds = [(b[0], b[1], b.order) for b in p.bonds]
    try:
        b = Builder()
        b.set_atoms_bonds(atoms=p.atoms, bonds=p.bonds)
        ring, sab_ok = b.max_ring_n, True
    except Exception:  # noqa  (NotImplementedError for coordination > 8)
        ring, sab_ok = 0, False
    return {"atoms": atoms, "bonds": bonds, "max_ring": ring, "set_atoms_bonds_ok": sab_ok}


# --------------------------------------------------------------------------------------------
# running the implementation
class Probe:
    """records which initialisation functions are entered and whether Builder.build raised"""

    def __init__(self):
        import autode.smiles.smiles as S
        import autode.species.molecule as M
        from autode.smiles.builder import Builder
        self.S, self.M, self.Builder = S, M, Builder
        self.trace, self.build_ok = [], True
        self._orig = (S.init_smiles, S.init_organic_smiles, M.init_smiles, M.init_organic_smiles, Builder.build)

    def __enter__(self):
        S, M, B = self.S, self.M, self.Builder
        o_is, o_ios, _, _, o_build = self._orig
        probe = self

        def w_is(*a, **k):
            probe.trace.append("builtin")
            return o_is(*a, **k)

        def w_ios(*a, **k):
            probe.trace.append("organic")
            return o_ios(*a, **k)

        def w_build(bself, atoms, bonds):
            try:
                return o_build(bself, atoms, bonds)
            except BaseException:
                probe.build_ok = False
                raise
        S.init_smiles, S.init_organic_smiles = w_is, w_ios
        M.init_smiles, M.init_organic_smiles = w_is, w_ios
        B.build = w_build
        return self

    def __exit__(self, *a):
        S, M, B = self.S, self.M, self.Builder
        S.init_smiles, S.init_organic_smiles, M.init_smiles, M.init_organic_smiles, B.build = self._orig
        return False


def observe(mol, sym2z):
    g = mol.graph
    nodes = sorted(g.nodes)
    coords = np.array(mol.coordinates, dtype=float)
    n = len(mol.atoms)
    finite = bool(np.isfinite(coords).all())
    mind = None
    if n > 1 and finite:
        d = np.linalg.norm(coords[:, None, :] - coords[None, :, :], axis=-1)
        d[np.diag_indices(n)] = np.inf
        mind = float(d.min())
    return {"charge": int(mol.charge), "mult": int(mol.mult), "atoms": [sym2z[a.label] for a in mol.atoms],
            "atom_classes": [a.atom_class for a in mol.atoms],
            "nodes_ok": nodes == list(range(n)),
            "node_z": [sym2z.get(g.nodes[i].get("atom_label"), 0) for i in nodes],
            "classes": [g.nodes[i].get("atom_class") for i in nodes],
            "edges": sorted(tuple(sorted(e)) for e in g.edges),
            "pi": sorted(tuple(sorted(e)) for e in g.edges if g.edges[e]["pi"]),
            "stereo": [i for i in nodes if g.nodes[i].get("stereo")],
            "fine": bool(mol.rdkit_conf_gen_is_fine), "rdobj": mol.rdkit_mol_obj is not None,
            "finite": finite, "min_dist": mind}


def run_path(smiles, path, sym2z, charge=None, mult=None):
    """path in {'builtin','organic','ctor'} -> dict(outcome='built'|'valueerror'|'crash', obs, trace, build_ok, error)"""
    from autode.species.molecule import Molecule
    with Probe() as pr:
        try:
            if path == "ctor":
                kw = {}
                if charge is not None:
                    kw["charge"] = charge
                if mult is not None:
                    kw["mult"] = mult
                mol = Molecule(smiles=smiles, **kw)
            else:
                mol = Molecule(charge=charge, mult=mult)
                (pr.S.init_smiles if path == "builtin" else pr.S.init_organic_smiles)(mol, smiles)
            return {"outcome": "built", "obs": observe(mol, sym2z), "trace": list(pr.trace), "build_ok": pr.build_ok, "error": None}
        except ValueError as e:
            kind = "valueerror" if "SMILES charge was not the same" in str(e) else "crash"
            return {"outcome": kind, "obs": None, "trace": list(pr.trace), "build_ok": pr.build_ok, "error": f"ValueError: {e}"}
        except Exception as e:  # noqa
            return {"outcome": "crash", "obs": None, "trace": list(pr.trace), "build_ok": pr.build_ok,
                    "error": f"{type(e).__name__}: {e}", "tb": traceback.format_exc()[-1500:]}


# --------------------------------------------------------------------------------------------
# Coq literals
def coq_onat(x):
    return "None" if x is None else f"(Some {int(x)})"


def coq_oz(x):
    return "None" if x is None else f"(Some {coq_z(x)})"


def coq_pairs(ps):
    return coq_list([f"({int(i)}, {int(j)})" for i, j in ps])


def coq_inputs(pa, ref, rd, build_ok, unreasonable):
    pi_ref = ref["pi"] if ref is not None else set()
    atoms = coq_list([f"mkSAtom {a['z']} {coq_bool(a['arom'])} {a['nh']} {coq_z(a['charge'])} {coq_onat(a['cls'])} {coq_bool(a['mark'])}"
                      for a in pa["atoms"]])
    bonds = coq_list([f"mkSBond {i} {j} {o} {coq_bool(pa['atoms'][i]['arom'] and pa['atoms'][j]['arom'] and tuple(sorted((i, j))) in pi_ref)}"
                      for i, j, o in pa["bonds"]])
    rb = coq_list([f"mkRBond {i} {j} {coq_bool(ns)} {coq_bool(st)}" for i, j, ns, st in rd["bonds"]])
    rdk = (f"(mkRdk {coq_bool(rd['none'])} {coq_z(rd['charge'])} {rd['nrad']} {coq_list([str(z) for z in rd['atoms']])} "
           f"{rb} {coq_list([str(i) for i in rd['chiral']])} {coq_bool(unreasonable)})")
    # lazily perceived graph (only read when marks precede the rebuild): the SMILES connectivity, no flags
    n = len(pa["atoms"])
    tot = n + sum(a["nh"] for a in pa["atoms"])
    lz_nodes = coq_list([f"mkNode {a['z']} false None" for a in pa["atoms"]] + ["mkNode 1 false None"] * (tot - n))
    hb, k = [], n
    for i, a in enumerate(pa["atoms"]):
        for _ in range(a["nh"]):
            hb.append((i, k))
            k += 1
    lz_edges = coq_list([f"mkEdge {i} {j} false" for i, j, _ in pa["bonds"]] + [f"mkEdge {i} {j} false" for i, j in hb])
    return (f"(mkIn (mkSMol {atoms} {bonds}) {rdk} (mkBld {pa['max_ring']} {coq_bool(build_ok)}) (mkGraph {lz_nodes} {lz_edges}))")


def coq_eobs(r):
    if r["outcome"] == "valueerror":
        return "EValueError"
    if r["outcome"] == "crash":
        return "ECrash"
    o = r["obs"]
    return (f"(EBuilt (mkObs {coq_z(o['charge'])} {o['mult']} {coq_list([str(z) for z in o['atoms']])} "
            f"{coq_list([coq_onat(c) for c in o['classes']])} {coq_pairs(o['edges'])} {coq_pairs(o['pi'])} "
            f"{coq_list([str(i) for i in o['stereo']])} {coq_bool(o['fine'])} {coq_bool(o['rdobj'])}))")


# --------------------------------------------------------------------------------------------
# the property on the implementation
def site_of(path, r):
    if path == "ctor":
        return "init_smiles" if r["trace"] and r["trace"][-1] == "builtin" else "init_organic_smiles"
    if path == "organic" and r["trace"] and r["trace"][-1] == "builtin":
        return "init_smiles"
    return "init_smiles" if path == "builtin" else "init_organic_smiles"


def explicit_h_renumbering(ref):
    """RDKit (default removeHs) merges explicit [H] atoms into their neighbour and AddHs re-creates them after the heavy
    atoms.  -> old index -> new index, or None when the string has no removable explicit H."""
    n, z = ref["n_heavy"], ref["atoms"]
    nbrs = {i: [] for i in range(n)}
    for i, j in ref["heavy_bonds"]:
        nbrs[i].append(j)
        nbrs[j].append(i)
    expl = [i for i in range(n) if z[i] == 1]
    if not expl or any(len(nbrs[h]) != 1 or z[nbrs[h][0]] == 1 or ref["classes"][h] is not None for h in expl):
        return None
    keep = [i for i in range(n) if z[i] != 1]
    new = {i: k for k, i in enumerate(keep)}
    nxt, k, old_h = len(keep), n, {}
    for i in range(n):
        old_h[i] = list(range(k, k + ref["nh"][i]))
        k += ref["nh"][i]
    for i in keep:
        for h in [h for h in sorted(nbrs[i]) if z[h] == 1] + old_h[i]:
            new[h] = nxt
            nxt += 1
    return new


def property_failures(smiles, tags, ref, path, r, is_metal):
    """-> list of (key, what).  ref = RDKit reference of what the SMILES denotes."""
    out = []
    if r["outcome"] != "built":
        if not (path == "organic" and is_metal):      # Molecule never sends a metal-containing string to RDKit
            out.append((f"{site_of(path, r)}|raises", f"{path} path raised {r['error']}"))
        return out
    o, site = r["obs"], site_of(path, r)
    rdkit_site = site == "init_organic_smiles"

    def add(cls, what):
        out.append((f"{site}|{cls}", what))
    big = [c for c in ref["classes"] if c is not None and c >= 100]
    if rdkit_site and big and len(o["atoms"]) < len(ref["atoms"]):
        add("atom-class-ge-100-drops-atom", f"{len(o['atoms'])} atoms {o['atoms']} instead of {len(ref['atoms'])} and graph nodes {o['node_z']}: "
            f"atoms_from_rdkit_mol skips the mol-block line of an atom whose class {big} has three digits (15 tokens instead of 16)")
        return out
    if not o["nodes_ok"] or o["node_z"] != o["atoms"]:
        add("graph-nodes", f"graph nodes {o['node_z']} do not match atoms {o['atoms']}")
    # expected numbering: SMILES order, or (known RDKit-path deviation) explicit [H] atoms re-created after the heavy atoms
    want = {"atoms": ref["atoms"], "edges": ref["edges"], "pi": ref["pi"], "specified": ref["specified"], "genuine": ref["genuine"],
            "legacy": ref["legacy"], "classes": ref["classes"], "scan": ref["scan_footprint"]}
    defect_classes = None
    if o["atoms"] != ref["atoms"]:
        ren = explicit_h_renumbering(ref) if rdkit_site else None
        moved = None
        if ren is not None:
            moved = [None] * len(ref["atoms"])
            for old, nw in ren.items():
                moved[nw] = ref["atoms"][old]
        if moved is not None and o["atoms"] == moved:
            add("explicit-H-atom-order", f"atoms {o['atoms']} are not in SMILES order {ref['atoms']} (explicit [H] atoms moved to the end; "
                f"atom classes are then zipped onto the wrong atoms)")
            mp = lambda ps: {tuple(sorted((ren[i], ren[j]))) for i, j in ps}      # noqa: E731
            cl = [None] * len(moved)
            for old, nw in ren.items():
                cl[nw] = ref["classes"][old]
            want = {"atoms": moved, "edges": mp(ref["edges"]), "pi": mp(ref["pi"]), "specified": {ren[i] for i in ref["specified"]},
                    "genuine": {ren[i] for i in ref["genuine"]}, "legacy": {ren[i] for i in ref["legacy"]}, "classes": cl, "scan": set()}
            # the class of SMILES atom k lands on molecule atom k (zip over parser.atoms): part of the same known deviation
            defect_classes = [ref["classes"][k] if k < ref["n_heavy"] else None for k in range(len(moved))]
        elif not rdkit_site and "[se" in smiles and len(o["atoms"]) == len(ref["atoms"]) and \
                all(a == b or (a, b) == (16, 34) for a, b in zip(o["atoms"], ref["atoms"])):
            add("atoms-aromatic-se-read-as-s", f"aromatic bracket atom [se] is built as sulfur: atoms {o['atoms']} but the SMILES denotes {ref['atoms']} "
                f"(Parser._parse_sq_bracket takes 's' and ignores the 'e'); the RDKit path builds Se")
        else:
            add("atoms", f"atoms {o['atoms']} but the SMILES denotes {ref['atoms']} (heavy atoms in order, then one H per implicit hydrogen)")
    atoms_ok = o["atoms"] == want["atoms"]
    # a forced RDKit path on a metal string is compared on the graph only; the constructor always in full
    check_cm = path == "ctor" or not (is_metal and rdkit_site)
    if check_cm and o["charge"] != ref["charge"]:
        add("charge", f"charge {o['charge']} but the SMILES denotes {ref['charge']}")
    if check_cm and o["mult"] != ref["mult"]:
        if rdkit_site and ref["n_rad"] > 1 and ref["n_rad"] % 2 == 1:
            add("mult-odd-polyradical", f"multiplicity {o['mult']} for {sum(ref['atoms']) - ref['charge']} electrons ({ref['n_rad']} radical electrons): an odd electron count cannot be a singlet")
        else:
            add("mult", f"multiplicity {o['mult']} but the electron count gives {ref['mult']}")
    if atoms_ok:
        edges, pi, stereo = set(o["edges"]), set(o["pi"]), set(o["stereo"])
        if edges != want["edges"]:
            add("edges", f"edges differ from the SMILES bonds: extra {sorted(edges - want['edges'])}, missing {sorted(want['edges'] - edges)}")
        extra, missing = pi - want["pi"], want["pi"] - pi
        if extra:
            low = ref["lower"] + [False] * len(ref["atoms"])
            if not rdkit_site and all(low[i] and low[j] and ref["ring_bond"].get((i, j)) is False for i, j in extra):
                add("pi-aromatic-linker", f"acyclic single bond(s) {sorted(extra)} joining two aromatic rings marked pi (neither multiple nor aromatic in the SMILES)")
            elif rdkit_site and extra <= ref["perceived_pi"] and all(ref["ring_bond"].get(b) for b in extra):
                add("pi-kekule-aromatised", f"bond(s) {sorted(extra)} written single in a Kekule ring marked pi (RDKit aromatises); the built-in path marks only the written double bonds")
            else:
                add("pi-extra", f"bond(s) {sorted(extra)} marked pi but neither multiple nor aromatic in the SMILES")
        if missing:
            add("pi-missing", f"multiple/aromatic bond(s) {sorted(missing)} not marked pi (marked: {sorted(pi)})")
        s_extra, s_missing = stereo - want["specified"], want["specified"] - stereo
        if s_extra:
            # known parser deviation: EXACTLY the footprint of the unbounded double-bond scans, nothing else
            if not rdkit_site and s_extra == want["scan"] - want["specified"]:
                add("stereo-extra-atom", f"atom(s) {sorted(s_extra)} marked stereo without carrying stereochemistry (marked {sorted(stereo)}, SMILES specifies {sorted(want['specified'])}): "
                    f"double-bond ends reached by the parser's unbounded '/' scan")
            else:
                add("stereo-extra", f"atom(s) {sorted(s_extra)} marked stereo, SMILES specifies {sorted(want['specified'])}"
                    + (f" (the known parser scan deviation would give exactly {sorted(want['scan'] - want['specified'])})" if not rdkit_site and want["scan"] else ""))
        if s_missing:
            lost, dropped = s_missing & want["genuine"], s_missing - want["genuine"]
            if rdkit_site and dropped:
                add("stereo-mark-not-a-stereocentre", f"specified stereo mark(s) on atom(s) {sorted(dropped)} dropped (not a stereocentre by RDKit's stereo perception, "
                    f"FindPotentialStereo); the built-in path keeps them")
            elif dropped:
                add("stereo-missing", f"atom(s) {sorted(dropped)} carry a specified stereo mark but are not marked (marked: {sorted(stereo)})")
            if lost:
                if rdkit_site and not (lost & want["legacy"]):
                    add("stereo-centre-missed-by-legacy-perception", f"atom(s) {sorted(lost)} ARE specified stereocentres (Chem.FindPotentialStereo; e.g. cis/trans ring centres) "
                        f"but are not marked: the legacy FindMolChiralCenters(rdkit_mol) does not report them; the built-in path marks them")
                else:
                    add("stereo-missing", f"atom(s) {sorted(lost)} carry specified stereochemistry but are not marked (marked: {sorted(stereo)})")
        if o["classes"] != want["classes"]:
            if defect_classes is not None and o["classes"] == defect_classes:
                pass        # reported above under explicit-H-atom-order
            elif not rdkit_site and not r["build_ok"] and all(c is None for c in o["classes"]):
                add("class-lost-on-build-failure", f"atom classes {want['classes']} lost (graph has {o['classes']}): Builder.build failed and canonical_atoms_at_origin drops atom_class")
            else:
                add("classes", f"node atom classes {o['classes']} but the SMILES gives {want['classes']}")
    if o["atom_classes"] != o["classes"]:
        add("atom-vs-node-class", f"Atom.atom_class {o['atom_classes']} differs from the graph's {o['classes']}")
    if not o["finite"] or (o["min_dist"] is not None and not o["min_dist"] > 1e-6):
        add("coordinates", f"coordinates not finite / not pairwise distinct (min distance {o['min_dist']})")
    return out


GRAPH_FIELDS = ("atoms", "edges", "pi", "stereo", "classes")


# --------------------------------------------------------------------------------------------
def explicit_args(ref):
    """explicit (charge, mult) constructor arguments: right charge, wrong charge, explicit triplet, explicit defaults"""
    return ((ref["charge"], None), (ref["charge"] + 1, None), (None, 3), (ref["charge"], 1))


def collect(job):
    """worker (own process): everything that touches autodE / RDKit for one SMILES -> plain data"""
    smiles, tags, want_variants, workdir = job
    os.chdir(workdir)
    import logging
    logging.disable(logging.CRITICAL)
    from rdkit import RDLogger
    RDLogger.DisableLog("rdApp.*")
    metals = metals_table()
    sym2z = elements_table()
    ref = reference(smiles)
    if ref is None:
        return {"smiles": smiles, "tags": tags, "skip": "no-rdkit-reference"}
    try:
        pa = parsed(smiles, sym2z)
    except Exception as e:  # noqa
        return {"smiles": smiles, "tags": tags, "skip": f"parser-{type(e).__name__}"}
    rd = rdkit_oracle(smiles)
    is_metal = substring_metal(smiles, metals)       # the selection predicate as Molecule._init_smiles states it
    runs = {}
    for path in ("builtin", "organic", "ctor"):
        if path == "organic" and not pa["set_atoms_bonds_ok"]:
            continue
        runs[path] = run_path(smiles, path, sym2z)
    variants = []
    if want_variants:
        for charge, mult in explicit_args(ref):
            variants.append((charge, mult, run_path(smiles, "ctor", sym2z, charge=charge, mult=mult)))
    return {"smiles": smiles, "tags": tags, "skip": None, "ref": ref, "pa": pa, "rd": rd, "is_metal": is_metal,
            "true_metal": bracket_is_metal(smiles, metals, sym2z),
            "runs": runs, "variants": variants}


def account(ctx, data, terms, descr, found):
    """parent: evaluate the property on the collected observations, emit correspondence terms"""
    smiles, tags = data["smiles"], data["tags"]
    if data["skip"]:
        ctx.hist("generator", "skipped:" + data["skip"])
        return
    ref, pa, rd, is_metal, runs = data["ref"], data["pa"], data["rd"], data["is_metal"], data["runs"]
    for t in tags:
        ctx.hist("generator", t)
    if not ref["sanitized"]:
        ctx.hist("generator", "rdkit-rejects (reference from the unsanitized parse)")
    if data["is_metal"] != data["true_metal"]:
        ctx.hist("generator", "bracket contains a metal symbol only as a substring (e.g. [Kr]): init_smiles selected")
    ctx.hist("generator", f"atoms:{min(len(ref['atoms']) // 8 * 8, 40)}+")
    mine = []
    nontrivial = len(ref["atoms"]) > 1
    if "organic" not in runs:
        ctx.hist("impl-oracle", "organic-skipped:set_atoms_bonds-raises")
    for path, r in runs.items():
        ctx.count("impl-oracle", (smiles, path), nontrivial, sample={"smiles": smiles, "path": path, "tags": tags})
        for key, what in property_failures(smiles, tags, ref, path, r, is_metal):
            found.append(key)
            mine.append(key)
            ctx.hist("impl-oracle", "fail:" + key)
            if found.count(key) > 2:        # at most two concrete replays per finding key
                continue
            ctx.finding(key, f"{what}  [SMILES {smiles!r}, {path} path]",
                        {"smiles": smiles, "path": path, "key": key, "observed": r["obs"], "error": r["error"],
                         "reference": {k: (sorted(v) if isinstance(v, set) else v) for k, v in ref.items() if k != "ring_bond"}})
    # the two forced paths must agree on the graph annotation (implied by the per-path checks; kept as a direct check)
    a, b = runs.get("builtin"), runs.get("organic")
    if a and b and a["outcome"] == b["outcome"] == "built":
        ctx.count("paths-agree", smiles, nontrivial)
        for f in GRAPH_FIELDS:
            if a["obs"][f] != b["obs"][f]:
                ctx.hist("paths-agree", f"differ:{f}")
                if not mine:
                    found.append(f"paths|differ-{f}")
                    ctx.finding(f"paths|differ-{f}", f"forcing the two build paths gives different {f} for {smiles!r}: "
                                f"init_smiles {a['obs'][f]} vs init_organic_smiles {b['obs'][f]}", {"smiles": smiles, "path": "both", "field": f})
    # constructor = the path the decision table selects
    c = runs.get("ctor")
    if c and c["outcome"] == "built":
        expect = "builtin" if c["trace"][-1] == "builtin" else "organic"
        e = runs.get(expect)
        if e and e["outcome"] == "built" and any(c["obs"][f] != e["obs"][f] for f in GRAPH_FIELDS + ("charge", "mult")):
            found.append("Molecule|ctor-differs-from-path")
            ctx.finding("Molecule|ctor-differs-from-path", f"Molecule(smiles={smiles!r}) differs from its own build path called directly",
                        {"smiles": smiles, "path": "ctor"})
        want = ["builtin"] if is_metal else (["organic", "builtin"] if (pa["max_ring"] >= 8 or len(ref["atoms"]) == 1 or rd["none"]) else ["organic"])
        if c["trace"] != want:
            found.append("Molecule|path-selection")
            ctx.finding("Molecule|path-selection", f"Molecule(smiles={smiles!r}) entered {c['trace']}, the decision table says {want}",
                        {"smiles": smiles, "path": "ctor", "trace": c["trace"], "want": want})

    # ---- correspondence terms
    def add(term, d, key):
        terms.append(term)
        descr.append(d)
        ctx.count("model-vs-impl", key, nontrivial, sample=d)

    def inputs_for(r):
        unreasonable = bool(r["obs"] is not None and r["trace"] and r["trace"][-1] == "organic" and not r["obs"]["fine"])
        return coq_inputs(pa, ref, rd, r["build_ok"], unreasonable)
    dropped = [p for p, r in runs.items() if any(k.endswith("|atom-class-ge-100-drops-atom") for k in mine)
               and r["trace"] and r["trace"][-1] == "organic"]
    if dropped:
        ctx.hist("model-vs-impl", "skipped: RDKit-path terms of an atom-class>=100 string (model takes RDKit's atom list, not the mol block)")
        runs = {p: r for p, r in runs.items() if p not in dropped}
    c = runs.get("ctor")
    for path, fn in (("builtin", "check_builtin"), ("organic", "check_organic")):
        if path in runs:
            r = runs[path]
            add(f"{fn} {inputs_for(r)} 0%Z 1 {coq_eobs(r)}", {"smiles": smiles, "path": path, "kind": "forced"}, (smiles, path))
    if c:
        I = inputs_for(c)
        add(f"check_top {I} {coq_bool(is_metal)} None None {coq_eobs(c)}", {"smiles": smiles, "path": "ctor", "kind": "top"}, (smiles, "ctor"))
        tr = coq_list(["PBuiltin" if t == "builtin" else "POrganic" for t in c["trace"]])
        add(f"check_trace {I} {coq_bool(is_metal)} {tr}", {"smiles": smiles, "path": "ctor", "kind": "trace"}, (smiles, "trace"))
        for k, nm in enumerate(("wf", "arom_consistent", "rdk_agrees", "build_ok")):
            terms.append(f"nth {k} (hyp_flags {I}) false")
            descr.append({"smiles": smiles, "kind": "hyp", "hyp": nm})
    # ---- Molecule(smiles, charge=..., mult=...): right charge accepted, wrong charge -> ValueError, mult kept
    for charge, mult, r in data["variants"]:
        ctx.count("impl-oracle", (smiles, "ctor", charge, mult), True)
        if charge is not None and charge != ref["charge"]:
            if r["outcome"] != "valueerror":
                found.append("Molecule|wrong-charge-accepted")
                ctx.finding("Molecule|wrong-charge-accepted", f"Molecule(smiles={smiles!r}, charge={charge}) did not raise ValueError (SMILES charge {ref['charge']}): {r['outcome']}",
                            {"smiles": smiles, "path": "ctor", "charge": charge, "mult": mult})
        elif r["outcome"] != "built":
            found.append("Molecule|explicit-args-raise")
            ctx.finding("Molecule|explicit-args-raise", f"Molecule(smiles={smiles!r}, charge={charge}, mult={mult}) raised {r['error']}",
                        {"smiles": smiles, "path": "ctor", "charge": charge, "mult": mult})
        elif mult == 3 and r["obs"]["mult"] != 3:
            found.append("Molecule|explicit-mult-overridden")
            ctx.finding("Molecule|explicit-mult-overridden", f"Molecule(smiles={smiles!r}, mult=3) has mult {r['obs']['mult']}",
                        {"smiles": smiles, "path": "ctor", "charge": charge, "mult": mult})
        d = {"smiles": smiles, "path": "ctor", "kind": "explicit", "charge": charge, "mult": mult}
        terms.append(f"check_top {inputs_for(r)} {coq_bool(is_metal)} {coq_oz(charge)} {coq_onat(mult)} {coq_eobs(r)}")
        descr.append(d)
        ctx.count("model-vs-impl", (smiles, "ctor", charge, mult), True, sample=d)


def run(ctx):
    sys.path.insert(0, REPO)
    os.chdir(ctx.work)          # get_simanl_atoms would read <name>_conf0_siman.xyz from the cwd
    import logging
    logging.disable(logging.CRITICAL)
    from rdkit import RDLogger
    RDLogger.DisableLog("rdApp.*")
    pins_changed = source_pins(ctx.pid, PINS)
    ctx.cov["source_pins"] = {"pinned": len(PINS), "changed": pins_changed}
    if pins_changed:
        ctx.log("source pins changed:", pins_changed)
    # 1. regenerate the model from the repository
    rc, out = sh(["python3", f"{VERIF}/tr/translate_c02.py"], timeout=120)
    ctx.log("translator:", out.strip()[:400])
    translated = rc == 0
    if translated:
        try:
            import json as _json
            TR_INFO["chiral_legacy"] = bool(_json.loads(out.strip().split("translated:", 1)[1]).get("chiral_legacy", True))
        except Exception:  # noqa
            pass
    ctx.cov["translator"] = {"ok": translated, "output": out.strip()[:1500]}
    # 2. proofs over the regenerated operation lists
    info = {"hygiene": [], "log_tail": out, "build_ok": False}
    proofs_ok = False
    if translated:
        proofs_ok, info = ctx.proofs(SLICE, "C02/Props.v", "AV.C02.Props", extra_targets=["C02/Corr.vo"])
        ctx.log("proofs:", "ok" if proofs_ok else "BROKEN")
        if not proofs_ok:
            ctx.log(info["log_tail"][-800:])
        ctx.cov["print_assumptions"] = info.get("assumptions", {})
    else:
        ctx.cov["obligations"] += len(ctx.theorems_in("C02/Props.v"))
        ctx.cov["checker_cmd"] = "translator failed closed; proofs not attempted"
    # 3. + 4. implementation oracles and correspondence terms, molecule by molecule (built in worker processes:
    #    autodE forks one process per chirality test, which dominates the cost)
    import autode.species.molecule  # noqa: F401  (import once, before forking)
    import multiprocessing
    from concurrent.futures import ProcessPoolExecutor
    terms, descr, found = [], [], []
    cases = gen_smiles(ctx)
    jobs, n_var = [], 0
    for k, (smiles, tags) in enumerate(cases):
        want = (("charged" in tags) or k % 6 == 0) and n_var < (6 if ctx.quick else 40)
        n_var += bool(want)
        jobs.append((smiles, tags, want, ctx.work))
    with ProcessPoolExecutor(max_workers=min(8, os.cpu_count() or 2), mp_context=multiprocessing.get_context("fork")) as ex:
        for data in ex.map(collect, jobs):
            account(ctx, data, terms, descr, found)
    ctx.log(f"implementation oracles: {len(cases)} SMILES, {len(found)} property failures "
            f"({sorted(set(found))})")
    ctx.check_known_still_fail(set(found))
    corr_bad, corr_err = [], None
    if translated:
        ok_corr = proofs_ok
        if not proofs_ok:
            # the proofs may be broken by a source change while the model itself still compiles:
            # the correspondence is still informative
            ok_corr, _ = ctx.coq_make(["C02/Corr.vo"])
        if ok_corr:
            bad, corr_err = ctx.coq_bad_indices(PRE, terms, per_file=40, name="c02cases")
            hyp_false = {}
            for i in bad:
                if descr[i].get("kind") == "hyp":
                    hyp_false.setdefault(descr[i]["smiles"], []).append(descr[i]["hyp"])
                else:
                    corr_bad.append(i)
            n_mol = len({d["smiles"] for d in descr if d.get("kind") == "hyp"})
            ctx.cov["streams"].setdefault("model-vs-impl", {})["molecules_satisfying_all_theorem_hypotheses"] = n_mol - len(hyp_false)
            ctx.cov["streams"]["model-vs-impl"]["molecules"] = n_mol
            ctx.cov["streams"]["model-vs-impl"]["hypothesis_false"] = {k: v for k, v in list(hyp_false.items())[:30]}
            if any("wf" in v for v in hyp_false.values()):
                corr_bad.append(next(i for i in bad if descr[i].get("hyp") == "wf"))
            ctx.log(f"correspondence: {len(terms)} terms, {len(corr_bad)} disagreements; all theorem hypotheses hold on "
                    f"{n_mol - len(hyp_false)}/{n_mol} molecules" + (f"; coq error {corr_err[:300]}" if corr_err else ""))
            ctx.cov["disagreements"] = len(corr_bad)
        else:
            corr_err = "model does not compile"
    # 5. decide
    if not proofs_ok:
        ctx.proof_failure(info, found_any_input=bool(ctx.violations))
    if corr_bad or corr_err:
        if not ctx.violations:
            ctx.violation("model and implementation disagree (correspondence stream model-vs-impl) and no property-level oracle failed on the implementation",
                          {"kind": "correspondence", "first": [descr[i] for i in corr_bad[:6]],
                           "coq_terms": [terms[i][:3000] for i in corr_bad[:2]], "coq_error": corr_err}, found_input=False)
        else:
            ctx.log(f"correspondence disagreements ({[descr[i] for i in corr_bad[:4]]}) accompany the implementation-level findings above")
    if pins_changed and not ctx.violations:
        ctx.violation("hand model no longer pinned to the source: " + ", ".join(pins_changed),
                      {"kind": "source-pin", "changed": pins_changed}, found_input=False)


def replay(ctx, obj):
    sys.path.insert(0, REPO)
    os.chdir(ctx.work)
    import logging
    logging.disable(logging.CRITICAL)
    metals = metals_table()
    sym2z = elements_table()
    rep = obj.get("replay", {})
    smiles = rep.get("smiles")
    if smiles is None:
        print("replay: no SMILES stored:", obj.get("what"))
        return 1
    ref = reference(smiles)
    nfail = 0
    for path in ([rep["path"]] if rep.get("path") in ("builtin", "organic", "ctor") else ["builtin", "organic", "ctor"]):
        r = run_path(smiles, path, sym2z, charge=rep.get("charge"), mult=rep.get("mult"))
        fails = property_failures(smiles, [], ref, path, r, substring_metal(smiles, metals)) if ref else []
        print(f"replay {smiles!r} path={path}: outcome={r['outcome']} trace={r['trace']} obs={r['obs']}")
        for key, what in fails:
            nfail += 1
            print("  FAIL", key, "-", what)
    print("replay: failures =", nfail, "; stored:", obj.get("what"))
    return 1 if nfail else 0


MANIFEST = {
    "technique": "Coq proof over operation sequences regenerated from source (ast translator) + model/implementation correspondence and RDKit-referenced property oracles on generated SMILES",
    "level_text": ("Machine-checked theorems (coq/C02/Props.v, 16, closed under the global context) over the operation sequences translated from init_organic_smiles and "
                   "init_smiles on every run, for EVERY parsed SMILES molecule.  Built-in path (premise: parser well-formedness only): no statement raises; edges = parsed bonds plus one "
                   "bond per explicit hydrogen; stereo set = the parser's marked atoms; classes on the nodes (also after a failed build); atoms = SMILES atoms then hydrogens with the H-count "
                   "arithmetic; pi set = {order > 1 or aromatic} for molecules without an aromatic linker (refuted with a witness otherwise); charge/multiplicity.  NOTE these are "
                   "statement-order / wiring theorems: the specification side IS the parser output.  RDKit path: rdkit_path_copies_oracle proves, assuming only in-range indices, that the "
                   "store is a copy of the RDKit oracle (atoms, bonds, non-single bonds -> pi, chiral centres and stereo-bond ends -> stereo, charge, translated calc_multiplicity); the RDKit "
                   "halves of the other theorems and paths_agree are this composed with the premise rdk_agrees (the oracle equals the specification), which the harness evaluates per molecule "
                   "and which is FALSE exactly where the RDKit path deviates (ring cis/trans centres, Kekule rings, explicit [H], marks on non-stereocentres).  Path selection, explicit "
                   "charge/multiplicity and the composition constructor -> path result as a decision table over an oracle boolean `metal`.  PARTIAL: 3D embedding is an oracle (finite, "
                   "pairwise distinct coordinates are observed only); the SMILES parser (C01) and RDKit are inputs; whether the annotation equals what the SMILES denotes is decided by "
                   "the RDKit-referenced implementation oracles, not by the theorems."),
    "level_note": ("Trusted: Coq kernel; tr/translate_c02.py; the hand model of make_graph / networkx attribute semantics / hydrogen expansion / atoms setter (source text compared each run, "
                   "35 further functions hash-pinned, behaviour validated by the correspondence on every generated molecule and path).  Definitional/tripwire theorems (audit): "
                   "charge_and_multiplicity_builtin, rebuild_forgets_marks, translated_helpers_match_model, the built-in half of pi_flags_exact restate definitions and only fix statement order; "
                   "path_selection_table takes `metal` as a free boolean (its relation to the string is exercised by check_trace only).  Not modelled: Builder.set_atoms_bonds raising on "
                   "> 8 neighbours, coordinates."),
}
