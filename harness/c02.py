"""C02 — molecules built from SMILES agree with the SMILES on every build path (DESIGN 6/C02).

Tie: tr/translate_c02.py re-reads init_organic_smiles / init_smiles / calc_multiplicity /
Molecule._init_smiles (and checks the helper functions the model writes by hand) on every run and
emits them as operation lists (coq/gen/C02_Gen.v); the theorems of coq/C02/Props.v are re-checked over
those lists.  The model is then run against the implementation on generated SMILES (each path forced by
calling init_smiles / init_organic_smiles on a blank Molecule, plus the constructor), and the
property itself is evaluated on the implementation with RDKit - called here, independently of
autodE - as the reference for what the SMILES denotes.  3D embedding is an oracle: coordinates are only
observed to be finite and pairwise distinct.
"""
import os
import re
import sys
import traceback

import numpy as np

from common import REPO, VERIF, coq_bool, coq_list, coq_z, sh, source_pins

TRUSTED_BASE = [
    "Coq 8.16.1 kernel + coqc (vm_compute only in the correspondence shards and in the concrete _refuted / Example witnesses; no native_compute)",
    "Print Assumptions: every C02 theorem is closed under the global context (nat/Z/list only)",
    "translator tr/translate_c02.py (Python ast -> gen/C02_Gen.v, fail-closed, matches statements by ast.dump; drops logging and the RDKit embedding calls; "
    "one RDKit bond loop setting pi and stereo is emitted as two consecutive marks: independent attributes)",
    "hand model coq/C02/Model.v of make_graph(bond_list), networkx add_edge/attribute assignment, Builder._explicit_all_hydrogens, the Species.atoms setter, "
    "lazy Species.graph, canonical_atoms(_at_origin): their source text is compared with the text the model was written from (translator) and their behaviour by the correspondence",
    "oracles (not verified): RDKit (MolFromSmiles, AddHs, formal charge, radical electrons, bond types, stereo perception, ETKDG embedding), "
    "autodE's SMILES Parser (property C01), Builder.build / get_simanl_atoms (3D coordinates), minimum_cycle_basis (max_ring_n)",
    "reference for 'what the SMILES denotes' in the implementation oracles: RDKit called by the harness (sanitized mol with removeHs=False for atoms/H counts/charges/classes/perceived stereo; "
    "unsanitized mol for bond orders, chiral tags and bond directions as written)",
    "the harness: SMILES generator, canonicalisation of the observed graph, literal printer",
]
ASSUMPTIONS = [
    "the parsed SMILES (parser.atoms/bonds) is an INPUT of the model: parser defects are visible only through the implementation oracles (RDKit reference)",
    "coordinates: finite and pairwise distinct (> 1e-6 A) is observed on every built molecule, not proved (3D embedding is an oracle: partial claim)",
    "multiplicity 'as the SMILES denotes' = lowest multiplicity compatible with the electron count (autodE's documented convention: several unpaired electrons default to a singlet)",
    "a bond is 'aromatic in the SMILES' when it joins two lower-case atoms and RDKit perceives it aromatic; 'multiple' is the bond symbol as written",
    "forced RDKit path on metal-containing strings: only atoms/bonds/pi/stereo/classes are compared (charge and multiplicity through RDKit's radical count are not meaningful for metals and Molecule never takes that path)",
]
RULE = ("one case = one generated SMILES x one build path (init_smiles forced, init_organic_smiles forced, Molecule constructor; plus explicit charge/mult variants). "
        "SMILES: every special string of each input class (single atoms, >=8-membered rings, metals with one- and two-letter symbols and odd/even electron counts, "
        "9-coordinate centres with implicit/bracket/explicit hydrogens (builder failure), quadruple '$' bonds, fused/aromatic rings, biphenyl linkers, Kekule rings, "
        "charged, radicals incl. odd poly-radical, tetrahedral and double-bond stereo incl. marks on non-stereocentres and three-coordinate S/P lone-pair centres in both hands, atom classes, explicit [H]) plus random template x substituent "
        "combinations; a case is non-trivial when the molecule has >1 atom; distinct by (SMILES, path, charge, mult)")

# Functions the hand-written parts of coq/C02/Model.v (and the observation/decision code of this harness) were
# written from and that tr/translate_c02.py does NOT already regenerate or compare statement by statement.
# (Translated: init_organic_smiles, init_smiles, calc_multiplicity, Molecule._init_smiles, the pi rule.  Compared by
#  the translator: check_bonds, make_graph's bond_list branch, Builder._explicit_all_hydrogens / set_atoms_bonds
#  prologue / canonical_atoms(_at_origin) / max_ring_n / build's first statement, the setters Species.atoms / charge /
#  mult and AtomCollection.atoms, Species.graph, SMILESAtom.is_aromatic / has_stereochem, Parser.charge / mult, and the
#  tables aromatic_symbols, bond_order_symbols, metals.)
PINS = [
    ("autode/species/molecule.py", "Molecule.__init__"),                 # Model.init_state; passes charge on to _init_smiles
    ("autode/species/species.py", "Species.__init__"),                   # charge / mult / no atoms, no graph
    ("autode/species/species.py", "Species.charge"),
    ("autode/species/species.py", "Species.mult"),
    ("autode/species/species.py", "Species.has_reasonable_coordinates"),  # ResimIfUnreasonable: touches the lazy graph
    ("autode/conformers/conformers.py", "atoms_from_rdkit_mol"),         # AtRdkit: labels in mol-block order, no atom_class
    ("autode/conformers/conf_gen.py", "get_simanl_atoms"),               # AtSimanl: moved copies of the same atoms, reads species.graph
    ("autode/smiles/base.py", "SMILESAtom.__init__"),                    # satom fields; new H atoms have no class / mark
    ("autode/smiles/base.py", "SMILESBond.__init__"),                    # order from the bond symbol
    ("autode/smiles/base.py", "SMILESBond.__getitem__"),                 # idx_i, idx_j = bond
    ("autode/smiles/base.py", "SMILESBond.symbol"),
    ("autode/smiles/base.py", "SMILESBond.atom_indexes"),
    ("autode/smiles/base.py", "SMILESBonds._bond_exists"),               # wf_mol: no duplicate / self bonds
    ("autode/smiles/base.py", "SMILESBonds.append"),
    ("autode/smiles/base.py", "SMILESBonds.insert"),
    ("autode/atoms.py", "AtomCollection.n_atoms"),                       # builder.n_atoms (GNAtomsEq), species.n_atoms == 0
    ("autode/atoms.py", "AtomCollection.atoms"),
    ("autode/atoms.py", "Atom.__init__"),                                # label, atom_class
    ("autode/atoms.py", "Atom.atomic_number"),                           # Parser.mult electron count
]

SLICE = ["C02/Model.v", "C02/Lemmas.v", "C02/Props.v", "C02/Corr.v", "gen/C02_Gen.v"]
PRE = ("From Coq Require Import ZArith List Bool Arith.\nFrom AV.lib Require Import QcInst.\n"
       "From AV.C02 Require Import Model Corr.\nFrom AV.gen Require Import C02_Gen.\nImport ListNotations.\n")

AROMATIC = ("b", "c", "n", "o", "s", "p")

# --------------------------------------------------------------------------------------------
# generator
SPECIALS = [
    # (smiles, tags)
    ("C/C=C/C(=O)O", ["db-stereo", "extra-atom"]),
    ("c1ccccc1-c1ccncc1", ["aromatic", "linker"]),
    ("C1=CC=CC=C1", ["kekule"]),
    ("C[C]", ["radical", "polyradical-odd"]),
    ("[C@H](C)(C)F", ["tet-stereo", "nongenuine"]),
    ("[H]C[Cl:5]", ["explicit-H", "class"]),
    ("[La:1](F)(F)(F)(F)(F)(F)(F)(F)F", ["metal", "class", "build-fails"]),
    ("C1CCCCCCC1", ["ring8"]),
    ("[Cu]", ["metal", "single-atom"]),
    ("[CH3:3][C@H](F)Cl", ["tet-stereo", "class"]),
    ("c1ccc2ccccc2c1", ["aromatic", "fused"]),
    ("C[N+](C)(C)CC(=O)[O-]", ["charged"]),
    ("[Fe](Cl)Cl", ["metal"]),
    ("F/C=C\\F", ["db-stereo"]),
    ("[CH2]C[CH2]", ["radical"]),
    ("C[CH2]", ["radical"]),
    # one-letter metal symbols (K, V, W, Y, U) and two-letter ones, odd and even electron counts
    ("Cl[V](Cl)(Cl)Cl", ["metal", "metal-1letter", "odd-electrons"]),
    ("Cl[W](Cl)(Cl)(Cl)Cl", ["metal", "metal-1letter", "odd-electrons"]),
    ("Cl[V](Cl)Cl", ["metal", "metal-1letter"]),
    ("Cl[Y](Cl)Cl", ["metal", "metal-1letter"]),
    ("[K+]", ["metal", "metal-1letter", "single-atom", "charged"]),
    ("[U]", ["metal", "metal-1letter", "single-atom"]),
    ("Cl[Ti](Cl)Cl", ["metal", "odd-electrons"]),
    # coordination number 9: Builder.build fails, hydrogens implicit (CH3) and in the bracket (H9)
    ("C[Fe](C)(C)(C)(C)(C)(C)(C)C", ["metal", "build-fails", "odd-electrons"]),
    ("[ReH9-2]", ["metal", "build-fails", "charged"]),
    # quadruple bonds
    ("[Mo]$[Mo]", ["metal", "quadruple"]),
    ("Cl[Re-](Cl)(Cl)(Cl)$[Re-](Cl)(Cl)(Cl)Cl", ["metal", "quadruple", "charged"]),
    ("CC(=O)O[Cr]$[Cr]OC(C)=O", ["metal", "quadruple"]),
    # three-coordinate lone-pair stereocentres (sulfoxide, phosphine, sulfonium)
    ("C[S@](=O)CC", ["tet-stereo", "lone-pair-centre"]),
    ("C[P@@](CC)c1ccccc1", ["tet-stereo", "lone-pair-centre", "aromatic"]),
    ("C[S@+](CC)CCC", ["tet-stereo", "lone-pair-centre", "charged"]),
    # ---- thorough tier continues (quick takes the first 31) ----
    ("C[S@@](=O)CC", ["tet-stereo", "lone-pair-centre"]), ("C[P@](CC)c1ccccc1", ["tet-stereo", "lone-pair-centre", "aromatic"]),
    ("C[S@@+](CC)CCC", ["tet-stereo", "lone-pair-centre", "charged"]), ("C[S@](=O)c1ccccc1", ["tet-stereo", "lone-pair-centre", "aromatic"]),
    ("C[S@@](=O)c1ccccc1", ["tet-stereo", "lone-pair-centre", "aromatic"]), ("C[P@](=O)(CC)c1ccccc1", ["tet-stereo"]),
    ("C[P@@](=O)(CC)c1ccccc1", ["tet-stereo"]), ("CC[S@](=O)C=C", ["tet-stereo", "lone-pair-centre"]), ("C[P@](CC)CCC", ["tet-stereo", "lone-pair-centre"]),
    ("C[P@@](CC)C=C", ["tet-stereo", "lone-pair-centre"]), ("C[N@+](CC)(CCC)C=C", ["tet-stereo", "charged"]), ("C[S@@+](CC)c1ccccc1", ["tet-stereo", "lone-pair-centre", "charged", "aromatic"]),
    ("C[W](C)(C)(C)C", ["metal", "metal-1letter", "odd-electrons"]), ("[K]", ["metal", "metal-1letter", "single-atom", "odd-electrons"]),
    ("[V]", ["metal", "metal-1letter", "single-atom", "odd-electrons"]), ("[W]", ["metal", "metal-1letter", "single-atom"]),
    ("[Y]", ["metal", "metal-1letter", "single-atom", "odd-electrons"]), ("C[K]", ["metal", "metal-1letter"]), ("Cl[Y]Cl", ["metal", "metal-1letter", "odd-electrons"]),
    ("Cl[W](Cl)(Cl)(Cl)(Cl)Cl", ["metal", "metal-1letter"]), ("O=[V](Cl)(Cl)Cl", ["metal", "metal-1letter"]), ("Cl[Co](Cl)Cl", ["metal"]), ("Cl[Mn]Cl", ["metal", "odd-electrons"]),
    ("[CH3:1][Fe](C)(C)(C)(C)(C)(C)(C)C", ["metal", "build-fails", "class"]), ("O[La](O)(O)(O)(O)(O)(O)(O)O", ["metal", "build-fails"]),
    ("[H][Re-2]([H])([H])([H])([H])([H])([H])([H])[H]", ["metal", "build-fails", "explicit-H", "charged"]),
    ("[W]$[W]", ["metal", "metal-1letter", "quadruple"]), ("C[Mo](C)$[Mo](C)C", ["metal", "quadruple"]), ("Cl[Cr]$[Cr]Cl", ["metal", "quadruple"]),
    ("[H]", ["single-atom"]), ("C", ["single-atom"]), ("[Na+]", ["metal", "single-atom", "charged"]), ("[F-]", ["single-atom", "charged"]),
    ("O", ["single-atom"]), ("[OH-]", ["charged"]), ("[NH4+]", ["charged"]), ("[H][H]", ["explicit-H"]),
    ("C1CCCCCCCC1", ["ring8"]), ("O=C1CCCCCCCCC1", ["ring8"]), ("C1CCCCCCC1[CH3:2]", ["ring8", "class"]), ("C1CCCCCCC/C=C/1", ["ring8", "db-stereo"]),
    ("c1ccc2[nH]ccc2c1", ["aromatic", "fused"]), ("C1CCC2CCCCC2C1", ["fused"]), ("C1CC2CCC1C2", ["fused"]), ("C1C2CC3CC1CC(C2)C3", ["fused"]),
    ("c1ccoc1", ["aromatic"]), ("c1ccsc1", ["aromatic"]), ("c1ccncc1", ["aromatic"]), ("c1ccccc1c1ccccc1", ["aromatic", "linker"]),
    ("Cc1ccccc1-c1ccccc1[Pd]Cl", ["aromatic", "linker", "metal"]),
    ("CC1=CC=CC=C1", ["kekule"]), ("C1=CC=NC=C1", ["kekule"]), ("C1=CC=CC1", []), ("O=C1C=CC(=O)C=C1", []),
    ("[CH3]", ["radical"]), ("C[O]", ["radical"]), ("[O][O]", ["radical"]),
    ("C[CH]C", ["radical"]), ("[CH]", ["radical", "polyradical-odd"]), ("C[N]", ["radical"]),
    ("C[C@H](C)O", ["tet-stereo", "nongenuine"]), ("C/C=C(/C)C", ["db-stereo", "nongenuine"]), ("C=CC(/F)=C/F", ["db-stereo", "extra-atom"]),
    ("F/C=C/CC=C/C=C/F", ["db-stereo", "extra-atom"]), ("F/C=C/C=C", ["db-stereo", "extra-atom"]), ("C[C@H](N)C(=O)O", ["tet-stereo"]),
    ("N[C@@H](C)C(=O)O", ["tet-stereo"]), ("C(/F)=C/F", ["db-stereo"]), ("OC[C@@H](O)[C@H](O)C=O", ["tet-stereo"]),
    ("[H]O[H]", ["explicit-H"]), ("[H]C([H])([H])[H]", ["explicit-H"]),
    ("C[Zn]C", ["metal"]), ("[Li]C", ["metal"]), ("C[Mg]Br", ["metal"]), ("Cl[Pt](Cl)(Cl)Cl", ["metal"]), ("C[Al](C)C", ["metal"]),
    ("[Ti](Cl)(Cl)(Cl)Cl", ["metal"]), ("O=[Mn](=O)(=O)[O-]", ["metal", "charged"]), ("c1ccccc1[Li]", ["metal", "aromatic"]),
    ("[CH3:1][Sn]([CH3:2])(C)C", ["metal", "class"]), ("[ReH9-2:3]", ["metal", "class", "charged", "build-fails"]),
    ("[CH3:1]C(=O)[OH:2]", ["class"]), ("[CH2:7]=O", ["class"]), ("c1cc[cH:4]cc1", ["class", "aromatic"]),
    ("CS(=O)(=O)C", []), ("CP(C)C", []), ("C#N", []), ("CC#CC", []), ("[O-][N+](=O)c1ccccc1", ["charged", "aromatic"]), ("C[NH3+]", ["charged"]),
]
N_QUICK_SPECIALS = 31

TEMPLATES = [
    ("{R}C(=O)O", []), ("{R}C#N", []), ("{R}C(=O)N{S}", []), ("c1ccc({R})cc1", ["aromatic"]), ("{R}c1ccc({S})cc1", ["aromatic"]),
    ("C1CC({R})CC1", []), ("{R}C1CCC({S})CC1", []), ("c1cc({R})ncc1", ["aromatic"]), ("{R}c1ccc2ccccc2c1", ["aromatic", "fused"]),
    ("{R}/C=C/{S}", ["db-stereo"]), ("{R}/C=C\\{S}", ["db-stereo"]), ("{R}/C=C/C(=O)O{S}", ["db-stereo", "extra-atom"]),
    ("{T}[C@H](F)Cl", ["tet-stereo"]), ("{T}[C@@H](F)Cl", ["tet-stereo"]), ("C[C@@H]({U})N", ["tet-stereo"]),
    ("{R}C(=O)[O-]", ["charged"]), ("{R}[NH2+]{S}", ["charged"]), ("{R}C1CCCCCCC1", ["ring8"]), ("{R}c1ccoc1", ["aromatic"]),
    ("{R}C1=CC=CC=C1", ["kekule"]), ("{R}C(C)=C{S}", []), ("{R}OC(=O){S}", []), ("{R}[Zn]{S}", ["metal"]), ("{R}S(=O)(=O){S}", []),
    ("{R}C1CC2CCC1C2", ["fused"]), ("{R}[Mo]$[Mo]{S}", ["metal", "quadruple"]), ("{R}[V]{S}", ["metal", "metal-1letter"]),
]
SUBS = ["C", "CC", "O", "N", "F", "Cl", "Br", "C(C)C", "C=C", "C#C", "CO", "C(=O)C", "[CH3:1]", "[CH2:2]C", "C2CC2", "c2ccccc2", "CS", "CCC"]
SUBS_T = ["C", "CC", "O", "N", "Br", "C=C", "[CH3:6]", "c2ccccc2"]       # keeps {T}[C@H](F)Cl a genuine centre
SUBS_U = ["CC", "O", "F", "Cl", "C=C", "c2ccccc2", "C(=O)O"]              # keeps C[C@@H]({U})N a genuine centre


def gen_smiles(ctx):
    specials = SPECIALS[:N_QUICK_SPECIALS] if ctx.quick else SPECIALS
    out = [(s, list(t) + ["special"]) for s, t in specials]
    n_random = 24 if ctx.quick else 260
    seen = {s for s, _ in out}
    tries = 0
    while len(out) < len(specials) + n_random and tries < 20 * n_random:
        tries += 1
        tpl, tags = ctx.rng.choice(TEMPLATES)
        r, s_, t, u = ctx.rng.choice(SUBS), ctx.rng.choice(SUBS), ctx.rng.choice(SUBS_T), ctx.rng.choice(SUBS_U)
        smi = tpl.replace("{R}", r).replace("{S}", s_).replace("{T}", t).replace("{U}", u)
        if smi in seen:
            continue
        seen.add(smi)
        tg = list(tags)
        used = [x for k, x in (("{R}", r), ("{S}", s_), ("{T}", t), ("{U}", u)) if k in tpl]
        if any(":" in x for x in used):
            tg.append("class")
        if "c2ccccc2" in used and "c1" in tpl:
            tg.append("linker")
        out.append((smi, tg + ["random"]))
    return out


# --------------------------------------------------------------------------------------------
# reference: what the SMILES denotes, by RDKit called here (never through autodE)
def elements_table():
    from rdkit import Chem
    pt = Chem.GetPeriodicTable()
    return {pt.GetElementSymbol(z): z for z in range(1, 119)}


def metals_table():
    """the harness's own copy of the metal symbols (tr/translate_c02.py compares it with autode.atoms.metals)"""
    import importlib.util
    spec = importlib.util.spec_from_file_location("translate_c02", os.path.join(VERIF, "tr", "translate_c02.py"))
    mod = importlib.util.module_from_spec(spec)
    spec.loader.exec_module(mod)
    return list(mod.METALS)


def bracket_is_metal(smiles, metals, sym2z):
    """element symbol of every bracket atom, parsed properly (not by substring)"""
    for m in re.finditer(r"\[([^\]]*)\]", smiles):
        body = re.sub(r"^\d+", "", m.group(1))
        sym = None
        if len(body) >= 2 and body[:2] in sym2z:
            sym = body[:2]
        elif body[:1] in sym2z:
            sym = body[:1]
        if sym in metals:
            return True
    return False


def reference(smiles):
    """-> dict or None when RDKit cannot give a sanitized molecule."""
    from rdkit import Chem
    from rdkit import RDLogger
    RDLogger.DisableLog("rdApp.*")
    p = Chem.SmilesParserParams()
    p.removeHs = False
    ref = Chem.MolFromSmiles(smiles, p)
    p2 = Chem.SmilesParserParams()
    p2.removeHs = False
    p2.sanitize = False
    raw = Chem.MolFromSmiles(smiles, p2)
    if ref is None or raw is None or ref.GetNumAtoms() != raw.GetNumAtoms():
        return None
    n = ref.GetNumAtoms()
    z = [a.GetAtomicNum() for a in ref.GetAtoms()]
    nh = [a.GetTotalNumHs(includeNeighbors=False) for a in ref.GetAtoms()]
    charges = [a.GetFormalCharge() for a in ref.GetAtoms()]
    classes = [a.GetAtomMapNum() if ":" in smiles and a.GetAtomMapNum() != 0 else None for a in ref.GetAtoms()]
    lower = [a.GetIsAromatic() for a in raw.GetAtoms()]          # written in lower case
    heavy_bonds, pi = [], set()
    for rb, sb in zip(raw.GetBonds(), ref.GetBonds()):
        i, j = sorted((rb.GetBeginAtomIdx(), rb.GetEndAtomIdx()))
        assert (i, j) == tuple(sorted((sb.GetBeginAtomIdx(), sb.GetEndAtomIdx())))
        heavy_bonds.append((i, j))
        if lower[i] and lower[j]:
            is_pi = sb.GetIsAromatic() or sb.GetBondType() != Chem.rdchem.BondType.SINGLE
        else:
            is_pi = rb.GetBondType() not in (Chem.rdchem.BondType.SINGLE,)
        if is_pi:
            pi.add((i, j))
    perceived_pi = {tuple(sorted((b.GetBeginAtomIdx(), b.GetEndAtomIdx()))) for b in ref.GetBonds()
                    if b.GetBondType() != Chem.rdchem.BondType.SINGLE}
    # hydrogens: one new atom per implicit/bracket H, appended in atom order
    edges = set(heavy_bonds)
    k = n
    for i in range(n):
        for _ in range(nh[i]):
            edges.add((i, k))
            k += 1
    atoms = z + [1] * (k - n)
    # stereo: perceived (genuine) and specified (as written)
    genuine = {i for i, _ in Chem.FindMolChiralCenters(ref)}
    for b in ref.GetBonds():
        if b.GetStereo() != Chem.rdchem.BondStereo.STEREONONE:
            genuine |= {b.GetBeginAtomIdx(), b.GetEndAtomIdx()}
    specified = {a.GetIdx() for a in raw.GetAtoms() if a.GetChiralTag() != Chem.rdchem.ChiralType.CHI_UNSPECIFIED}
    dirs = (Chem.rdchem.BondDir.ENDUPRIGHT, Chem.rdchem.BondDir.ENDDOWNRIGHT)
    for b in raw.GetBonds():
        if b.GetBondType() == Chem.rdchem.BondType.DOUBLE:
            ends = (b.GetBeginAtom(), b.GetEndAtom())
            if all(any(nb.GetBondDir() in dirs for nb in a.GetBonds() if nb.GetIdx() != b.GetIdx()) for a in ends):
                specified |= {a.GetIdx() for a in ends}
    ne = sum(atoms) - sum(charges)
    return {"n_heavy": n, "atoms": atoms, "nh": nh, "charge": sum(charges), "mult": ne % 2 + 1, "edges": edges,
            "pi": pi, "perceived_pi": perceived_pi, "genuine": genuine, "specified": specified | genuine,
            "classes": classes + [None] * (k - n), "lower": lower, "heavy_bonds": heavy_bonds,
            "n_rad": sum(a.GetNumRadicalElectrons() for a in ref.GetAtoms())}


def rdkit_oracle(smiles):
    """the facts init_organic_smiles reads from RDKit (same calls, made by the harness)"""
    from rdkit import Chem
    from rdkit.Chem.Descriptors import NumRadicalElectrons
    m = Chem.MolFromSmiles(smiles)
    if m is None:
        return {"none": True, "charge": 0, "nrad": 0, "atoms": [], "bonds": [], "chiral": []}
    m = Chem.AddHs(m)
    return {"none": False, "charge": Chem.GetFormalCharge(m), "nrad": NumRadicalElectrons(m),
            "atoms": [a.GetAtomicNum() for a in m.GetAtoms()],
            "bonds": [(b.GetBeginAtomIdx(), b.GetEndAtomIdx(), b.GetBondType() != Chem.rdchem.BondType.SINGLE,
                       b.GetStereo() != Chem.rdchem.BondStereo.STEREONONE) for b in m.GetBonds()],
            "chiral": [i for i, _ in Chem.FindMolChiralCenters(m)]}


def parsed(smiles, sym2z):
    """parser.atoms / parser.bonds as Parser.parse leaves them (model input) + builder oracle"""
    from autode.smiles.parser import Parser
    from autode.smiles.builder import Builder
    p = Parser()
    p.parse(smiles)
    atoms = [{"z": sym2z[a.label], "arom": a.smiles_label in AROMATIC, "nh": a.n_hydrogens or 0, "charge": a.charge,
              "cls": a.atom_class, "mark": bool(a.has_stereochem)} for a in p.atoms]
    bonds = [(b[0], b[1], b.order) for b in p.bonds]
    try:
        b = Builder()
        b.set_atoms_bonds(atoms=p.atoms, bonds=p.bonds)
        ring, sab_ok = b.max_ring_n, True
    except Exception:  # noqa  (NotImplementedError for coordination > 8)
        ring, sab_ok = 0, False
    return {"atoms": atoms, "bonds": bonds, "max_ring": ring, "set_atoms_bonds_ok": sab_ok}


# --------------------------------------------------------------------------------------------
# running the implementation
class Probe:
    """records which initialisation functions are entered and whether Builder.build raised"""

    def __init__(self):
        import autode.smiles.smiles as S
        import autode.species.molecule as M
        from autode.smiles.builder import Builder
        self.S, self.M, self.Builder = S, M, Builder
        self.trace, self.build_ok = [], True
        self._orig = (S.init_smiles, S.init_organic_smiles, M.init_smiles, M.init_organic_smiles, Builder.build)

    def __enter__(self):
        S, M, B = self.S, self.M, self.Builder
        o_is, o_ios, _, _, o_build = self._orig
        probe = self

        def w_is(molecule, smiles):
            probe.trace.append("builtin")
            return o_is(molecule, smiles)

        def w_ios(molecule, smiles):
            probe.trace.append("organic")
            return o_ios(molecule, smiles)

        def w_build(bself, atoms, bonds):
            try:
                return o_build(bself, atoms, bonds)
            except BaseException:
                probe.build_ok = False
                raise
        S.init_smiles, S.init_organic_smiles = w_is, w_ios
        M.init_smiles, M.init_organic_smiles = w_is, w_ios
        B.build = w_build
        return self

    def __exit__(self, *a):
        S, M, B = self.S, self.M, self.Builder
        S.init_smiles, S.init_organic_smiles, M.init_smiles, M.init_organic_smiles, B.build = self._orig
        return False


def observe(mol, sym2z):
    g = mol.graph
    nodes = sorted(g.nodes)
    coords = np.array(mol.coordinates, dtype=float)
    n = len(mol.atoms)
    finite = bool(np.isfinite(coords).all())
    mind = None
    if n > 1 and finite:
        d = np.linalg.norm(coords[:, None, :] - coords[None, :, :], axis=-1)
        d[np.diag_indices(n)] = np.inf
        mind = float(d.min())
    return {"charge": int(mol.charge), "mult": int(mol.mult), "atoms": [sym2z[a.label] for a in mol.atoms],
            "atom_classes": [a.atom_class for a in mol.atoms],
            "nodes_ok": nodes == list(range(n)),
            "node_z": [sym2z[g.nodes[i]["atom_label"]] for i in nodes],
            "classes": [g.nodes[i].get("atom_class") for i in nodes],
            "edges": sorted(tuple(sorted(e)) for e in g.edges),
            "pi": sorted(tuple(sorted(e)) for e in g.edges if g.edges[e]["pi"]),
            "stereo": [i for i in nodes if g.nodes[i]["stereo"]],
            "fine": bool(mol.rdkit_conf_gen_is_fine), "rdobj": mol.rdkit_mol_obj is not None,
            "finite": finite, "min_dist": mind}


def run_path(smiles, path, sym2z, charge=None, mult=None):
    """path in {'builtin','organic','ctor'} -> dict(outcome='built'|'valueerror'|'crash', obs, trace, build_ok, error)"""
    from autode.species.molecule import Molecule
    with Probe() as pr:
        try:
            if path == "ctor":
                kw = {}
                if charge is not None:
                    kw["charge"] = charge
                if mult is not None:
                    kw["mult"] = mult
                mol = Molecule(smiles=smiles, **kw)
            else:
                mol = Molecule(charge=charge, mult=mult)
                (pr.S.init_smiles if path == "builtin" else pr.S.init_organic_smiles)(mol, smiles)
            return {"outcome": "built", "obs": observe(mol, sym2z), "trace": list(pr.trace), "build_ok": pr.build_ok, "error": None}
        except ValueError as e:
            kind = "valueerror" if "SMILES charge was not the same" in str(e) else "crash"
            return {"outcome": kind, "obs": None, "trace": list(pr.trace), "build_ok": pr.build_ok, "error": f"ValueError: {e}"}
        except Exception as e:  # noqa
            return {"outcome": "crash", "obs": None, "trace": list(pr.trace), "build_ok": pr.build_ok,
                    "error": f"{type(e).__name__}: {e}", "tb": traceback.format_exc()[-1500:]}


# --------------------------------------------------------------------------------------------
# Coq literals
def coq_onat(x):
    return "None" if x is None else f"(Some {int(x)})"


def coq_oz(x):
    return "None" if x is None else f"(Some {coq_z(x)})"


def coq_pairs(ps):
    return coq_list([f"({int(i)}, {int(j)})" for i, j in ps])


def coq_inputs(pa, ref, rd, build_ok, unreasonable):
    pi_ref = ref["pi"] if ref is not None else set()
    atoms = coq_list([f"mkSAtom {a['z']} {coq_bool(a['arom'])} {a['nh']} {coq_z(a['charge'])} {coq_onat(a['cls'])} {coq_bool(a['mark'])}"
                      for a in pa["atoms"]])
    bonds = coq_list([f"mkSBond {i} {j} {o} {coq_bool(pa['atoms'][i]['arom'] and pa['atoms'][j]['arom'] and tuple(sorted((i, j))) in pi_ref)}"
                      for i, j, o in pa["bonds"]])
    rb = coq_list([f"mkRBond {i} {j} {coq_bool(ns)} {coq_bool(st)}" for i, j, ns, st in rd["bonds"]])
    rdk = (f"(mkRdk {coq_bool(rd['none'])} {coq_z(rd['charge'])} {rd['nrad']} {coq_list([str(z) for z in rd['atoms']])} "
           f"{rb} {coq_list([str(i) for i in rd['chiral']])} {coq_bool(unreasonable)})")
    # lazily perceived graph (only read when marks precede the rebuild): the SMILES connectivity, no flags
    n = len(pa["atoms"])
    tot = n + sum(a["nh"] for a in pa["atoms"])
    lz_nodes = coq_list([f"mkNode {a['z']} false None" for a in pa["atoms"]] + ["mkNode 1 false None"] * (tot - n))
    hb, k = [], n
    for i, a in enumerate(pa["atoms"]):
        for _ in range(a["nh"]):
            hb.append((i, k))
            k += 1
    lz_edges = coq_list([f"mkEdge {i} {j} false" for i, j, _ in pa["bonds"]] + [f"mkEdge {i} {j} false" for i, j in hb])
    return (f"(mkIn (mkSMol {atoms} {bonds}) {rdk} (mkBld {pa['max_ring']} {coq_bool(build_ok)}) (mkGraph {lz_nodes} {lz_edges}))")


def coq_eobs(r):
    if r["outcome"] == "valueerror":
        return "EValueError"
    if r["outcome"] == "crash":
        return "ECrash"
    o = r["obs"]
    return (f"(EBuilt (mkObs {coq_z(o['charge'])} {o['mult']} {coq_list([str(z) for z in o['atoms']])} "
            f"{coq_list([coq_onat(c) for c in o['classes']])} {coq_pairs(o['edges'])} {coq_pairs(o['pi'])} "
            f"{coq_list([str(i) for i in o['stereo']])} {coq_bool(o['fine'])} {coq_bool(o['rdobj'])}))")


# --------------------------------------------------------------------------------------------
# the property on the implementation
def site_of(path, r):
    if path == "ctor":
        return "init_smiles" if r["trace"] and r["trace"][-1] == "builtin" else "init_organic_smiles"
    if path == "organic" and r["trace"] and r["trace"][-1] == "builtin":
        return "init_smiles"
    return "init_smiles" if path == "builtin" else "init_organic_smiles"


def property_failures(smiles, tags, ref, path, r, is_metal):
    """-> list of (key, what).  ref = RDKit reference of what the SMILES denotes."""
    out = []
    if r["outcome"] != "built":
        if not (path == "organic" and is_metal):      # Molecule never sends a metal-containing string to RDKit
            out.append((f"{site_of(path, r)}|raises", f"{path} path raised {r['error']}"))
        return out
    o, site = r["obs"], site_of(path, r)
    rdkit_site = site == "init_organic_smiles"
    has_explicit_h = any(z == 1 for z in ref["atoms"][:ref["n_heavy"]]) and ref["n_heavy"] > 1

    def add(cls, what):
        out.append((f"{site}|{cls}", what))
    if not o["nodes_ok"] or o["node_z"] != o["atoms"]:
        add("graph-nodes", f"graph nodes {o['node_z']} do not match atoms {o['atoms']}")
    if o["atoms"] != ref["atoms"]:
        if has_explicit_h and sorted(o["atoms"]) == sorted(ref["atoms"]):
            add("explicit-H-atom-order", f"atoms {o['atoms']} are not in SMILES order {ref['atoms']} (explicit [H] atoms moved to the end)")
        else:
            add("atoms", f"atoms {o['atoms']} but the SMILES denotes {ref['atoms']} (heavy atoms in order, then one H per implicit hydrogen)")
    atoms_ok = o["atoms"] == ref["atoms"]
    # a forced RDKit path on a metal string is compared on the graph only; the constructor always in full
    check_cm = path == "ctor" or not (is_metal and rdkit_site)
    if check_cm and o["charge"] != ref["charge"]:
        add("charge", f"charge {o['charge']} but the SMILES denotes {ref['charge']}")
    if check_cm and o["mult"] != ref["mult"]:
        if rdkit_site and ref["n_rad"] > 1 and ref["n_rad"] % 2 == 1:
            add("mult-odd-polyradical", f"multiplicity {o['mult']} for {sum(ref['atoms']) - ref['charge']} electrons ({ref['n_rad']} radical electrons): an odd electron count cannot be a singlet")
        else:
            add("mult", f"multiplicity {o['mult']} but the electron count gives {ref['mult']}")
    if atoms_ok:
        edges, pi, stereo = set(o["edges"]), set(o["pi"]), set(o["stereo"])
        if edges != ref["edges"]:
            add("edges", f"edges differ from the SMILES bonds: extra {sorted(edges - ref['edges'])}, missing {sorted(ref['edges'] - edges)}")
        extra, missing = pi - ref["pi"], ref["pi"] - pi
        if extra:
            low = ref["lower"] + [False] * len(ref["atoms"])
            if not rdkit_site and all(low[i] and low[j] for i, j in extra):
                add("pi-aromatic-linker", f"single bond(s) {sorted(extra)} joining two aromatic rings marked pi (neither multiple nor aromatic in the SMILES)")
            elif rdkit_site and extra <= ref["perceived_pi"]:
                add("pi-kekule-aromatised", f"bond(s) {sorted(extra)} written single in a Kekule ring marked pi (RDKit aromatises); the built-in path marks only the written double bonds")
            else:
                add("pi-extra", f"bond(s) {sorted(extra)} marked pi but neither multiple nor aromatic in the SMILES")
        if missing:
            add("pi-missing", f"multiple/aromatic bond(s) {sorted(missing)} not marked pi (marked: {sorted(pi)})")
        s_extra, s_missing = stereo - ref["specified"], ref["specified"] - stereo
        if s_extra:
            if not rdkit_site and ("/" in smiles or "\\" in smiles):
                add("stereo-extra-atom", f"atom(s) {sorted(s_extra)} marked stereo without carrying stereochemistry (marked {sorted(stereo)}, SMILES specifies {sorted(ref['specified'])})")
            else:
                add("stereo-extra", f"atom(s) {sorted(s_extra)} marked stereo, SMILES specifies {sorted(ref['specified'])}")
        if s_missing:
            if rdkit_site and s_missing <= (ref["specified"] - ref["genuine"]):
                add("stereo-mark-not-a-stereocentre", f"specified stereo mark(s) on atom(s) {sorted(s_missing)} dropped (RDKit does not perceive a stereocentre there); the built-in path keeps them")
            else:
                add("stereo-missing", f"atom(s) {sorted(s_missing)} carry specified stereochemistry but are not marked (marked: {sorted(stereo)})")
        if o["classes"] != ref["classes"]:
            if not rdkit_site and not r["build_ok"]:
                add("class-lost-on-build-failure", f"atom classes {ref['classes']} lost (graph has {o['classes']}): Builder.build failed and canonical_atoms_at_origin drops atom_class")
            else:
                add("classes", f"node atom classes {o['classes']} but the SMILES gives {ref['classes']}")
    elif has_explicit_h and o["classes"] != ref["classes"] and any(c is not None for c in ref["classes"]):
        pass   # already reported as explicit-H-atom-order (classes land on the wrong atoms)
    if o["atom_classes"] != o["classes"]:
        add("atom-vs-node-class", f"Atom.atom_class {o['atom_classes']} differs from the graph's {o['classes']}")
    if not o["finite"] or (o["min_dist"] is not None and not o["min_dist"] > 1e-6):
        add("coordinates", f"coordinates not finite / not pairwise distinct (min distance {o['min_dist']})")
    return out


GRAPH_FIELDS = ("atoms", "edges", "pi", "stereo", "classes")


# --------------------------------------------------------------------------------------------
def explicit_args(ref):
    """explicit (charge, mult) constructor arguments: right charge, wrong charge, explicit triplet, explicit defaults"""
    return ((ref["charge"], None), (ref["charge"] + 1, None), (None, 3), (ref["charge"], 1))


def collect(job):
    """worker (own process): everything that touches autodE / RDKit for one SMILES -> plain data"""
    smiles, tags, want_variants, workdir = job
    os.chdir(workdir)
    import logging
    logging.disable(logging.CRITICAL)
    from rdkit import RDLogger
    RDLogger.DisableLog("rdApp.*")
    metals = metals_table()
    sym2z = elements_table()
    ref = reference(smiles)
    if ref is None:
        return {"smiles": smiles, "tags": tags, "skip": "no-rdkit-reference"}
    try:
        pa = parsed(smiles, sym2z)
    except Exception as e:  # noqa
        return {"smiles": smiles, "tags": tags, "skip": f"parser-{type(e).__name__}"}
    rd = rdkit_oracle(smiles)
    is_metal = bracket_is_metal(smiles, metals, sym2z)
    runs = {}
    for path in ("builtin", "organic", "ctor"):
        if path == "organic" and not pa["set_atoms_bonds_ok"]:
            continue
        runs[path] = run_path(smiles, path, sym2z)
    variants = []
    if want_variants:
        for charge, mult in explicit_args(ref):
            variants.append((charge, mult, run_path(smiles, "ctor", sym2z, charge=charge, mult=mult)))
    return {"smiles": smiles, "tags": tags, "skip": None, "ref": ref, "pa": pa, "rd": rd, "is_metal": is_metal,
            "runs": runs, "variants": variants}


def account(ctx, data, terms, descr, found):
    """parent: evaluate the property on the collected observations, emit correspondence terms"""
    smiles, tags = data["smiles"], data["tags"]
    if data["skip"]:
        ctx.hist("generator", "skipped:" + data["skip"])
        return
    ref, pa, rd, is_metal, runs = data["ref"], data["pa"], data["rd"], data["is_metal"], data["runs"]
    for t in tags:
        ctx.hist("generator", t)
    ctx.hist("generator", f"atoms:{min(len(ref['atoms']) // 8 * 8, 40)}+")
    mine = []
    nontrivial = len(ref["atoms"]) > 1
    if "organic" not in runs:
        ctx.hist("impl-oracle", "organic-skipped:set_atoms_bonds-raises")
    for path, r in runs.items():
        ctx.count("impl-oracle", (smiles, path), nontrivial, sample={"smiles": smiles, "path": path, "tags": tags})
        for key, what in property_failures(smiles, tags, ref, path, r, is_metal):
            found.append(key)
            mine.append(key)
            ctx.hist("impl-oracle", "fail:" + key)
            if found.count(key) > 2:        # at most two concrete replays per finding key
                continue
            ctx.finding(key, f"{what}  [SMILES {smiles!r}, {path} path]",
                        {"smiles": smiles, "path": path, "key": key, "observed": r["obs"], "error": r["error"],
                         "reference": {k: (sorted(v) if isinstance(v, set) else v) for k, v in ref.items()}})
    # the two forced paths must agree on the graph annotation (implied by the per-path checks; kept as a direct check)
    a, b = runs.get("builtin"), runs.get("organic")
    if a and b and a["outcome"] == b["outcome"] == "built":
        ctx.count("paths-agree", smiles, nontrivial)
        for f in GRAPH_FIELDS:
            if a["obs"][f] != b["obs"][f]:
                ctx.hist("paths-agree", f"differ:{f}")
                if not mine:
                    found.append(f"paths|differ-{f}")
                    ctx.finding(f"paths|differ-{f}", f"forcing the two build paths gives different {f} for {smiles!r}: "
                                f"init_smiles {a['obs'][f]} vs init_organic_smiles {b['obs'][f]}", {"smiles": smiles, "path": "both", "field": f})
    # constructor = the path the decision table selects
    c = runs.get("ctor")
    if c and c["outcome"] == "built":
        expect = "builtin" if c["trace"][-1] == "builtin" else "organic"
        e = runs.get(expect)
        if e and e["outcome"] == "built" and any(c["obs"][f] != e["obs"][f] for f in GRAPH_FIELDS + ("charge", "mult")):
            found.append("Molecule|ctor-differs-from-path")
            ctx.finding("Molecule|ctor-differs-from-path", f"Molecule(smiles={smiles!r}) differs from its own build path called directly",
                        {"smiles": smiles, "path": "ctor"})
        want = ["builtin"] if is_metal else (["organic", "builtin"] if (pa["max_ring"] >= 8 or len(ref["atoms"]) == 1 or rd["none"]) else ["organic"])
        if c["trace"] != want:
            found.append("Molecule|path-selection")
            ctx.finding("Molecule|path-selection", f"Molecule(smiles={smiles!r}) entered {c['trace']}, the decision table says {want}",
                        {"smiles": smiles, "path": "ctor", "trace": c["trace"], "want": want})

    # ---- correspondence terms
    def add(term, d, key):
        terms.append(term)
        descr.append(d)
        ctx.count("model-vs-impl", key, nontrivial, sample=d)

    def inputs_for(r):
        unreasonable = bool(r["obs"] is not None and r["trace"] and r["trace"][-1] == "organic" and not r["obs"]["fine"])
        return coq_inputs(pa, ref, rd, r["build_ok"], unreasonable)
    for path, fn in (("builtin", "check_builtin"), ("organic", "check_organic")):
        if path in runs:
            r = runs[path]
            add(f"{fn} {inputs_for(r)} 0%Z 1 {coq_eobs(r)}", {"smiles": smiles, "path": path, "kind": "forced"}, (smiles, path))
    if c:
        I = inputs_for(c)
        add(f"check_top {I} {coq_bool(is_metal)} None None {coq_eobs(c)}", {"smiles": smiles, "path": "ctor", "kind": "top"}, (smiles, "ctor"))
        tr = coq_list(["PBuiltin" if t == "builtin" else "POrganic" for t in c["trace"]])
        add(f"check_trace {I} {coq_bool(is_metal)} {tr}", {"smiles": smiles, "path": "ctor", "kind": "trace"}, (smiles, "trace"))
        for k, nm in enumerate(("wf", "arom_consistent", "rdk_agrees", "build_ok")):
            terms.append(f"nth {k} (hyp_flags {I}) false")
            descr.append({"smiles": smiles, "kind": "hyp", "hyp": nm})
    # ---- Molecule(smiles, charge=..., mult=...): right charge accepted, wrong charge -> ValueError, mult kept
    for charge, mult, r in data["variants"]:
        ctx.count("impl-oracle", (smiles, "ctor", charge, mult), True)
        if charge is not None and charge != ref["charge"]:
            if r["outcome"] != "valueerror":
                found.append("Molecule|wrong-charge-accepted")
                ctx.finding("Molecule|wrong-charge-accepted", f"Molecule(smiles={smiles!r}, charge={charge}) did not raise ValueError (SMILES charge {ref['charge']}): {r['outcome']}",
                            {"smiles": smiles, "path": "ctor", "charge": charge, "mult": mult})
        elif r["outcome"] != "built":
            found.append("Molecule|explicit-args-raise")
            ctx.finding("Molecule|explicit-args-raise", f"Molecule(smiles={smiles!r}, charge={charge}, mult={mult}) raised {r['error']}",
                        {"smiles": smiles, "path": "ctor", "charge": charge, "mult": mult})
        elif mult == 3 and r["obs"]["mult"] != 3:
            found.append("Molecule|explicit-mult-overridden")
            ctx.finding("Molecule|explicit-mult-overridden", f"Molecule(smiles={smiles!r}, mult=3) has mult {r['obs']['mult']}",
                        {"smiles": smiles, "path": "ctor", "charge": charge, "mult": mult})
        d = {"smiles": smiles, "path": "ctor", "kind": "explicit", "charge": charge, "mult": mult}
        terms.append(f"check_top {inputs_for(r)} {coq_bool(is_metal)} {coq_oz(charge)} {coq_onat(mult)} {coq_eobs(r)}")
        descr.append(d)
        ctx.count("model-vs-impl", (smiles, "ctor", charge, mult), True, sample=d)


def run(ctx):
    sys.path.insert(0, REPO)
    os.chdir(ctx.work)          # get_simanl_atoms would read <name>_conf0_siman.xyz from the cwd
    import logging
    logging.disable(logging.CRITICAL)
    from rdkit import RDLogger
    RDLogger.DisableLog("rdApp.*")
    pins_changed = source_pins(ctx.pid, PINS)
    ctx.cov["source_pins"] = {"pinned": len(PINS), "changed": pins_changed}
    if pins_changed:
        ctx.log("source pins changed:", pins_changed)
    # 1. regenerate the model from the repository
    rc, out = sh(["python3", f"{VERIF}/tr/translate_c02.py"], timeout=120)
    ctx.log("translator:", out.strip()[:400])
    translated = rc == 0
    ctx.cov["translator"] = {"ok": translated, "output": out.strip()[:1500]}
    # 2. proofs over the regenerated operation lists
    info = {"hygiene": [], "log_tail": out, "build_ok": False}
    proofs_ok = False
    if translated:
        proofs_ok, info = ctx.proofs(SLICE, "C02/Props.v", "AV.C02.Props", extra_targets=["C02/Corr.vo"])
        ctx.log("proofs:", "ok" if proofs_ok else "BROKEN")
        if not proofs_ok:
            ctx.log(info["log_tail"][-800:])
        ctx.cov["print_assumptions"] = info.get("assumptions", {})
    else:
        ctx.cov["obligations"] += len(ctx.theorems_in("C02/Props.v"))
        ctx.cov["checker_cmd"] = "translator failed closed; proofs not attempted"
    # 3. + 4. implementation oracles and correspondence terms, molecule by molecule (built in worker processes:
    #    autodE forks one process per chirality test, which dominates the cost)
    import autode.species.molecule  # noqa: F401  (import once, before forking)
    import multiprocessing
    from concurrent.futures import ProcessPoolExecutor
    terms, descr, found = [], [], []
    cases = gen_smiles(ctx)
    jobs, n_var = [], 0
    for k, (smiles, tags) in enumerate(cases):
        want = (("charged" in tags) or k % 6 == 0) and n_var < (6 if ctx.quick else 40)
        n_var += bool(want)
        jobs.append((smiles, tags, want, ctx.work))
    with ProcessPoolExecutor(max_workers=min(8, os.cpu_count() or 2), mp_context=multiprocessing.get_context("fork")) as ex:
        for data in ex.map(collect, jobs):
            account(ctx, data, terms, descr, found)
    ctx.log(f"implementation oracles: {len(cases)} SMILES, {len(found)} property failures "
            f"({sorted(set(found))})")
    ctx.check_known_still_fail(set(found))
    corr_bad, corr_err = [], None
    if translated:
        ok_corr = proofs_ok
        if not proofs_ok:
            # the proofs may be broken by a source change while the model itself still compiles:
            # the correspondence is still informative
            ok_corr, _ = ctx.coq_make(["C02/Corr.vo"])
        if ok_corr:
            bad, corr_err = ctx.coq_bad_indices(PRE, terms, per_file=40, name="c02cases")
            hyp_false = {}
            for i in bad:
                if descr[i].get("kind") == "hyp":
                    hyp_false.setdefault(descr[i]["smiles"], []).append(descr[i]["hyp"])
                else:
                    corr_bad.append(i)
            n_mol = len({d["smiles"] for d in descr if d.get("kind") == "hyp"})
            ctx.cov["streams"].setdefault("model-vs-impl", {})["molecules_satisfying_all_theorem_hypotheses"] = n_mol - len(hyp_false)
            ctx.cov["streams"]["model-vs-impl"]["molecules"] = n_mol
            ctx.cov["streams"]["model-vs-impl"]["hypothesis_false"] = {k: v for k, v in list(hyp_false.items())[:30]}
            if any("wf" in v for v in hyp_false.values()):
                corr_bad.append(next(i for i in bad if descr[i].get("hyp") == "wf"))
            ctx.log(f"correspondence: {len(terms)} terms, {len(corr_bad)} disagreements; all theorem hypotheses hold on "
                    f"{n_mol - len(hyp_false)}/{n_mol} molecules" + (f"; coq error {corr_err[:300]}" if corr_err else ""))
            ctx.cov["disagreements"] = len(corr_bad)
        else:
            corr_err = "model does not compile"
    # 5. decide
    if not proofs_ok:
        ctx.proof_failure(info, found_any_input=bool(ctx.violations))
    if corr_bad or corr_err:
        if not ctx.violations:
            ctx.violation("model and implementation disagree (correspondence stream model-vs-impl) and no property-level oracle failed on the implementation",
                          {"kind": "correspondence", "first": [descr[i] for i in corr_bad[:6]],
                           "coq_terms": [terms[i][:3000] for i in corr_bad[:2]], "coq_error": corr_err}, found_input=False)
        else:
            ctx.log(f"correspondence disagreements ({[descr[i] for i in corr_bad[:4]]}) accompany the implementation-level findings above")
    if pins_changed and not ctx.violations:
        ctx.violation("hand model no longer pinned to the source: " + ", ".join(pins_changed),
                      {"kind": "source-pin", "changed": pins_changed}, found_input=False)


def replay(ctx, obj):
    sys.path.insert(0, REPO)
    os.chdir(ctx.work)
    import logging
    logging.disable(logging.CRITICAL)
    metals = metals_table()
    sym2z = elements_table()
    rep = obj.get("replay", {})
    smiles = rep.get("smiles")
    if smiles is None:
        print("replay: no SMILES stored:", obj.get("what"))
        return 1
    ref = reference(smiles)
    nfail = 0
    for path in ([rep["path"]] if rep.get("path") in ("builtin", "organic", "ctor") else ["builtin", "organic", "ctor"]):
        r = run_path(smiles, path, sym2z, charge=rep.get("charge"), mult=rep.get("mult"))
        fails = property_failures(smiles, [], ref, path, r, bracket_is_metal(smiles, metals, sym2z)) if ref else []
        print(f"replay {smiles!r} path={path}: outcome={r['outcome']} trace={r['trace']} obs={r['obs']}")
        for key, what in fails:
            nfail += 1
            print("  FAIL", key, "-", what)
    print("replay: failures =", nfail, "; stored:", obj.get("what"))
    return 1 if nfail else 0


MANIFEST = {
    "technique": "Coq proof over operation sequences regenerated from source (ast translator) + model/implementation correspondence and RDKit-referenced property oracles on generated SMILES",
    "level_text": ("Machine-checked theorems (coq/C02/Props.v, closed under the global context) over the operation sequences translated from init_organic_smiles and "
                   "init_smiles on every run, for EVERY parsed SMILES molecule: both paths end with exactly the SMILES bonds plus one bond per explicit hydrogen; "
                   "the final pi set is exactly {multiple or aromatic bonds} and the final stereo set exactly the marked atoms on each path (the proofs use that the marks "
                   "follow the graph rebuild and the translated pi rule: rebuild_forgets_marks); atom classes are carried onto the nodes; atoms are the SMILES atoms in "
                   "order followed by the hydrogens with the H-count arithmetic; charge and multiplicity as denoted (translated calc_multiplicity); the two paths agree whenever "
                   "the RDKit oracle agrees with the SMILES; path selection and explicit charge/multiplicity handling as a decision table.  One statement is refuted with a "
                   "witness (single bond between two aromatic rings marked pi) and two are stated as fixed-or-refuted disjunctions over the regenerated code (classes lost when the "
                   "builder fails; odd poly-radical read as a singlet); all three are reported on the implementation with replays.  PARTIAL: 3D embedding is an oracle - finite, "
                   "pairwise distinct coordinates are observed on every generated molecule, not proved; the SMILES parser is an input (property C01)."),
    "level_note": ("Trusted: Coq kernel; tr/translate_c02.py; the hand model of make_graph / networkx attribute semantics / hydrogen expansion / atoms setter (source text compared "
                   "each run, behaviour validated by the correspondence on every generated molecule and path); RDKit, autodE's parser, Builder.build and get_simanl_atoms are oracles; "
                   "the parsed SMILES is an input of the model, so parser-level deviations (stereo marks on extra atoms) are caught only by the RDKit-referenced implementation oracles. "
                   "Coordinates finite/distinct: observed only."),
}
