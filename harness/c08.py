"""C08 — internal coordinates are complete and transform back and forth consistently (DESIGN 6/C08).

Tie: the hand model coq/C08/Model.v (connect graph, close_to, Schmidt, Lagrangian index layout and g/h
assembly, clear_tensors machine, pull-back) is proved about in coq/C08/Props.v and run against
autode.opt.coordinates on generated inputs (ctx.coq_bad_indices).  The numerical part of the property
(rank of B, orthonormal U, rigid-motion invariance, back-transformation, dihedral continuity, pull-back
vs finite differences, stale tensors) is checked directly on the implementation with numpy as oracle;
every failure there is a concrete replayable input (ctx.finding).
"""
import math
import sys
import traceback

import numpy as np

from common import REPO, VERIF, coq_bool, coq_list, coq_nat, frac, qc, qc_list, qc_mat, source_pins

TRUSTED_BASE = [
    "Coq 8.16.1 kernel + coqc (vm_compute only in the non-vacuity Examples and the correspondence shards; no native_compute)",
    "Print Assumptions: every C08 theorem is closed under the global context (no axioms)",
    "hand model coq/C08/Model.v, tied to /repo on every run by the correspondence streams (connect-graph, close_to, "
    "schmidt, layout/g/h assembly, clear_tensors machine, pull-back)",
    "numpy (svd, pinv, matrix products) and scipy Rotation as oracles of the implementation-side checks; RDKit ETKDG/MMFF "
    "only as a geometry generator",
    "exact rationals stand for IEEE doubles up to rounding (model results compared at 1e-9 relative; distance "
    "comparisons closer than 1e-9 are skipped and counted)",
    "iteration order of Python sets (connected components) is not modelled: cases with exactly tied minimal "
    "inter-fragment distances are skipped and counted",
]
ASSUMPTIONS = [
    "PARTIAL: completeness of the primitive set (rank B = 3N-6/5), the eigenvalue threshold of _calc_U, "
    "_symmetry_inequivalent_u and convergence of the iterative back-transformation are numerical claims covered only by "
    "the implementation oracles over the generated molecules, not by a theorem",
    "the clear_tensors theorems cover the operator alphabet of OptCoordinates (both coordinate kinds); coordinate changes made "
    "through raw numpy operations are outside the model and exercised by oracle_stale_numpy only",
    "the Hessian clause is read as the first-order pull-back A^T H_x A (what the code documents it computes); the second-order "
    "term is not part of the model and the finite-difference Hessian oracle runs at stationary points only",
    "sqrt enters the Schmidt theorem as a parameter with sqrt x * sqrt x = x for 0 <= x; the Moore-Penrose equations of "
    "numpy.linalg.pinv are premises of the pull-back theorem",
    "close_to is proved for the code's actual range |q - other| <= 3 pi (one 2 pi shift)",
]
RULE = ("molecule generator (exactly linear chains CO2/HCN/HCCH/OCS/C3O2/NCCN, near-linear bent triatomics, allene and "
        "cumulenes, planar rings, planar AX3, RDKit-embedded organics, 2-3 fragment complexes, ion pairs; exact and "
        "randomly perturbed) x random distance-constraint sets (bonded, 1-3, cross-fragment; satisfied or not) x random "
        "DIC steps of norm 0.01-0.8; a case is non-trivial when it has >= 3 atoms; distinct by (molecule, perturbation, "
        "constraint set, oracle, step); model streams: random graphs/labels/distances, random dihedral lists, random "
        "satisfied-flag patterns, random operation lists, random small matrices")

SLICE = ["lib/Sums.v", "lib/QcInst.v", "C08/Model.v", "C08/LemGraph.v", "C08/LemDiscrete.v", "C08/LemAlg.v",
         "C08/Lemmas.v", "C08/Props.v", "C08/Corr.v"]
PRE = ("From Coq Require Import Arith ZArith QArith Qabs Qcanon List Bool.\nFrom AV.lib Require Import Sums QcInst.\n"
       "From AV.C08 Require Import Model Corr.\nImport ListNotations.\nLocal Open Scope nat_scope.\n")

H_BOND_X = ["N", "O", "F", "P", "S", "Cl"]

# every function the hand model coq/C08/Model.v (and the structure-mirroring oracles here) was written from
_I, _D, _B, _C = ("autode/opt/coordinates/internals.py", "autode/opt/coordinates/dic.py", "autode/opt/coordinates/base.py",
                  "autode/opt/coordinates/cartesian.py")
PINS = [
    # A. connect graph (+ the networkx wrappers whose semantics the BFS model mirrors)
    (_I, "_connect_graph_for_species"), ("autode/mol_graphs.py", "MolecularGraph.is_connected"),
    ("autode/mol_graphs.py", "MolecularGraph.connected_components"),
    # B. close_to
    (_I, "PIC.close_to"),
    # C. Schmidt
    (_D, "_schmidt_orthogonalise"), (_D, "DICWithConstraints._calc_U"), ("autode/geom.py", "proj"),
    # D. Lagrangian layout and g / h assembly
    (_D, "DICWithConstraints.inactive_indexes"), (_D, "DICWithConstraints.active_indexes"), (_D, "DICWithConstraints.g"),
    (_D, "DICWithConstraints.h"), (_D, "DICWithConstraints.iadd"), (_D, "DICWithConstraints.from_cartesian"),
    ("autode/opt/coordinates/primitives.py", "ConstrainedPrimitive.is_satisfied"),
    ("autode/opt/coordinates/primitives.py", "ConstrainedPrimitive.delta"),
    # E. clear_tensors machine
    (_B, "OptCoordinates.__new__"), (_B, "OptCoordinates.__array_finalize__"), (_B, "OptCoordinates.clear_tensors"),
    (_B, "OptCoordinates.__setitem__"), (_B, "OptCoordinates.__add__"), (_B, "OptCoordinates.__sub__"),
    (_B, "OptCoordinates.__iadd__"), (_B, "OptCoordinates.__isub__"), (_B, "OptCoordinates.copy"), (_B, "OptCoordinates.e"),
    (_B, "OptCoordinates.g"), (_B, "OptCoordinates.h"), (_B, "OptCoordinates.h_inv"),
    (_B, "OptCoordinates.update_g_from_cart_g"), (_B, "OptCoordinates.update_h_from_cart_h"),
    (_C, "CartesianCoordinates.iadd"), (_C, "CartesianCoordinates._update_g_from_cart_g"),
    (_C, "CartesianCoordinates._update_h_from_cart_h"),
    # F. pull-back, and the step / fallback structure mirrored by oracle_step and the OAdd operation of the machine
    (_D, "DIC._update_g_from_cart_g"), (_D, "DIC._update_h_from_cart_h"), (_D, "DIC.from_cartesian"), (_D, "DIC.iadd"),
    (_D, "DIC.to"),
    # transitive dependencies of the numerical oracles (completeness of the primitive and delocalised sets, tensors)
    (_I, "AnyPIC.from_species"), (_I, "AnyPIC._add_bonds_from_species"), (_I, "AnyPIC._add_angles_from_species"),
    (_I, "AnyPIC._add_dihedrals_from_species"), (_I, "AnyPIC._add_chain_dihedrals_from_species"),
    (_I, "AnyPIC._get_ref_for_linear_angle"), (_I, "AnyPIC._get_linear_chains"), (_I, "_is_dihedral_well_defined"),
    (_I, "PIC.get_B"), (_I, "PIC._calc_q"), (_I, "PIC.add"), (_I, "PIC.__call__"), (_I, "_FunctionOfDistances._populate_all"),
    (_I, "InternalCoordinates.__new__"), (_I, "InternalCoordinates.__array_finalize__"),
    (_D, "DIC._calc_U"), (_D, "_symmetry_inequivalent_u"), (_D, "_is_pure_primitive"), (_D, "DIC.cart_proj_g"),
    (_D, "DICWithConstraints.cart_proj_g"), (_D, "DICWithConstraints.__new__"), (_D, "DICWithConstraints.__array_finalize__"),
    (_D, "DICWithConstraints.raw"),
    (_C, "CartesianCoordinates.__new__"), (_C, "CartesianCoordinates.__array_finalize__"), (_C, "CartesianCoordinates.to"),
    (_C, "CartesianCoordinates.expected_number_of_dof"), (_C, "CartesianCoordinates.cart_proj_g"),
    ("autode/opt/coordinates/primitives.py", "PrimitiveDummyLinearAngle._get_dummy_atom"),
    ("autode/opt/coordinates/primitives.py", "PrimitiveDummyLinearAngle._evaluate"),
    ("autode/opt/coordinates/primitives.py", "LinearAngleBase._calc_linear_bend"),
    ("autode/opt/coordinates/primitives.py", "PrimitiveDihedralAngle._evaluate"),
    # identity of primitives (PIC.add's duplicate check) and the extra-primitive constraint route
    (_I, "PIC.__init__"), (_I, "PIC.append"), (_I, "PIC.__eq__"), (_I, "PIC.n_constrained"),
    (_I, "InternalCoordinates.n_constraints"), (_I, "InternalCoordinates.constrained_primitives"),
    ("autode/opt/coordinates/primitives.py", "Primitive.__init__"), ("autode/opt/coordinates/primitives.py", "Primitive._ordered_idxs"),
    ("autode/opt/coordinates/primitives.py", "_DistanceFunction.__init__"), ("autode/opt/coordinates/primitives.py", "_DistanceFunction.__eq__"),
    ("autode/opt/coordinates/primitives.py", "ConstrainedPrimitiveDistance.__init__"),
    ("autode/opt/coordinates/primitives.py", "PrimitiveBondAngle.__eq__"), ("autode/opt/coordinates/primitives.py", "ConstrainedPrimitiveBondAngle.__eq__"),
    ("autode/opt/coordinates/primitives.py", "PrimitiveDihedralAngle.__eq__"), ("autode/opt/coordinates/primitives.py", "LinearAngleBase.__eq__"),
    ("autode/opt/coordinates/primitives.py", "CompositeBonds.__eq__"),
    ("autode/opt/optimisers/crfo.py", "CRFOptimiser._build_internal_coordinates"),
]


# =============================================================================================
# molecule generator
# =============================================================================================
def mol_of(spec):
    from autode.species import Molecule
    from autode.atoms import Atom
    from autode.mol_graphs import make_graph
    m = Molecule(name=spec.get("name", "m"),
                 atoms=[Atom(s, float(p[0]), float(p[1]), float(p[2])) for s, p in zip(spec["symbols"], spec["coords"])],
                 charge=spec.get("charge", 0), mult=spec.get("mult", 1))
    if spec.get("bonds") is not None:
        make_graph(m, bond_list=[tuple(b) for b in spec["bonds"]])
    if spec.get("constraints") and spec.get("route") != "extra":
        m.constraints.distance = {(int(i), int(j)): float(r) for i, j, r in spec["constraints"]}
    return m


_RDKIT_CACHE = {}


def rdkit_geom(smiles, seed=7):
    key = (smiles, seed)
    if key not in _RDKIT_CACHE:
        from rdkit import Chem, RDLogger
        from rdkit.Chem import AllChem
        RDLogger.DisableLog("rdApp.*")
        rm = Chem.AddHs(Chem.MolFromSmiles(smiles))
        if AllChem.EmbedMolecule(rm, randomSeed=seed) != 0:
            raise RuntimeError("RDKit embedding failed for " + smiles)
        AllChem.MMFFOptimizeMolecule(rm, maxIters=500)
        pos = rm.GetConformer().GetPositions()
        _RDKIT_CACHE[key] = ([a.GetSymbol() for a in rm.GetAtoms()], [list(map(float, p)) for p in pos],
                             [(b.GetBeginAtomIdx(), b.GetEndAtomIdx()) for b in rm.GetBonds()])
    s, p, b = _RDKIT_CACHE[key]
    return list(s), [list(x) for x in p], list(b)


def chain(symbols, dists):
    z = np.concatenate([[0.0], np.cumsum(dists)])
    return list(symbols), [[0.0, 0.0, float(zi)] for zi in z]


def star(c, x, r, lift=0.0):
    pts = [[0.0, 0.0, lift]] + [[r * math.cos(t), r * math.sin(t), 0.0] for t in (0.0, 2 * math.pi / 3, 4 * math.pi / 3)]
    return [c, x, x, x], pts


def ring(sym, n, r):
    return [sym] * n, [[r * math.cos(2 * math.pi * k / n), r * math.sin(2 * math.pi * k / n), 0.0] for k in range(n)]


def shifted(coords, d):
    return [[p[0] + d[0], p[1] + d[1], p[2] + d[2]] for p in coords]


def base_molecules(full):
    """-> list of specs {name, cls, symbols, coords, charge, bonds}"""
    out = []

    def add(name, cls, sym, xyz, charge=0, bonds=None):
        out.append({"name": name, "cls": cls, "symbols": list(sym), "coords": [list(map(float, p)) for p in xyz],
                    "charge": charge, "bonds": bonds})

    # exactly linear chains
    add("CO2", "linear", *chain("OCO", [1.16, 1.16]))
    add("HCN", "linear-HX", *chain("HCN", [1.064, 1.156]))
    add("HCCH", "linear", *chain("HCCH", [1.06, 1.20, 1.06]))
    add("OCS", "linear", *chain("OCS", [1.16, 1.56]))
    add("C3O2", "linear", *chain("OCCCO", [1.16, 1.28, 1.28, 1.16]))
    add("NCCN", "linear", *chain("NCCN", [1.16, 1.38, 1.16]))
    add("N2O", "linear", *chain("NNO", [1.13, 1.19]))
    if full:
        add("HCCF", "linear-HX", *chain("HCCF", [1.06, 1.20, 1.28]))
        add("HCCCN", "linear-HX", *chain("HCCCN", [1.06, 1.21, 1.38, 1.16]))
    add("CS2", "linear", *chain("SCS", [1.55, 1.55]))
    # a linear chain distorted by ~0.1 A: angles on both sides of the 170 degree linearity threshold
    add("diyne-distorted", "distorted-linear", "HCCCCH",
        [[0.005, 0.05, -0.1], [0.069, -0.042, 0.902], [-0.065, 0.06, 2.303], [-0.115, 0.062, 3.631], [0.043, 0.033, 4.734],
         [0.035, -0.061, 6.065]])
    # near-linear triatomics (170 < angle < 180: dummy-atom linear bends)
    for th in ((175.0,) if not full else (175.0, 172.0, 178.5)):
        t = math.radians(th)
        add(f"CO2-bent{th:g}", "near-linear", "COO", [[0, 0, 0], [1.16, 0, 0], [1.16 * math.cos(t), 1.16 * math.sin(t), 0]])
    # allene / cumulenes
    add("allene", "cumulene", "CCCHHHH", [[0, 0, 0], [0, 0, 1.31], [0, 0, -1.31], [0.93, 0, 1.87], [-0.93, 0, 1.87],
                                          [0, 0.93, -1.87], [0, -0.93, -1.87]])
    add("butatriene", "cumulene", "CCCCHHHH", [[0, 0, 0.64], [0, 0, -0.64], [0, 0, 1.96], [0, 0, -1.96], [0.93, 0, 2.52],
                                               [-0.93, 0, 2.52], [0.93, 0, -2.52], [-0.93, 0, -2.52]])
    add("ketene", "planar-cumulene", "CCOHH", [[0, 0, 0], [0, 0, 1.31], [0, 0, 2.47], [0.94, 0, -0.52], [-0.94, 0, -0.52]])
    # planar AX3 and planar rings
    add("BF3", "planar-AX3", *star("B", "F", 1.31))
    add("SO3", "planar-AX3", *star("S", "O", 1.42))
    if full:
        add("NO3-", "planar-AX3", *star("N", "O", 1.25), charge=-1)
        add("BCl3", "planar-AX3", *star("B", "Cl", 1.74))
    add("BF3-pyramidal", "pyramidal-AX3", *star("B", "F", 1.31, lift=0.25))
    add("C4-ring", "planar-ring", *ring("C", 4, 1.02), bonds=[(0, 1), (1, 2), (2, 3), (0, 3)])
    add("C6-ring", "planar-ring", *ring("C", 6, 1.40), bonds=[(i, (i + 1) % 6) for i in range(6)])
    for smi, cls in ([("c1ccoc1", "planar-ring"), ("C1CC1", "ring"), ("OO", "chain"), ("CC", "chain"), ("CCO", "chain"),
                      ("C=C", "planar"), ("C=O", "planar"), ("CC=O", "chain"), ("CN", "chain"), ("C#CC", "chain-linear-part"),
                      ("CC#N", "chain-linear-part"), ("C=C=C", "cumulene")] +
                     ([("c1ccccc1", "planar-ring"), ("CC(C)C", "chain"), ("OCCO", "chain"), ("C1=CC1", "planar-ring"),
                       ("NC=O", "planar"), ("CSC", "chain"), ("FC(F)F", "chain"), ("C#CC#C", "linear"), ("CCC", "chain"),
                       ("c1cc[nH]c1", "planar-ring")] if full else [])):
        s, p, b = rdkit_geom(smi)
        add(smi, cls, s, p, bonds=b)
    # complexes of 2-3 fragments and ion pairs
    ws, wp, _ = rdkit_geom("O")
    add("water2", "complex2", ws * 2, wp + shifted(wp, [2.8, 0.3, 0.2]))
    add("water3", "complex3", ws * 3, wp + shifted(wp, [2.8, 0.3, 0.2]) + shifted(wp, [-0.4, 2.9, 0.3]))
    ms, mp, _ = rdkit_geom("C")
    add("CH4-H2O", "complex2", ms + ws, mp + shifted(wp, [3.4, 0.4, -0.3]))
    add("HF2", "complex2", "FHFH", [[0, 0, 0], [0.93, 0, 0], [2.55, 0.45, 0], [2.9, 1.3, 0.1]])
    add("NaCl", "ionpair", ["Na", "Cl"], [[0, 0, 0], [0, 0, 2.4]])
    add("LiF-HF", "ionpair", ["Li", "F", "H", "F"], [[0, 0, 0], [1.6, 0, 0], [3.2, 0.3, 0], [4.1, 0.5, 0.0]])
    cs, cp, _ = rdkit_geom("CCl")
    add("F-CH3Cl", "ionpair", ["F"] + cs, [[-3.0, 0.2, 0.1]] + cp, charge=-1)
    add("Na-water", "ionpair", ["Na"] + ws, [[0.3, 0.2, 2.2]] + wp, charge=1)
    if full:
        add("Ar3", "complex3", ["Ar"] * 3, [[0, 0, 0], [3.7, 0, 0], [1.8, 3.2, 0.4]])
        ns, npos, _ = rdkit_geom("N")
        add("NH4Cl", "ionpair", ns + ["Cl"], npos + [[2.9, 0.3, 0.4]])
        add("water-HCN", "complex2", ws + list("HCN"), wp + [[0, 0, 2.9], [0, 0, 3.96], [0, 0, 5.12]])
    return out


def perturbed(spec, rs, amp):
    """randomly displaced copy; the displacement is a fixed function of (molecule, amplitude), NOT of VERIF_SEED, so that
    the input class of a perturbed geometry (and with it the set of finding keys) is the same in every run"""
    import zlib
    rs = np.random.RandomState(zlib.crc32(f"{spec['name']}|{amp}".encode()) % (2 ** 31))
    s = dict(spec)
    s["coords"] = (np.array(spec["coords"]) + rs.normal(scale=amp, size=(len(spec["coords"]), 3))).tolist()
    s["name"] = spec["name"] + f"~{amp:g}"
    s["cls"] = spec["cls"] + "~"
    return s


def random_constraints(spec, rs, k):
    for _ in range(12):
        cons = _random_constraints(spec, rs, k)
        s2 = dict(spec); s2["constraints"] = cons
        s0 = dict(spec); s0["constraints"] = []
        if not cons or degenerate_angle_cause(s2) == degenerate_angle_cause(s0):
            return cons
    return []


def _random_constraints(spec, rs, k):
    """k random distance constraints: bonded, 1-3 or cross-fragment pairs; value = current (satisfied) or shifted."""
    n = len(spec["symbols"])
    if n < 3 or k == 0:
        return []
    x = np.array(spec["coords"])
    pairs = [(i, j) for i in range(n) for j in range(i + 1, n) if 0.6 < np.linalg.norm(x[i] - x[j]) < 4.5]
    if not pairs:
        return []
    idx = rs.choice(len(pairs), size=min(k, len(pairs)), replace=False)
    out = []
    for t in sorted(idx):
        i, j = pairs[t]
        r = float(np.linalg.norm(x[i] - x[j]))
        if rs.rand() < 0.5:
            r = r + float(rs.choice([-0.15, 0.1, 0.2]))
        out.append((i, j, round(r, 6)))
    return out


def collinear(x):
    c = x - x.mean(axis=0)
    sv = np.linalg.svd(c, compute_uv=False)
    return len(x) == 2 or sv[1] < 1e-9 * max(sv[0], 1.0)


def rigid_basis(x):
    """orthonormal basis of the infinitesimal translations and rotations at geometry x (3N x 6 or 5)"""
    n = len(x)
    c = x - x.mean(axis=0)
    vs = []
    for a in range(3):
        v = np.zeros((n, 3)); v[:, a] = 1.0; vs.append(v.ravel())
    for a in range(3):
        ax = np.zeros(3); ax[a] = 1.0
        vs.append(np.cross(ax, c).ravel())
    u, s, _ = np.linalg.svd(np.array(vs).T, full_matrices=False)
    return u[:, s > 1e-8 * s[0]]


# =============================================================================================
# implementation-side oracles.  Every oracle takes a JSON-able spec and returns a list of
# (key, what, replay) failures, so that replay() can re-run exactly the stored input.
# =============================================================================================
def build(spec):
    """-> (mol, pic, x, q, B) or raises"""
    from autode.opt.coordinates import CartesianCoordinates
    from autode.opt.coordinates.internals import AnyPIC
    m = mol_of(spec)
    pic = AnyPIC.from_species(m)
    if spec.get("route") == "extra" and spec.get("constraints"):
        # the extra-primitive route of CRFOptimiser(extra_prims=[...]) / crfo.py:259-261: primitives.add(ic)
        from autode.opt.coordinates.primitives import ConstrainedPrimitiveDistance
        for i, j, r in spec["constraints"]:
            pic.add(ConstrainedPrimitiveDistance(int(i), int(j), float(r)))
    x = CartesianCoordinates(m.coordinates)
    q = pic(x)
    B = pic.get_B(x)
    return m, pic, x, q, B


def rep(spec, **kw):
    r = {"kind": kw.pop("kind"), "spec": {k: spec[k] for k in ("name", "cls", "symbols", "coords", "charge", "bonds") if k in spec}}
    r["spec"]["constraints"] = [list(c) for c in spec.get("constraints", [])]
    if spec.get("route"):
        r["spec"]["route"] = spec["route"]
    r.update(kw)
    return r


def cls_key(spec):
    return spec["cls"].rstrip("~")


def degenerate_angle_cause(spec):
    """Does the connected graph AnyPIC works on contain a bond angle m-o-n of exactly 0 degrees (m and n on the same side
    of o on one line)?  Decided from the geometry and the graphs (not from whether acos happens to assert after rounding).
    -> None, or the reason the offending edge exists: 'hbond-edge-in-linear-chain', 'constraint-edge-in-linear-chain',
    'other-edge-in-linear-chain'"""
    from autode.opt.coordinates.internals import _connect_graph_for_species
    try:
        m = mol_of(spec)
        before = {(min(int(i), int(j)), max(int(i), int(j))) for i, j in m.graph.edges}
        s0 = dict(spec); s0["constraints"] = []
        m0 = mol_of(s0); _connect_graph_for_species(m0)
        g0 = {(min(int(i), int(j)), max(int(i), int(j))) for i, j in m0.graph.edges}
        mc = m.copy(); _connect_graph_for_species(mc)
    except Exception:  # noqa
        return None
    xyz = np.array(spec["coords"])
    causes = []
    for o in range(len(xyz)):
        nb = [int(v) for v in mc.graph.neighbors(o)]
        for a in range(len(nb)):
            for b in range(a + 1, len(nb)):
                u, v = xyz[nb[a]] - xyz[o], xyz[nb[b]] - xyz[o]
                cu = float(np.dot(u, v) / (np.linalg.norm(u) * np.linalg.norm(v)))
                if cu > 1.0 - 1e-12:
                    far = nb[a] if np.linalg.norm(u) > np.linalg.norm(v) else nb[b]
                    e = (min(o, far), max(o, far))
                    if e in g0 and e not in before:
                        causes.append("hbond-edge-in-linear-chain")
                    elif e not in g0:
                        causes.append("constraint-edge-in-linear-chain")
                    else:
                        causes.append("other-edge-in-linear-chain")
    for c in ("hbond-edge-in-linear-chain", "constraint-edge-in-linear-chain", "other-edge-in-linear-chain"):
        if c in causes:
            return c
    return None


def added_edge_cause(spec):
    """why does the connected graph contain an edge that is no bond: an H-bond edge (internals.py:549-559), a joining
    edge, or a constraint edge (internals.py:576-579)?  Decided from the graphs, not from the symptom."""
    from autode.opt.coordinates.internals import _connect_graph_for_species
    try:
        s0 = dict(spec); s0["constraints"] = []
        m0 = mol_of(s0)
        before = {(min(i, j), max(i, j)) for i, j in m0.graph.edges}
        mc = m0.copy(); _connect_graph_for_species(mc)
        added = {(min(int(i), int(j)), max(int(i), int(j))) for i, j in mc.graph.edges} - before
        sym = spec["symbols"]
        hb = [e for e in added if (sym[e[0]] == "H") != (sym[e[1]] == "H") and {sym[e[0]], sym[e[1]]} & set(H_BOND_X)]
        try:
            build(s0); ok0 = True
        except Exception:  # noqa
            ok0 = False
        if not ok0:
            return "hbond-edge-in-linear-chain" if hb else "no-added-edge"
        return "constraint-edge-in-linear-chain" if spec.get("constraints") else "no-added-edge"
    except Exception:  # noqa
        return "undetermined"


def dic_incomplete_cause(klass, pic, x, n_dic, dof):
    """the delocalised set has fewer coordinates than internal degrees of freedom: was the vector dropped by
    _calc_U (eigenvalue selection / Schmidt) or by _symmetry_inequivalent_u?"""
    try:
        with np.errstate(all="ignore"):
            n0 = klass._calc_U(pic, x).shape[1]
    except Exception:  # noqa
        return "_calc_U-raises"
    return "_symmetry_inequivalent_u" if n0 >= dof else f"{klass.__name__}._calc_U"


def schmidt_min_norm(klass, pic, x):
    """smallest norm that _schmidt_orthogonalise divides by for this input (the algorithm of dic.py:516-547 re-run on the
    eigenvectors of DIC._calc_U); inf when there is nothing to orthogonalise"""
    from autode.opt.coordinates import DIC
    try:
        arr = np.array(DIC._calc_U(pic, x), copy=True)
    except Exception:  # noqa
        return float("inf")
    idxs = [i for i, p in enumerate(pic) if p.is_constrained]
    m, n = len(idxs), arr.shape[1]
    us = [np.eye(arr.shape[0])[k] for k in idxs]
    least = float("inf")
    for i in range(m, n):
        v = arr[:, i].copy()
        for u in us:
            v = v - (u @ v) / (u @ u) * u
        nv = float(np.linalg.norm(v))
        least = min(least, nv)
        us.append(v / nv if nv > 0 else v)
    return least


def oracle_primitives(spec):
    """rank of B on the internal subspace, U^T U = I, constrained primitives isolated."""
    from autode.opt.coordinates import DIC, DICWithConstraints
    fails, info = [], {}
    cons = spec.get("constraints", [])
    deg = degenerate_angle_cause(spec)
    if deg is not None:
        try:
            build(spec)
            how = "is evaluated at the boundary of acos (AssertionError or not depending on rounding)"
        except Exception as e:  # noqa
            how = f"raises {type(e).__name__} when the primitives are evaluated"
        fails.append((f"AnyPIC|zero-bond-angle:{deg}:{cls_key(spec)}",
                      f"{spec['name']}{' with distance constraints ' + str(cons) if cons else ''}: the graph used for the primitives has an edge "
                      f"along a linear chain, the 0 degree bond angle {how}", rep(spec, kind="primitives")))
        info["degenerate"] = True
        return fails, info
    try:
        m, pic, x, q, B = build(spec)
    except Exception as e:  # noqa
        tb = traceback.extract_tb(sys.exc_info()[2])[-1]
        zero = False
        if zero:
            cause = added_edge_cause(spec)
            key = f"AnyPIC|zero-bond-angle:{cause}:{spec['cls']}"
        else:
            key = f"AnyPIC|{type(e).__name__}:{cls_key(spec)}"
        fails.append((key,
                      f"{spec['name']}{' with distance constraints ' + str(cons) if cons else ''}: building / evaluating the primitives "
                      f"raised {type(e).__name__} at {tb.name}:{tb.lineno} ({str(e)[:80]})",
                      rep(spec, kind="primitives")))
        return fails, info
    xyz = np.array(spec["coords"])
    n_at = len(xyz)
    lin = collinear(xyz)
    dof = 3 * n_at - (5 if lin else 6)
    info.update(n_atoms=n_at, n_prim=len(pic), dof=dof, linear=lin)
    if not (np.all(np.isfinite(q)) and np.all(np.isfinite(B))):
        i = int(np.argmax(~np.isfinite(q))) if not np.all(np.isfinite(q)) else int(np.argmax(~np.isfinite(B).all(axis=1)))
        fails.append((f"AnyPIC|non-finite-primitive:{cls_key(spec)}",
                      f"{spec['name']}: primitive {pic[i]!r} has a non-finite value / derivative (q = {q[i]})",
                      rep(spec, kind="primitives")))
        return fails, info
    from autode.opt.coordinates.primitives import LinearAngleBase
    if lin:
        for i, pr in enumerate(pic):
            if isinstance(pr, LinearAngleBase) and abs(q[i]) > 1e-8:
                fails.append((f"AnyPIC|linear-bend-nonzero:{cls_key(spec)}",
                              f"{spec['name']}: exactly linear molecule but {pr!r} = {q[i]:.3e}", rep(spec, kind="primitives")))
                break
    T = rigid_basis(xyz)
    Bint = B - (B @ T) @ T.T
    sv = np.linalg.svd(Bint, compute_uv=False)
    sv = np.concatenate([sv, np.zeros(max(0, dof - len(sv)))])
    margin = sv[dof - 1] / sv[0] if dof > 0 and sv[0] > 0 else 1.0
    info["rank_margin"] = float(margin)
    if dof > 0 and margin < 1e-9:
        rank = int((sv > 1e-9 * sv[0]).sum())
        kcls = "distorted-linear" if spec["cls"] == "distorted-linear~" else spec["cls"]
        fails.append((f"AnyPIC.from_species|rank-deficient:{kcls}",
                      f"{spec['name']}: the {len(pic)} generated primitives span only {rank} of the {dof} internal degrees of "
                      f"freedom (singular value {dof} of B on the internal subspace = {sv[dof - 1]:.2e})",
                      rep(spec, kind="primitives")))
    elif dof > 0 and margin < 1e-6:
        info["rank_ambiguous"] = True
    # delocalised transformation
    klass = DICWithConstraints if cons else DIC
    try:
        dic = klass.from_cartesian(x, pic)
    except Exception as e:  # noqa
        nan_u = False
        if cons:
            try:
                with np.errstate(all="ignore"):
                    nan_u = not np.all(np.isfinite(klass._calc_U(pic, x)))
            except Exception:  # noqa
                pass
        if nan_u and not fails:
            # the premise "no zero vector arises" of Props.schmidt_orthonormal_and_isolating fails on the real input
            fails.append(("DICWithConstraints._calc_U|schmidt-zero-vector",
                          f"{spec['name']} with distance constraints {cons}: a column orthogonalised against the constraint unit vectors "
                          f"vanishes (dic.py:541 divides by a zero norm): U contains NaN and {klass.__name__}.from_cartesian raised "
                          f"{type(e).__name__}: {str(e)[:60]}", rep(spec, kind="primitives")))
        elif not fails:
            fails.append((f"{klass.__name__}.from_cartesian|{type(e).__name__}:{cls_key(spec)}",
                          f"{spec['name']}: {klass.__name__}.from_cartesian raised {type(e).__name__}: {str(e)[:100]}",
                          rep(spec, kind="primitives")))
        return fails, info
    U = np.asarray(dic.U)
    n = U.shape[1]
    info.update(n_dic=n, dic=dic, pic=pic, x=x, mol=m)
    err = float(np.abs(U.T @ U - np.eye(n)).max()) if n else 0.0
    if cons and err > 1e-8 and schmidt_min_norm(klass, pic, x) < 1e-8:
        # the "no zero vector arises" premise fails: a (numerically) vanishing column was normalised (dic.py:541)
        fails.append(("DICWithConstraints._calc_U|schmidt-zero-vector",
                      f"{spec['name']} with distance constraints {cons}: a column orthogonalised against the constraint unit vectors vanishes "
                      f"(norm < 1e-8, dic.py:541 normalises rounding noise): max |U^T U - I| = {err:.2e}", rep(spec, kind="primitives")))
        err = 0.0
    if n == 0:
        if dof > 0:
            fails.append((f"{klass.__name__}._calc_U|empty-delocalised-set:{spec['cls']}", f"{spec['name']}: 0 delocalised coordinates for {dof} degrees of freedom",
                          rep(spec, kind="primitives")))
        info["dic_rank"] = 0
        return fails, info
    if err > 1e-8:
        fails.append((f"{klass.__name__}._calc_U|not-orthonormal:{cls_key(spec)}",
                      f"{spec['name']}: max |U^T U - I| = {err:.2e}", rep(spec, kind="primitives")))
    if not np.allclose(np.asarray(dic), U.T @ q, atol=1e-10):
        fails.append((f"{klass.__name__}.from_cartesian|s!=U^Tq:{cls_key(spec)}", f"{spec['name']}: s != U^T q",
                      rep(spec, kind="primitives")))
    if cons:
        ks = [i for i, p in enumerate(pic) if p.is_constrained]
        mm = len(ks)
        bad = None
        if mm != len(cons):
            bad = f"{mm} constrained primitives for {len(cons)} constraints"
        elif mm > n:
            bad = f"{mm} constraints but only {n} coordinates"
        else:
            for t, k in enumerate(ks):
                e = np.zeros(U.shape[0]); e[k] = 1.0
                if np.abs(U[:, n - mm + t] - e).max() > 1e-12:
                    bad = f"column {n - mm + t} is not the unit vector of constrained primitive {k} ({pic[k]!r})"
                    break
                if n - mm > 0 and np.abs(U[k, :n - mm]).max() > 1e-10:
                    bad = f"row {k} of constrained primitive {pic[k]!r} has entry {np.abs(U[k, :n - mm]).max():.2e} in a non-unit column"
                    break
        if bad:
            fails.append((f"DICWithConstraints._calc_U|constraint-not-isolated:{cls_key(spec)}", f"{spec['name']}: {bad}",
                          rep(spec, kind="primitives")))
    svd_dic = np.linalg.svd(np.asarray(dic.B), compute_uv=False) if n else np.array([])
    info["dic_rank"] = int((svd_dic > 1e-8 * svd_dic[0]).sum()) if n else 0
    if dof > 0 and margin >= 1e-6 and n < dof:
        # the primitives are complete but the delocalised coordinates are fewer than the internal degrees of freedom
        cause = dic_incomplete_cause(klass, pic, x, n, dof)
        fails.append((f"{cause}|delocalised-set-incomplete:{spec['cls']}{'+constraints' if (cons and cause != '_symmetry_inequivalent_u') else ''}",
                      f"{spec['name']}{' with distance constraints ' + str(cons) if cons else ''}: the {len(pic)} primitives span all {dof} internal "
                      f"degrees of freedom ({'3N-5, linear' if lin else '3N-6'}) but {klass.__name__}.from_cartesian returns only {n} delocalised "
                      f"coordinates (rank of U^T B = {info['dic_rank']}); the vectors were dropped by {cause}",
                      rep(spec, kind="primitives")))
    if cons and dof > 0 and margin >= 1e-6 and n > 0 and info["dic_rank"] < min(n, dof) and not any(k.startswith("DICWithConstraints._calc_U") for k, _, _ in fails):
        # Props.schmidt_loses_span_refuted: the first m eigenvectors are dropped, whatever they span
        fails.append(("DICWithConstraints._calc_U|constrained-dic-rank-deficient",
                      f"{spec['name']} with distance constraints {cons}: the primitives span all {dof} internal degrees of freedom but "
                      f"the {n} delocalised coordinates after Schmidt orthogonalisation only {info['dic_rank']} "
                      f"(rank of U^T B; the first m eigenvectors are replaced by unit vectors without being projected)",
                      rep(spec, kind="primitives")))
    return fails, info


def oracle_rigid(spec, rotvec, shift):
    """internal values are unchanged by a proper rotation + translation (same PIC object and a freshly built one);
    dihedrals are compared modulo 2 pi (+180 and -180 degrees are the same angle)"""
    from scipy.spatial.transform import Rotation
    from autode.opt.coordinates import CartesianCoordinates
    from autode.opt.coordinates.internals import AnyPIC
    from autode.opt.coordinates.primitives import PrimitiveDihedralAngle, PrimitiveDummyLinearAngle
    fails = []
    if degenerate_angle_cause(spec) is not None:
        return fails

    try:
        m, pic, x, q, B = build(spec)
    except Exception:  # noqa  (reported by oracle_primitives)
        return fails
    R = Rotation.from_rotvec(rotvec).as_matrix()
    xyz2 = np.array(spec["coords"]) @ R.T + np.array(shift)
    spec2 = dict(spec); spec2["coords"] = xyz2.tolist()
    x2 = CartesianCoordinates(xyz2)
    RP = rep(spec, kind="rigid", rotvec=list(rotvec), shift=list(shift))
    cases = [("same PIC object", pic, pic(x2), list(range(len(pic))))]
    try:
        pic2 = AnyPIC.from_species(mol_of(spec2))
        match = [pic.index(p) if p in pic else None for p in pic2]
        if len(pic2) != len(pic) or None in match:
            # symmetric geometries: ties in the choice of reference atoms are broken by rounding; the values of the
            # primitives common to both sets are still compared
            common = [(i2, i) for i2, i in enumerate(match) if i is not None]
            cases.append(("PIC rebuilt for the moved molecule (common primitives)", [pic2[i2] for i2, _ in common],
                          np.array([pic2[i2](x2) for i2, _ in common]), [i for _, i in common]))
        else:
            cases.append(("PIC rebuilt for the moved molecule", pic2, pic2(x2), match))
    except Exception as e:  # noqa
        fails.append((f"AnyPIC.from_species|frame-dependent-exception:{cls_key(spec)}",
                      f"{spec['name']}: building primitives for the rotated+translated molecule raised {type(e).__name__}", RP))
    for label, pc, qq, match in cases:
        bad = []
        for i2, i in enumerate(match):
            d = qq[i2] - q[i]
            if isinstance(pc[i2], PrimitiveDihedralAngle):
                d = (d + math.pi) % (2 * math.pi) - math.pi
            if abs(d) > 1e-8:
                bad.append((i2, i, abs(d)))
        if bad:
            i2, i, d = bad[0]
            types = sorted({type(pc[b[0]]).__name__ for b in bad})
            key = (f"PrimitiveDummyLinearAngle|rigid-motion-near-linear:{cls_key(spec)}" if types == ["PrimitiveDummyLinearAngle"]
                   else f"{'+'.join(types)}|rigid-motion:{cls_key(spec)}")
            fails.append((key, f"{spec['name']}: {label}: {pc[i2]!r} = {q[i]:.6f} before and {qq[i2]:.6f} after a rigid "
                               f"rotation+translation ({len(bad)} of {len(pc)} primitives change, max {max(b[2] for b in bad):.2e})", RP))
            break
    return fails


def make_dic(spec):
    from autode.opt.coordinates import DIC, DICWithConstraints
    m, pic, x, q, B = build(spec)
    klass = DICWithConstraints if spec.get("constraints") else DIC
    return m, pic, x, klass.from_cartesian(x, pic)


def oracle_step(spec, direction, norm):
    """a DIC step and the back-transformation: success => internal values are the requested ones;
    failure => CoordinateTransformFailed iff allow_unconverged_back_transform is False"""
    from autode.exceptions import CoordinateTransformFailed
    fails = []
    if degenerate_angle_cause(spec) is not None:
        return fails, None

    try:
        m, pic, x, dic = make_dic(spec)
    except Exception:  # noqa
        return fails, None
    n = len(dic)
    mcon = dic.n_constraints
    d = np.array(direction[:n], dtype=float)
    if len(d) < n:
        d = np.concatenate([d, np.zeros(n - len(d))])
    if mcon:
        for i in dic.inactive_indexes:
            if i < n:
                d[i] = 0.0
    if np.linalg.norm(d) == 0:
        return fails, None
    d = d / np.linalg.norm(d) * norm
    step = np.concatenate([d, np.zeros(mcon)])
    s_target = np.array(dic, copy=True) + d
    q0 = dic._q.copy()
    x1 = np.array(dic._x, copy=True) + np.asarray(dic.B_T_inv) @ d
    R = lambda **kw: rep(spec, kind="step", direction=[float(v) for v in direction], norm=norm, **kw)  # noqa

    def take(allow):
        c = dic.copy()
        c.allow_unconverged_back_transform = allow
        return c + step

    ok, new1, other = True, None, None
    try:
        new1 = take(False)
    except CoordinateTransformFailed:
        ok = False
    except Exception as e:  # noqa
        other = e
    if other is not None:
        fails.append((f"DIC.iadd|{type(other).__name__}:{cls_key(spec)}",
                      f"{spec['name']}: a step of norm {norm} raised {type(other).__name__} ({str(other)[:80]}) instead of "
                      f"CoordinateTransformFailed", R()))
        return fails, None
    try:
        new2 = take(True)
    except Exception as e:  # noqa
        fails.append((f"DIC.iadd|raises-although-allowed:{cls_key(spec)}",
                      f"{spec['name']}: step of norm {norm} with allow_unconverged_back_transform=True raised {type(e).__name__}: {str(e)[:80]}",
                      R()))
        return fails, ok
    if ok:
        xn = new1._x
        qn = pic.close_to(xn, q0)
        sn = np.asarray(dic.U).T @ qn
        err = float(np.abs(sn - s_target).max())
        if err > 1e-8:
            i = int(np.argmax(np.abs(sn - s_target)))
            fails.append((f"DIC.iadd|success-but-wrong-internals:{cls_key(spec)}",
                          f"{spec['name']}: back-transformation of a step of norm {norm} reported success but "
                          f"s_{i}(x_new) = {sn[i]:.8f}, requested {s_target[i]:.8f} (|diff| = {err:.2e})", R()))
        if np.abs(np.asarray(new1) - s_target).max() > 1e-8 or np.abs(new1._q - qn).max() > 1e-8:
            fails.append((f"DIC.iadd|stored-s-q-inconsistent:{cls_key(spec)}",
                          f"{spec['name']}: after a successful step the stored s / _q differ from the values at the new geometry", R()))
        if np.abs(np.asarray(new2._x) - np.asarray(xn)).max() > 1e-9:
            fails.append((f"DIC.iadd|allow-flag-changes-result:{cls_key(spec)}",
                          f"{spec['name']}: a converged step gives different Cartesians with allow_unconverged_back_transform True/False", R()))
    else:
        if np.abs(np.asarray(new2._x) - x1).max() > 1e-9:
            fails.append((f"DIC.iadd|failure-not-first-order-fallback:{cls_key(spec)}",
                          f"{spec['name']}: unconverged back-transformation (allowed) did not return x + B^+ ds", R()))
    for nw in ([new1] if ok else []) + [new2]:
        try:
            Bn = np.asarray(dic.U).T @ pic.get_B(nw._x)
            okB = np.all(np.isfinite(Bn)) and np.allclose(np.asarray(nw.B), Bn, atol=1e-8 * max(1.0, np.abs(Bn).max())) and \
                np.allclose(np.asarray(nw.B_T_inv), np.linalg.pinv(Bn), atol=1e-6 * max(1.0, np.abs(np.linalg.pinv(Bn)).max()))
        except Exception:  # noqa
            okB = True
        if not okB:
            fails.append((f"DIC.iadd|B-not-at-returned-geometry:{cls_key(spec)}",
                          f"{spec['name']}: after a step of norm {norm} ({'converged' if ok else 'not converged, first-order estimate returned'}) "
                          f"dic.B / dic.B_T_inv are not U^T B(x_new) and its pseudo-inverse: gradients pulled back later belong to another geometry", R()))
            break
    for nw in ([new1] if ok else []) + [new2]:
        xc = nw.to("cart")
        if nw.e is not None or nw._g is not None or nw._h is not None or xc.e is not None or xc.g is not None or xc._h is not None:
            fails.append((f"DIC.__add__|stale-tensor:{cls_key(spec)}", f"{spec['name']}: e/g/h kept after a DIC step", R()))
            break
    return fails, ok


def pair_potential(xyz, r0, kf):
    """E = 1/2 sum_{i<j} k_ij (r_ij - r0_ij)^2 : value, gradient (3N), Hessian (3N x 3N)"""
    n = len(xyz)
    e, g, h = 0.0, np.zeros((n, 3)), np.zeros((3 * n, 3 * n))
    for i in range(n):
        for j in range(i + 1, n):
            v = xyz[i] - xyz[j]
            r = np.linalg.norm(v)
            u = v / r
            dr = r - r0[i, j]
            e += 0.5 * kf[i, j] * dr * dr
            g[i] += kf[i, j] * dr * u
            g[j] -= kf[i, j] * dr * u
            blk = kf[i, j] * (np.outer(u, u) + dr / r * (np.eye(3) - np.outer(u, u)))
            for a, b, sgn in ((i, i, 1), (j, j, 1), (i, j, -1), (j, i, -1)):
                h[3 * a:3 * a + 3, 3 * b:3 * b + 3] += sgn * blk
    return e, g.ravel(), h


def oracle_pullback(spec, seed, stationary):
    """g_s / H_s against numpy's pinv, the defining relation B^T g_s = g_x and finite differences of an analytic
    pair potential along DIC steps (Hessian at a stationary point, where A^T H A is the full second derivative)."""
    from autode.opt.coordinates import CartesianCoordinates, DIC
    from autode.opt.coordinates.internals import AnyPIC
    from autode.exceptions import CoordinateTransformFailed
    fails = []
    if degenerate_angle_cause(spec) is not None:
        return fails

    rs = np.random.RandomState(seed)
    spec = dict(spec); spec["constraints"] = []
    xyz = np.array(spec["coords"])
    n_at = len(xyz)
    r = np.linalg.norm(xyz[:, None, :] - xyz[None, :, :], axis=2)
    kf = rs.uniform(0.5, 1.5, size=(n_at, n_at)); kf = (kf + kf.T) / 2
    eps = rs.uniform(-0.05, 0.05, size=(n_at, n_at)); eps = (eps + eps.T) / 2
    r0 = r if stationary else r * (1 + eps)
    R = lambda **kw: rep(spec, kind="pullback", seed=seed, stationary=stationary, **kw)  # noqa
    try:
        m = mol_of(spec)
        pic = AnyPIC.from_species(m)
        x = CartesianCoordinates(m.coordinates)
        e0, gx, hx = pair_potential(xyz, r0, kf)
        x.e = e0
        x.update_g_from_cart_g(gx)
        x.update_h_from_cart_h(hx)
        dic = DIC.from_cartesian(x, pic)
    except Exception:  # noqa
        return fails
    n = len(dic)
    Bm, A = np.asarray(dic.B), np.asarray(dic.B_T_inv)
    gs, hs = np.asarray(dic.g), np.asarray(dic.h)
    scale = max(1.0, float(np.abs(gx).max()))
    if np.abs(gs - np.linalg.pinv(Bm).T @ gx).max() > 1e-8 * scale or np.abs(hs - np.linalg.pinv(Bm).T @ hx @ np.linalg.pinv(Bm)).max() > 1e-7 * max(1.0, np.abs(hx).max()):
        fails.append((f"DIC.from_cartesian|g-h-not-pinv-pullback:{cls_key(spec)}",
                      f"{spec['name']}: g_s / H_s differ from pinv(B)^T g_x / pinv(B)^T H_x pinv(B)", R()))
    if float(dic.e) != float(e0) or dic.to("cart").g is None:
        fails.append((f"DIC.from_cartesian|energy-not-carried:{cls_key(spec)}", f"{spec['name']}: e / cartesian g not carried over", R()))
    full_rank = n and np.linalg.matrix_rank(Bm, tol=1e-8) == n
    lin = collinear(xyz)
    complete = full_rank and n == 3 * n_at - (5 if lin else 6)
    from autode.opt.coordinates.primitives import PrimitiveDummyLinearAngle
    has_dummy = any(isinstance(p, PrimitiveDummyLinearAngle) for p in pic)
    if complete and not lin and not has_dummy:
        res = float(np.abs(Bm.T @ gs - gx).max())
        if res > 1e-7 * scale:
            fails.append((f"DIC._update_g_from_cart_g|defining-relation:{cls_key(spec)}",
                          f"{spec['name']}: |B^T g_s - g_x| = {res:.2e} for a rigid-motion invariant potential", R()))
    if not full_rank:
        return fails
    # finite differences along DIC directions.  Only for a well conditioned B (the error of a central difference
    # grows like sigma_min^-3) and only when two step sizes agree with each other (otherwise inconclusive).
    svB = np.linalg.svd(Bm, compute_uv=False)
    if svB[-1] < 0.2 * svB[0]:
        return fails
    ndir = 1 if n_at <= 4 or stationary else 2

    def central(i, hstep):
        vals = []
        for sgn in (+1, -1):
            c = dic.copy(); c.allow_unconverged_back_transform = False
            d = np.zeros(n); d[i] = sgn * hstep
            nw = c + d
            xn = np.asarray(nw._x).reshape(-1, 3)
            en, gn, _ = pair_potential(xn, r0, kf)
            nw.update_g_from_cart_g(gn)
            vals.append((en, np.asarray(nw.g)))
        return (vals[0][0] - vals[1][0]) / (2 * hstep), (vals[0][1] - vals[1][1]) / (2 * hstep)

    for i in [int(v) for v in rs.choice(n, size=min(n, ndir), replace=False)]:
        try:
            g1, h1 = central(i, 4e-4)
            g2, h2 = central(i, 2e-4)
        except Exception:  # noqa  (a failed back-transformation is reported by oracle_step)
            continue
        errg = abs(g2 - gs[i])
        if errg > 2e-5 * max(1.0, abs(gs[i])) + 1e-6 and abs(g1 - g2) < 0.25 * errg:
            fails.append((f"DIC._update_g_from_cart_g|finite-difference:{cls_key(spec)}",
                          f"{spec['name']}: dE/ds_{i} by central differences = {g2:.8f} (h=2e-4; {g1:.8f} with h=4e-4), pulled-back gradient {gs[i]:.8f}", R(i=i)))
        if stationary:
            errh = np.abs(h2 - hs[:, i])
            j = int(np.argmax(errh))
            if errh[j] > 5e-4 * max(1.0, np.abs(hs).max()) and np.abs(h1 - h2).max() < 0.25 * errh[j]:
                fails.append((f"DIC._update_h_from_cart_h|finite-difference:{cls_key(spec)}",
                              f"{spec['name']}: at a stationary point d g_{j}/d s_{i} by central differences = {h2[j]:.6f}, "
                              f"pulled-back Hessian {hs[j, i]:.6f}", R(i=i)))
    return fails


def rotate_about_bond(xyz, bonds_adj, o, p, phi):
    """rotate the p-side of bond o-p (atoms reachable from p without passing o) by phi about o->p"""
    from scipy.spatial.transform import Rotation
    side, todo = {p}, [p]
    while todo:
        v = todo.pop()
        for w in bonds_adj[v]:
            if w != o and w not in side:
                side.add(w); todo.append(w)
    if o in side:
        return None, None
    ax = xyz[p] - xyz[o]; ax = ax / np.linalg.norm(ax)
    Rm = Rotation.from_rotvec(ax * phi).as_matrix()
    out = xyz.copy()
    for a in side:
        out[a] = xyz[p] + Rm @ (xyz[a] - xyz[p])
    return out, side


def oracle_dihedral(spec, bond, dphi, turns):
    """close_to follows the dihedrals about a rotated bond continuously through +-180 degrees.  Up to a total
    winding inside the code's range the continuous value must be returned; `turns` > 1.5 probes the winding
    beyond 3 pi (Props.close_to_beyond_3pi_refuted)."""
    from autode.opt.coordinates import CartesianCoordinates
    from autode.opt.coordinates.primitives import PrimitiveDihedralAngle
    fails = []
    try:
        m, pic, x, q, B = build(spec)
    except Exception:  # noqa
        return fails
    o, p = bond
    adj = {i: set() for i in range(len(spec["symbols"]))}
    for a, b in spec["bonds"]:
        adj[a].add(b); adj[b].add(a)
    xyz = np.array(spec["coords"])
    _, side = rotate_about_bond(xyz, adj, o, p, 0.0)
    if side is None:
        return fails
    idx = [i for i, pr in enumerate(pic) if isinstance(pr, PrimitiveDihedralAngle) and {pr.o, pr.p} == {o, p}
           and ((pr.m in side) != (pr.n in side))]
    if not idx:
        return fails
    q_prev = q.copy()
    nsteps = int(turns * 2 * math.pi / abs(dphi))
    for k in range(1, nsteps + 1):
        xk, _ = rotate_about_bond(xyz, adj, o, p, k * dphi)
        qk = pic.close_to(CartesianCoordinates(xk), q_prev)
        for i in idx:
            jump = abs(abs(qk[i] - q_prev[i]) - abs(dphi))
            if jump > 1e-6:
                wound = abs(q_prev[i]) > 2 * math.pi - 1e-9 or abs(pic[i](CartesianCoordinates(xk)) - q_prev[i]) > 3 * math.pi
                key = ("PIC.close_to|dihedral-wound-beyond-3pi" if wound else f"PIC.close_to|dihedral-discontinuous:{cls_key(spec)}")
                fails.append((key,
                              f"{spec['name']}: rotating about bond {o}-{p} in steps of {dphi:.3f} rad, {pic[i]!r} went from "
                              f"{q_prev[i] / math.pi:.4f} pi to {qk[i] / math.pi:.4f} pi at step {k} (total rotation {k * dphi / math.pi:.3f} pi)",
                              rep(spec, kind="dihedral", bond=list(bond), dphi=dphi, turns=turns)))
                return fails
        q_prev = qk
    return fails


def oracle_dihedral_step(spec, bond, start_deg, dq):
    """a DIC step that carries a dihedral through +-180 degrees converges and yields the continuous value"""
    from autode.opt.coordinates import CartesianCoordinates, DIC
    from autode.opt.coordinates.internals import AnyPIC
    from autode.opt.coordinates.primitives import PrimitiveDihedralAngle
    from autode.exceptions import CoordinateTransformFailed
    fails = []
    o, p = bond
    adj = {i: set() for i in range(len(spec["symbols"]))}
    for a, b in spec["bonds"]:
        adj[a].add(b); adj[b].add(a)
    xyz = np.array(spec["coords"])
    try:
        m, pic, x, q, B = build(spec)
        _, side = rotate_about_bond(xyz, adj, o, p, 0.0)
        idx = [i for i, pr in enumerate(pic) if isinstance(pr, PrimitiveDihedralAngle) and {pr.o, pr.p} == {o, p}
               and ((pr.m in side) != (pr.n in side))]
        i0 = idx[0]
        # bring dihedral i0 to start_deg
        phi = math.radians(start_deg) - q[i0]
        for sg in (1, -1):
            x2, _ = rotate_about_bond(xyz, adj, o, p, sg * phi)
            if abs(pic[i0](CartesianCoordinates(x2)) - math.radians(start_deg)) < 1e-6:
                break
        spec2 = dict(spec); spec2["coords"] = x2.tolist(); spec2["constraints"] = []
        m, pic, x, q, B = build(spec2)
        dic = DIC.from_cartesian(x, pic)
    except Exception:  # noqa
        return fails
    idx = [i for i in idx if i < len(pic) and isinstance(pic[i], PrimitiveDihedralAngle) and {pic[i].o, pic[i].p} == {o, p}]
    dq_vec = np.zeros(len(pic))
    for i in idx:   # all torsions about the bond move together (sign by orientation of each)
        dq_vec[i] = dq
    step = np.asarray(dic.U).T @ dq_vec
    c = dic.copy(); c.allow_unconverged_back_transform = False
    R = rep(spec, kind="dihedral-step", bond=list(bond), start_deg=start_deg, dq=dq)
    try:
        nw = c + step
    except CoordinateTransformFailed:
        return fails       # failure is reported: allowed by the property
    except Exception as e:  # noqa
        fails.append((f"DIC.iadd|{type(e).__name__}:{cls_key(spec)}", f"{spec['name']}: dihedral step raised {type(e).__name__}", R))
        return fails
    fresh = pic(nw._x)
    for i in idx:
        if abs(nw._q[i] - q[i]) > math.pi:
            fails.append((f"DIC.iadd|dihedral-jump-through-180:{cls_key(spec)}",
                          f"{spec['name']}: {pic[i]!r} started at {math.degrees(q[i]):.2f} deg, step {math.degrees(dq):.1f} deg: "
                          f"stored value {math.degrees(nw._q[i]):.2f} deg", R))
            break
        k = round((nw._q[i] - fresh[i]) / (2 * math.pi))
        if abs(nw._q[i] - fresh[i] - 2 * math.pi * k) > 1e-8:
            fails.append((f"DIC.iadd|dihedral-not-congruent:{cls_key(spec)}",
                          f"{spec['name']}: stored {pic[i]!r} = {nw._q[i]:.8f} is not the value at the new geometry {fresh[i]:.8f} mod 2 pi", R))
            break
    sn = np.asarray(dic.U).T @ nw._q
    if np.abs(sn - (np.asarray(dic) + step)).max() > 1e-6:
        fails.append((f"DIC.iadd|success-but-wrong-internals:{cls_key(spec)}",
                      f"{spec['name']}: dihedral step through 180 deg reported success with wrong internal values", R))
    return fails


def h2o2_geom(phi_deg):
    phi = math.radians(phi_deg)
    r_oo, r_oh, th = 1.45, 0.97, math.radians(100.0)
    o1, o2 = np.zeros(3), np.array([r_oo, 0.0, 0.0])
    h1 = o1 + r_oh * np.array([math.cos(th), math.sin(th), 0.0])
    h2 = o2 + r_oh * np.array([-math.cos(th), math.sin(th) * math.cos(phi), math.sin(th) * math.sin(phi)])
    return np.array([o1, o2, h1, h2])


def torsion_targets(spec, bond, phis_deg):
    """geometries of spec with the first torsion about `bond` set to each of phis_deg (by rigid rotation of one side)
    -> (index of that torsion in the PIC of the FIRST geometry's species, list of coordinates)"""
    from autode.opt.coordinates import CartesianCoordinates
    from autode.opt.coordinates.primitives import PrimitiveDihedralAngle
    if spec["name"] == "H2O2-model":
        return None, [h2o2_geom(p) for p in phis_deg]
    o, p = bond
    adj = {i: set() for i in range(len(spec["symbols"]))}
    for a, b in spec["bonds"]:
        adj[a].add(b); adj[b].add(a)
    xyz = np.array(spec["coords"])
    m, pic, x, q, B = build(spec)
    _, side = rotate_about_bond(xyz, adj, o, p, 0.0)
    i0 = [i for i, pr in enumerate(pic) if isinstance(pr, PrimitiveDihedralAngle) and {pr.o, pr.p} == {o, p}
          and ((pr.m in side) != (pr.n in side))][0]
    out = []
    for ph in phis_deg:
        want = (math.radians(ph) + math.pi) % (2 * math.pi) - math.pi
        for sg in (1, -1):
            x2, _ = rotate_about_bond(xyz, adj, o, p, sg * (want - q[i0]))
            d = pic[i0](CartesianCoordinates(x2)) - want
            if abs((d + math.pi) % (2 * math.pi) - math.pi) < 1e-6:
                break
        out.append(x2)
    return i0, out


def oracle_step_sequence(spec, bond, phis_deg):
    """consecutive internal steps on the SAME chain of DIC objects, each the exact internal displacement to an existing
    target geometry; the first step carries a torsion through +-180 degrees and the following ones continue from there.
    After EVERY step: the back-transformation of such a small exact step converges, the internal values are the requested
    ones and the stored dihedrals are the continuous continuation of the previous ones."""
    from autode.opt.coordinates import CartesianCoordinates, DIC
    from autode.opt.coordinates.primitives import PrimitiveDihedralAngle
    from autode.exceptions import CoordinateTransformFailed
    fails = []
    R = rep(spec, kind="sequence", bond=list(bond), phis=list(phis_deg))
    try:
        _, geoms = torsion_targets(spec, bond, phis_deg)
        s0 = dict(spec); s0["coords"] = geoms[0].tolist(); s0["constraints"] = []
        m, pic, x, q, B = build(s0)
        cur = DIC.from_cartesian(x, pic)
    except Exception:  # noqa
        return fails
    U = np.array(cur.U, copy=True)
    dih = [i for i, pr in enumerate(pic) if isinstance(pr, PrimitiveDihedralAngle)]
    for k, (ph, xt) in enumerate(zip(phis_deg[1:], geoms[1:]), start=1):
        q_prev = np.array(cur._q, copy=True)
        q_t = pic.close_to(CartesianCoordinates(xt), q_prev)
        step = U.T @ (q_t - q_prev)
        s_req = np.array(cur, copy=True) + step
        cur.allow_unconverged_back_transform = False
        try:
            new = cur + step
        except CoordinateTransformFailed:
            fails.append((f"DIC.iadd|sequence-step-does-not-converge:{cls_key(spec)}",
                          f"{spec['name']}: step {k} of the torsion sequence {phis_deg} deg (torsion -> {ph} deg, |ds| = {np.linalg.norm(step):.3f}) "
                          f"is the exact internal displacement to an existing geometry but the back-transformation did not converge", R))
            return fails
        except Exception as e:  # noqa
            fails.append((f"DIC.iadd|{type(e).__name__}:{cls_key(spec)}", f"{spec['name']}: sequence step {k} raised {type(e).__name__}", R))
            return fails
        qn = pic.close_to(new._x, q_prev)
        err = float(np.abs(U.T @ qn - s_req).max())
        if err > 1e-6 or np.abs(np.asarray(new) - s_req).max() > 1e-6:
            fails.append((f"DIC.iadd|success-but-wrong-internals:{cls_key(spec)}",
                          f"{spec['name']}: step {k} of the torsion sequence {phis_deg} deg reported success but max |s(x_new) - s_requested| = "
                          f"{max(err, float(np.abs(np.asarray(new) - s_req).max())):.2e}", R))
            return fails
        jump = [i for i in dih if abs(new._q[i] - q_prev[i]) > math.pi or abs(new._q[i] - qn[i]) > 1e-8]
        if jump:
            i = jump[0]
            fails.append((f"DIC.iadd|stored-dihedral-discontinuous:{cls_key(spec)}",
                          f"{spec['name']}: step {k} of the torsion sequence {phis_deg} deg: stored {pic[i]!r} went from "
                          f"{math.degrees(q_prev[i]):.2f} to {math.degrees(new._q[i]):.2f} deg (continuous value {math.degrees(qn[i]):.2f})", R))
            return fails
        cur = new
    return fails


PTCL4 = {"name": "PtCl4", "cls": "square-planar", "symbols": ["Pt", "Cl", "Cl", "Cl", "Cl"], "charge": -2, "bonds": None,
         "coords": [[-0.1467, -0.2594, -0.0294], [-0.4597, -2.5963, -0.0523], [2.1804, -0.5689, -0.2496],
                    [-2.4738, 0.0501, 0.1908], [0.1663, 2.0776, -0.0066]], "constraints": []}
PF5 = {"name": "PF5", "cls": "trigonal-bipyramid", "symbols": ["P", "F", "F", "F", "F", "F"], "charge": 0, "bonds": None,
       "coords": [[0.0, 0.0, 0.0], [0.0, 0.0, 1.58], [0.0, 0.0, -1.58], [1.53, 0.0, 0.0],
                  [-0.765, 1.325, 0.0], [-0.765, -1.325, 0.0]], "constraints": []}
NICN4_CORE = {"name": "AuCl4", "cls": "square-planar", "symbols": ["Au", "Cl", "Cl", "Cl", "Cl"], "charge": -1, "bonds": None,
              "coords": [[0.0, 0.0, 0.01], [2.28, 0.02, 0.0], [-2.28, -0.02, 0.03], [0.02, 2.28, -0.02], [-0.02, -2.28, 0.0]],
              "constraints": []}


def oracle_oop_steps(spec, atom_idx, disps):
    """consecutive small displacements of one atom along the normal of the coordination plane, each mapped to the
    DIC step ds = B dx and taken on the same chain of DIC objects: such small steps converge, reproduce the requested
    internals, and no primitive (the improper / out-of-plane dihedrals near 180 degrees in particular) jumps."""
    from autode.opt.coordinates import DIC
    from autode.opt.coordinates.primitives import PrimitiveDihedralAngle
    from autode.exceptions import CoordinateTransformFailed
    fails = []
    R = rep(spec, kind="oop", atom=atom_idx, disps=list(disps))
    try:
        m, pic, x, q, B = build(spec)
        cur = DIC.from_cartesian(x, pic)
    except Exception:  # noqa   (reported by oracle_primitives)
        return fails
    U = np.array(cur.U, copy=True)
    xyz = np.array(spec["coords"])
    nb = [0] + [j for j in range(1, len(xyz)) if np.linalg.norm(xyz[j] - xyz[0]) < 2.8][:4]
    if spec["cls"] == "trigonal-bipyramid":
        nb = [0, 1, 2, 3]                       # plane containing the linear axial F-P-F and one equatorial F
    c = xyz[nb] - xyz[nb].mean(axis=0)
    normal = np.linalg.svd(c)[2][-1]
    n_imp = sum(type(pr).__name__ == "PrimitiveImproperDihedral" for pr in pic)
    for k, dsp in enumerate(disps, start=1):
        q_prev = np.array(cur._q, copy=True)
        dx = np.zeros((len(xyz), 3)); dx[atom_idx] = dsp * normal
        ds = np.asarray(cur.B) @ dx.ravel()
        s_req = np.array(cur, copy=True) + ds
        cur.allow_unconverged_back_transform = False
        label = f"{spec['name']} ({n_imp} improper dihedrals): step {k} of {list(disps)} A (atom {atom_idx} along the plane normal)"
        try:
            new = cur + ds
        except CoordinateTransformFailed:
            fails.append((f"DIC.iadd|small-out-of-plane-step-does-not-converge:{cls_key(spec)}",
                          f"{label}: |ds| = {np.linalg.norm(ds):.3f} but the back-transformation did not converge", R))
            return fails
        except Exception as e:  # noqa
            fails.append((f"DIC.iadd|{type(e).__name__}:{cls_key(spec)}", f"{label}: raised {type(e).__name__}", R))
            return fails
        fresh = pic(new._x)
        qn = fresh.copy()
        for i, pr in enumerate(pic):
            if isinstance(pr, PrimitiveDihedralAngle):
                qn[i] -= 2 * math.pi * round((qn[i] - q_prev[i]) / (2 * math.pi))
        err = max(float(np.abs(U.T @ qn - s_req).max()), float(np.abs(np.asarray(new) - s_req).max()))
        if err > 1e-6:
            fails.append((f"DIC.iadd|success-but-wrong-internals:{cls_key(spec)}",
                          f"{label}: reported success but max |s(x_new) - s_requested| = {err:.2e}", R))
            return fails
        dq = np.abs(np.asarray(new._q) - q_prev)
        if dq.max() > 0.5 or np.abs(np.asarray(new._q) - qn).max() > 1e-8:
            i = int(np.argmax(np.maximum(dq, np.abs(np.asarray(new._q) - qn))))
            fails.append((f"DIC.iadd|stored-dihedral-discontinuous:{cls_key(spec)}",
                          f"{label}: stored {pic[i]!r} went from {q_prev[i]:.4f} to {new._q[i]:.4f} (continuous value {qn[i]:.4f})", R))
            return fails
        cur = new
    return fails


PENTATETRAENE_C = [(-0.3167, 1.5996, 0.4004), (-0.8779, 2.7339, 0.6902), (-1.3968, 3.7829, 0.9582), (-1.9158, 4.8319, 1.2262),
                   (-2.4770, 5.9661, 1.5160)]
PENTATETRAENE_H = [(0.1364, 1.4405, -0.5711), (-0.2928, 0.7947, 1.1256), (-2.1197, 6.8879, 1.0720), (-3.3113, 6.0085, 2.2063)]


def cumulene_spec(n_c, labels):
    """H2C=(C=)nCH2 with the k-th carbon ALONG the chain numbered labels[k]; hydrogens last"""
    if n_c == 5:
        cs, hs = PENTATETRAENE_C, PENTATETRAENE_H
    else:   # straight chain along a generic direction, terminal CH2 groups in perpendicular planes (even number of C=C)
        d = np.array([0.36, -0.48, 0.8]); a = np.cross(d, [0, 0, 1.0]); a /= np.linalg.norm(a); b = np.cross(d, a)
        z = np.concatenate([[0.0], np.cumsum([1.31] + [1.27] * (n_c - 3) + [1.31])])
        cs = [tuple(zi * d) for zi in z]
        e2 = a if (n_c % 2 == 0) else b
        hs = [tuple(cs[0] - 0.55 * d + 0.93 * a), tuple(cs[0] - 0.55 * d - 0.93 * a),
              tuple(np.array(cs[-1]) + 0.55 * d + 0.93 * e2), tuple(np.array(cs[-1]) + 0.55 * d - 0.93 * e2)]
    coords = [None] * (n_c + 4)
    for k, lab in enumerate(labels):
        coords[lab] = list(map(float, cs[k]))
    for k, h in enumerate(hs):
        coords[n_c + k] = list(map(float, h))
    return {"name": f"C{n_c}H4-cumulene{tuple(labels)}", "cls": "long-cumulene", "symbols": ["C"] * n_c + ["H"] * 4,
            "coords": coords, "charge": 0, "bonds": None, "constraints": []}


def internal_rank(spec):
    m, pic, x, q, B = build(spec)
    xyz = np.array(spec["coords"])
    dof = 3 * len(xyz) - (5 if collinear(xyz) else 6)
    T = rigid_basis(xyz)
    sv = np.linalg.svd(B - (B @ T) @ T.T, compute_uv=False)
    return int((sv > 1e-8 * sv[0]).sum()), dof, len(pic)


_RANK_REF = {}


def oracle_numbering(n_c, labels):
    """completeness of the primitives must not depend on how the atoms are numbered"""
    fails = []
    if n_c not in _RANK_REF:
        _RANK_REF[n_c] = internal_rank(cumulene_spec(n_c, list(range(n_c))))
    ref_rank, dof, _ = _RANK_REF[n_c]
    spec = cumulene_spec(n_c, list(labels))
    R = {"kind": "numbering", "n_c": n_c, "labels": list(labels)}
    try:
        rank, dof, nprim = internal_rank(spec)
    except Exception as e:  # noqa
        fails.append((f"AnyPIC|{type(e).__name__}:long-cumulene", f"{spec['name']}: building the primitives raised {type(e).__name__}", R))
        return fails
    if rank < dof:
        key = ("AnyPIC.from_species|rank-deficient:numbering-dependent" if ref_rank >= dof else "AnyPIC.from_species|rank-deficient:long-cumulene")
        fails.append((key, f"{spec['name']}: chain carbons numbered {tuple(labels)} along the chain: the {nprim} primitives span {rank} of the "
                           f"{dof} internal degrees of freedom, with the chain numbered 0..{n_c - 1} they span {ref_rank}", R))
    return fails


def oracle_stale_fallback(kind, size, inplace):
    """tensors are discarded on a coordinate change also when the back-transformation does not converge and the
    allowed first-order estimate is used (large steps): everything reachable from the new coordinates is None"""
    from autode.opt.coordinates import CartesianCoordinates, DIC, DICWithConstraints
    from autode.opt.coordinates.internals import AnyPIC
    from autode.exceptions import CoordinateTransformFailed
    fails = []
    spec = {"name": "water", "cls": "w", "symbols": ["O", "H", "H"], "charge": 0, "bonds": None,
            "coords": [[-0.0011, 0.3631, 0.0], [-0.825, -0.1819, 0.0], [0.8261, -0.1812, 0.0]],
            "constraints": [(0, 1, 1.1)] if kind == "constrained" else []}
    m = mol_of(spec)
    x = CartesianCoordinates(m.coordinates)
    rng = np.random.RandomState(7)
    h = rng.normal(size=(9, 9))
    x.e = -76.1234
    x.update_g_from_cart_g(rng.normal(size=9))
    x.update_h_from_cart_h(h + h.T)
    if kind == "inverse-distances":
        dic = DIC.from_cartesian(x)
    elif kind == "primitives":
        dic = DIC.from_cartesian(x, AnyPIC.from_species(m))
    else:
        dic = DICWithConstraints.from_cartesian(x, AnyPIC.from_species(m))
    _ = dic.h_inv if kind != "constrained" else None
    n = len(dic) + dic.n_constraints
    step = size * np.ones(n)
    if dic.n_constraints:
        step[-dic.n_constraints:] = 0.0
    probe = dic.copy(); probe.allow_unconverged_back_transform = False
    try:
        _ = probe + step
        conv = True
    except CoordinateTransformFailed:
        conv = False
    except Exception:  # noqa
        return fails, None
    x_old = np.array(x, copy=True)
    if inplace:
        dic.iadd(step); new = dic
    else:
        new = dic + step
    cart = new.to("cart")
    stale = []
    if np.allclose(np.asarray(cart), x_old):
        stale.append("(Cartesian coordinates did not move)")
    for label, c in (("internal", new), ("cartesian", cart)):
        for nm, v in (("energy", c.e), ("gradient", c.g), ("Hessian", c.h), ("inverse Hessian", c._h_inv)):
            if v is not None:
                stale.append(f"{label} {nm}")
    if new.cart_proj_g is not None:
        stale.append("cart_proj_g")
    if stale:
        fails.append((f"DIC.iadd|stale-tensor-after-{'converged' if conv else 'unconverged-fallback'}-step",
                      f"{kind} DIC of water, step {size} in every coordinate via {'iadd' if inplace else '__add__'} (back-transformation "
                      f"{'converged' if conv else 'did not converge, first-order estimate used'}): kept {', '.join(stale)}",
                      {"kind": "stale-fallback", "coords": kind, "size": size, "inplace": inplace}))
    return fails, conv


def _tensored(kind):
    """coordinates with e, g, h (and h_inv) set"""
    from autode.opt.coordinates import CartesianCoordinates, DIC
    xyz = np.array([0.0, 0.0, 0.0, 0.96, 0.0, 0.0, -0.24, 0.93, 0.0])
    if kind == "cart":
        c = CartesianCoordinates(xyz)
    else:
        spec = {"name": "w", "cls": "w", "symbols": ["O", "H", "H"], "coords": xyz.reshape(3, 3).tolist(), "charge": 0, "bonds": None}
        m, pic, x, q, B = build(spec)
        x.e = -1.0; x.update_g_from_cart_g(np.ones(9)); x.update_h_from_cart_h(np.eye(9))
        c = DIC.from_cartesian(x, pic)
    n = len(c)
    c.e = -1.0
    c.g = np.ones(n)
    c.h = 2.0 * np.eye(n)
    _ = c.h_inv
    return c


NUMPY_OPS = {
    # family -> list of (name, function producing the coordinates that differ from c)
    "ufunc-result": [("d+c", lambda c: 0.1 + c), ("2*c", lambda c: 2.0 * c), ("c*2", lambda c: c * 2.0), ("-c", lambda c: -c),
                     ("np.add(c,.1)", lambda c: np.add(c, 0.1)), ("c/2", lambda c: c / 2.0)],
    "inplace-numpy-write": [("c*=2", lambda c: c.__imul__(2.0)), ("c.fill(1)", lambda c: (c.fill(1.0), c)[1]),
                            ("c.flat[0]=5", lambda c: (c.flat.__setitem__(0, 5.0), c)[1]),
                            ("np.add(c,.1,out=c)", lambda c: np.add(c, 0.1, out=c)),
                            ("view-write", lambda c: (c.reshape(-1, 1).__setitem__((0, 0), 7.0), c)[1])],
}


def oracle_stale_numpy(kind, family):
    """coordinate changes made through numpy instead of the OptCoordinates operators: the resulting (or modified)
    coordinates differ from the ones the tensors were computed for, so e, g, h must not be carried"""
    from autode.opt.coordinates.base import OptCoordinates
    fails, bad = [], []
    for name, f in NUMPY_OPS[family]:
        c = _tensored(kind)
        before = np.array(c, copy=True)
        try:
            r = f(c)
        except Exception:  # noqa   (an operation that is rejected cannot leave stale tensors)
            continue
        if not isinstance(r, OptCoordinates) or np.allclose(np.asarray(r), before):
            continue
        kept = [nm for nm, v in (("e", r._e), ("g", r._g), ("h", r._h), ("h_inv", r._h_inv)) if v is not None]
        if kept:
            bad.append((name, kept))
    if bad:
        fails.append((f"OptCoordinates|stale-tensors:{family}:{kind}[{','.join(b[0] for b in bad)}]",
                      f"{kind}: coordinates with e, g, h set; after " + "; ".join(f"`{nm}` the changed coordinates still carry {'/'.join(k)}" for nm, k in bad)
                      + " (OptCoordinates.__array_finalize__ copies _e/_g/_h/_h_inv, base.py:44-56; numpy writes bypass __setitem__)",
                      {"kind": "stale-numpy", "coords": kind, "family": family}))
    return fails


def oracle_dic_setitem_cart():
    """d[k] = v on a DIC clears d's tensors but the Cartesian coordinates it carries (and cart_proj_g) keep theirs"""
    fails = []
    d = _tensored("dic")
    d[0] = float(d[0]) + 0.1
    cart = d.to("cart")
    kept = [nm for nm, v in (("e", cart.e), ("g", cart.g), ("h", cart._h)) if v is not None]
    if d.cart_proj_g is not None:
        kept.append("cart_proj_g")
    if d._e is not None or d._g is not None or d._h is not None:
        kept.append("internal tensors")
    if kept:
        fails.append(("DIC.__setitem__|cartesian-tensors-kept",
                      f"DIC of water with e, g, h set: after d[0] = d[0] + 0.1 the internal values changed but d.to('cart') keeps {', '.join(kept)} "
                      f"(and the Cartesian coordinates are not updated)", {"kind": "stale-dic-setitem"}))
    return fails


def oracle_lambda_alias(step_lambda):
    """taking a step FROM constrained coordinates must not change them: copy() shares _lambda by reference
    (__array_finalize__) and DICWithConstraints.iadd updates it in place (dic.py:422)"""
    from autode.opt.coordinates import DICWithConstraints
    fails = []
    spec = {"name": "water", "cls": "w", "symbols": ["O", "H", "H"], "charge": 0, "bonds": None,
            "coords": [[-0.0011, 0.3631, 0.0], [-0.825, -0.1819, 0.0], [0.8261, -0.1812, 0.0]], "constraints": [(0, 1, 1.1)]}
    m, pic, x, q, B = build(spec)
    x.update_g_from_cart_g(np.linspace(-0.1, 0.1, 9))
    d = DICWithConstraints.from_cartesian(x, pic)
    lam0, g0, raw0 = np.array(d._lambda, copy=True), np.array(d.g, copy=True), np.array(d.raw, copy=True)
    n = len(d)
    new = d + np.concatenate([np.full(n, 0.01), [step_lambda]])
    R = {"kind": "lambda-alias", "step_lambda": step_lambda}
    if not np.allclose(new._lambda, lam0 + step_lambda):
        fails.append(("DICWithConstraints.iadd|multiplier-not-updated", f"new multipliers {new._lambda} != {lam0} + {step_lambda}", R))
    if not np.allclose(d._lambda, lam0) or not np.allclose(d.raw, raw0) or not np.allclose(d.g, g0):
        fails.append(("DICWithConstraints.iadd|step-mutates-old-lambda",
                      f"water with constraint (0,1)=1.1: new = d + step with a multiplier part {step_lambda} changed the OLD coordinates: "
                      f"d._lambda {lam0.tolist()} -> {np.asarray(d._lambda).tolist()}, d.g[{n - 1}] {g0[n - 1]:.4f} -> {d.g[n - 1]:.4f} "
                      f"(copy() shares _lambda by reference, dic.py:422 adds in place)", R))
    return fails


def oracle_constrained_gh(spec, seed):
    """gradient and Hessian of DICWithConstraints for a pair potential and random multipliers, against the
    definitions written out with numpy: g = (A^T g_x with -lambda_i on the constrained coordinates, -C_i(x)),
    h = [[A^T H_x A, -E], [-E^T, 0]] (E couples multiplier i with coordinate n-m+i), h symmetric"""
    from autode.opt.coordinates import CartesianCoordinates, DICWithConstraints
    from autode.opt.coordinates.internals import AnyPIC
    fails = []
    if degenerate_angle_cause(spec) is not None:
        return fails

    if not spec.get("constraints"):
        return fails
    rs = np.random.RandomState(seed)
    xyz = np.array(spec["coords"]); n_at = len(xyz)
    r = np.linalg.norm(xyz[:, None, :] - xyz[None, :, :], axis=2)
    kf = rs.uniform(0.5, 1.5, size=(n_at, n_at)); kf = (kf + kf.T) / 2
    eps = rs.uniform(-0.05, 0.05, size=(n_at, n_at)); eps = (eps + eps.T) / 2
    try:
        m, pic, x, _q, _B = build(spec)
        e0, gx, hx = pair_potential(xyz, r * (1 + eps), kf)
        x.e = e0; x.update_g_from_cart_g(gx); x.update_h_from_cart_h(hx)
        dic = DICWithConstraints.from_cartesian(x, pic)
    except Exception:  # noqa
        return fails
    n, mc = len(dic), dic.n_constraints
    if mc == 0 or mc > n or not np.all(np.isfinite(np.asarray(dic.U))):
        return fails
    lam = rs.uniform(-1, 1, size=mc)
    dic._lambda = lam.copy()
    A = np.linalg.pinv(np.asarray(dic.B))
    cp = [p for p in pic if p.is_constrained]
    g_want = np.concatenate([A.T @ gx, [-(p(x) - p._value) for p in cp]])
    g_want[n - mc:n] -= lam
    h_want = np.zeros((n + mc, n + mc)); h_want[:n, :n] = A.T @ hx @ A
    for i in range(mc):
        h_want[n - mc + i, n + i] = h_want[n + i, n - mc + i] = -1.0
    g, h = np.asarray(dic.g), np.asarray(dic.h)
    R = rep(spec, kind="constrained-gh", seed=seed)
    sc = max(1.0, np.abs(g_want).max())
    if g.shape != g_want.shape or np.abs(g - g_want).max() > 1e-8 * sc:
        i = int(np.argmax(np.abs(g - g_want))) if g.shape == g_want.shape else -1
        fails.append((f"DICWithConstraints.g|not-lagrangian-gradient:{cls_key(spec)}",
                      f"{spec['name']} with constraints {spec['constraints']}: g[{i}] = {g[i] if i >= 0 else g.shape} but the Lagrangian gradient is {g_want[i] if i >= 0 else g_want.shape}", R))
    sh = max(1.0, np.abs(h_want).max())
    if h.shape != h_want.shape or np.abs(h - h_want).max() > 1e-7 * sh or np.abs(h - h.T).max() > 1e-9 * sh:
        fails.append((f"DICWithConstraints.h|not-lagrangian-hessian:{cls_key(spec)}",
                      f"{spec['name']} with constraints {spec['constraints']}: assembled Hessian differs from [[A^T H A, -E], [-E^T, 0]] by "
                      f"{np.abs(h - h_want).max() if h.shape == h_want.shape else h.shape}", R))
    return fails


def oracle_default_generator(spec, which, direction, norm):
    """the default primitive generators (all pairwise inverse distances: DIC.from_cartesian(x) / x.to('dic'); all distances)
    on non-planar, non-linear molecules: complete (rank 3N-6), orthonormal, invariant, and a step transforms back"""
    from autode.opt.coordinates import CartesianCoordinates, DIC
    from autode.opt.coordinates.internals import PrimitiveDistances, PrimitiveInverseDistances
    from autode.exceptions import CoordinateTransformFailed
    fails = []
    xyz = np.array(spec["coords"])
    n_at = len(xyz)
    dof = 3 * n_at - 6
    x = CartesianCoordinates(xyz)
    R = rep(spec, kind="default-generator", which=which, direction=[float(v) for v in direction], norm=norm)
    key = lambda w: f"DIC.from_cartesian({which})|{w}:{cls_key(spec)}"  # noqa
    try:
        if which == "inverse-distances":
            dic = x.to("dic")
        else:
            dic = DIC.from_cartesian(x, PrimitiveDistances.from_cartesian(x))
    except Exception as e:  # noqa
        fails.append((key(type(e).__name__), f"{spec['name']}: {which} DIC raised {type(e).__name__}: {str(e)[:90]}", R))
        return fails
    pic = dic.primitives
    n = len(dic)
    if len(pic) != n_at * (n_at - 1) // 2:
        fails.append((key("primitive-count"), f"{spec['name']}: {len(pic)} primitives for {n_at} atoms", R))
    rank = int(np.linalg.matrix_rank(np.asarray(dic.B), tol=1e-8)) if n else 0
    if n != dof or rank != dof:
        cause = dic_incomplete_cause(DIC, pic, x, n, dof) if n < dof else "rank"
        fails.append((f"{cause}|delocalised-set-incomplete:{which}:{spec['cls']}",
                      f"{spec['name']}: {which} DIC has {n} delocalised coordinates of rank {rank} for 3N-6 = {dof} (dropped by {cause})", R))
    if n and np.abs(np.asarray(dic.U).T @ np.asarray(dic.U) - np.eye(n)).max() > 1e-8:
        fails.append((key("not-orthonormal"), f"{spec['name']}: U^T U != I", R))
    if fails or n == 0:
        return fails
    d = np.array(direction[:n], dtype=float); d = d / np.linalg.norm(d) * norm
    c = dic.copy(); c.allow_unconverged_back_transform = False
    try:
        new = c + d
    except CoordinateTransformFailed:
        return fails
    sn = np.asarray(dic.U).T @ pic(new._x)
    if np.abs(sn - (np.asarray(dic) + d)).max() > 1e-8:
        fails.append((key("success-but-wrong-internals"), f"{spec['name']}: step of norm {norm}: max |s(x_new)-s_target| = {np.abs(sn - (np.asarray(dic) + d)).max():.2e}", R))
    return fails


# ---------------------------------------------------------------------------------------------
# clear_tensors machine on the implementation
# ---------------------------------------------------------------------------------------------
OPS = ["OSetItem", "OAdd", "OSub", "OAddDiscard", "OIAdd", "OISub", "OIaddCall", "OSetItemTiny", "OAddTiny", "OClear", "OCopy", "OSetE true", "OSetE false",
       "OSetG true", "OSetG false", "OSetH true", "OSetH false", "OSetHinv true", "OSetHinv false", "OGetH", "OGetHinv"]


def run_machine(kind, ops):
    """run an op list on a CartesianCoordinates ('cart') or DIC ('dic') variable; tensors carry the coordinate
    version at which they were stored (tag k+1: e = k+1, g = (k+1) * ones, h = (k+1) * I, h_inv = I / (k+1)).
    -> (versions, e, g, h, hinv, observed h) as tags (None or int)"""
    from autode.opt.coordinates import CartesianCoordinates, DIC
    if kind == "cart":
        c = CartesianCoordinates(np.array([0.0, 0.0, 0.0, 0.96, 0.0, 0.0, -0.24, 0.93, 0.0]))
    else:
        spec = {"name": "w", "cls": "w", "symbols": ["O", "H", "H"], "coords": [[0, 0, 0], [0.96, 0, 0], [-0.24, 0.93, 0]],
                "charge": 0, "bonds": None}
        m, pic, x, q, B = build(spec)
        c = DIC.from_cartesian(x, pic)
    n = len(c)
    ver = 0
    d = np.full(n, 1e-3)
    for op in ops:
        t = float(ver + 1)
        if op == "OSetItem":
            c[0] = float(c[0]) + 1e-3; ver += 1
        elif op == "OAdd":
            c = c + d; ver += 1
        elif op == "OIaddCall":     # the primitive in-place step, called directly
            c.iadd(d); ver += 1
        elif op == "OSetItemTiny":  # a change far below numpy.allclose's default tolerances is still a change
            c[n - 1] = float(c[n - 1]) * (1.0 + 1e-9) + 1e-12; ver += 1
        elif op == "OAddTiny":
            c = c + np.full(n, 1e-10); ver += 1
        elif op == "OAddBig":       # dic only: back-transformation does not converge, first-order fallback (allowed)
            c = c + np.full(n, 3.0); ver += 1
        elif op == "OIAddBig":
            c += np.full(n, 3.0); ver += 1
        elif op == "OSub":
            c = c - d; ver += 1
        elif op == "OAddDiscard":
            _ = c + d
        elif op == "OIAdd":
            c += d; ver += 1
        elif op == "OISub":
            c -= d; ver += 1
        elif op == "OClear":
            c.clear_tensors()
        elif op == "OCopy":
            c = c.copy()
        elif op == "OSetE true":
            c.e = t
        elif op == "OSetE false":
            c.e = None
        elif op == "OSetG true":
            c.g = np.full(n, t)
        elif op == "OSetG false":
            c.g = None
        elif op == "OSetH true":
            c.h = t * np.eye(n)
        elif op == "OSetH false":
            c.h = None
        elif op == "OSetHinv true":
            c.h_inv = np.eye(n) / t
        elif op == "OSetHinv false":
            c.h_inv = None
        elif op == "OGetH":
            _ = c.h
        elif op == "OGetHinv":
            _ = c.h_inv
    tg = lambda v: None if v is None else int(round(float(v))) - 1  # noqa
    e = tg(c._e)
    g = None if c._g is None else tg(np.asarray(c._g)[0])
    h = None if c._h is None else tg(np.asarray(c._h)[0, 0])
    hi = None if c._h_inv is None else tg(1.0 / np.asarray(c._h_inv)[0, 0])
    oh = c.h
    oh = None if oh is None else tg(np.asarray(oh)[0, 0])
    return ver, e, g, h, hi, oh


def oracle_stale(kind, ops):
    """after an op list ending in a coordinate change the public e, g, h must be None"""
    fails = []
    ver, e, g, h, hi, oh = run_machine(kind, ops)
    if (e is not None or g is not None or h is not None or oh is not None) and kind == "cart" and ops[-1] == "OIaddCall":
        # repaired by /repo 2c6603e (Props.direct_iadd_clears_tensors); a reproduction is a violation again
        fails.append(("CartesianCoordinates.iadd|keeps-tensors",
                      f"cart: after {ops} (x.iadd(d) called directly, cartesian.py:79-80 = ndarray.__iadd__) the coordinates moved "
                      f"(version {ver}) but _e/_g/_h still hold the tensors of version {e}/{g}/{h}",
                      {"kind": "stale", "coords": kind, "ops": ops}))
    elif e is not None or g is not None or h is not None:
        fails.append((f"OptCoordinates.clear_tensors|stale-field:{kind}",
                      f"{kind}: after {ops} the fields _e/_g/_h are {e}/{g}/{h} (coordinate version {ver})",
                      {"kind": "stale", "coords": kind, "ops": ops}))
    elif oh is not None:
        fails.append(("OptCoordinates.h|stale-h_inv-after-coordinate-change",
                      f"{kind}: after {ops} (coordinate version {ver}) the getter .h returns the Hessian stored at version {oh}: "
                      f"clear_tensors leaves _h_inv and .h rebuilds the Hessian from it",
                      {"kind": "stale", "coords": kind, "ops": ops}))
    return fails


# =============================================================================================
# model vs implementation (Coq terms)
# =============================================================================================
def q_lit(x):
    f = frac(x)
    return f"(({f.numerator})%Z # {f.denominator}%positive)"


def q_list(xs):
    return "[" + "; ".join(q_lit(v) for v in xs) + "]"


def edge_list(es):
    return "[" + "; ".join(f"({int(i)}, {int(j)})" for i, j in es) + "]"


def bool_list(bs):
    return coq_list([coq_bool(b) for b in bs])


def nat_list(xs):
    return "[" + "; ".join(str(int(v)) for v in xs) + "]"


def opt_nat(v):
    return "None" if v is None else f"(Some {int(v)})"


def corr_connect(ctx, n_cases, add):
    """random labelled point sets + random bond lists + random constraints through _connect_graph_for_species"""
    from autode.opt.coordinates.internals import _connect_graph_for_species
    labels = ["C", "H", "H", "O", "N", "Cl", "F", "Na", "H", "S"]
    done = tries = 0
    while done < n_cases and tries < 20 * n_cases:
        tries += 1
        n = ctx.rng.randint(1, 7)
        pts = []
        while len(pts) < n:
            p = [ctx.rng.randint(0, 200) / 64.0 for _ in range(3)]
            if all(math.dist(p, q) >= 0.7 for q in pts):
                pts.append(p)
        sym = [ctx.rng.choice(labels) for _ in range(n)]
        allp = [(i, j) for i in range(n) for j in range(i + 1, n)]
        nb = ctx.rng.randint(0, min(len(allp), n)) if allp else 0
        bonds = sorted(ctx.rng.sample(allp, nb)) if nb else []
        cons = [(i, j, 1.5) for i, j in (ctx.rng.sample(allp, ctx.rng.randint(0, min(2, len(allp)))) if allp and ctx.rng.random() < 0.5 else [])]
        spec = {"name": "g", "cls": "graph", "symbols": sym, "coords": pts, "charge": 0, "bonds": bonds, "constraints": cons}
        try:
            m = mol_of(spec)
        except Exception:  # noqa
            continue
        dist = [[float(m.distance(i, j)) for j in range(n)] for i in range(n)]
        vdw = [float(a.vdw_radius) for a in m.atoms]
        # decision margins: H-bond threshold and exact ties between pair distances
        flat = sorted(dist[i][j] for i, j in allp)
        tie = any(abs(a - b) < 1e-9 for a, b in zip(flat, flat[1:]))
        near = any(abs(dist[i][j] - 0.9 * (vdw[i] + vdw[j])) < 1e-9 for i, j in allp)
        if tie or near:
            ctx.hist("model-connect-graph", "margin-skipped")
            continue
        init_edges = sorted((min(i, j), max(i, j)) for i, j in m.graph.edges)
        mc = m.copy()
        try:
            _connect_graph_for_species(mc)
            got = sorted((min(int(i), int(j)), max(int(i), int(j))) for i, j in mc.graph.edges)
            exp = f"(Some {edge_list(got)})"
            ncomp_after = 1
        except Exception:  # noqa
            got, exp = None, "None"
        ncomp = len(list(m.graph.connected_components()))
        term = (f"check_connect {qc(0.9)} {bool_list([s in H_BOND_X for s in sym])} {bool_list([s == 'H' for s in sym])} "
                f"{qc_list(vdw)} {qc_mat(dist)} {n} {edge_list([(c[0], c[1]) for c in cons])} {edge_list(init_edges)} {exp}")
        ctx.hist("model-connect-graph", f"components={ncomp}")
        add("model-connect-graph", term, {"kind": "connect", "spec": spec, "edges_after": got},
            (tuple(sym), tuple(map(tuple, pts)), tuple(bonds), tuple(cons)), nontrivial=(ncomp > 1 or len(got or []) > len(init_edges)))
        done += 1


def corr_close_to(ctx, n_cases, add):
    from autode.opt.coordinates import CartesianCoordinates
    from autode.opt.coordinates.primitives import PrimitiveDihedralAngle
    s, p, b = rdkit_geom("OO")
    base = {"name": "OO", "cls": "chain", "symbols": s, "coords": p, "charge": 0, "bonds": b, "constraints": []}
    m, pic, x, q, B = build(base)
    ds = [isinstance(pr, PrimitiveDihedralAngle) for pr in pic]
    for k in range(n_cases):
        xyz = np.array(p) + np.array([[ctx.rng.gauss(0, 0.15) for _ in range(3)] for _ in range(len(p))])
        xc = CartesianCoordinates(xyz)
        qs = pic(xc)
        scale = ctx.rng.choice([0.5, 1.0, 2.0, 4.0])
        other = np.array([v + ctx.rng.uniform(-scale * math.pi, scale * math.pi) for v in qs])
        if any(abs(abs(a - o) - math.pi) < 1e-9 for a, o in zip(qs, other)):
            ctx.hist("model-close_to", "margin-skipped")
            continue
        got = pic.close_to(xc, other.copy())
        far = any(d and abs(a - o) > 3 * math.pi for d, a, o in zip(ds, qs, other))
        ctx.hist("model-close_to", "beyond-3pi" if far else "within-3pi")
        term = f"check_close_to {q_lit(math.pi)} {bool_list(ds)} {q_list(qs)} {q_list(other)} {q_list(got)}"
        add("model-close_to", term, {"kind": "close_to", "coords": xyz.tolist(), "other": other.tolist()}, ("ct", k, ctx.seed), True)


def corr_layout(ctx, specs, add):
    """index layout and g / h assembly of real DICWithConstraints objects"""
    from autode.opt.coordinates import DICWithConstraints
    for spec in specs:
        try:
            m, pic, x, q, B = build(spec)
            n3 = len(x)
            gx = np.array([ctx.rng.randint(-16, 16) / 8.0 for _ in range(n3)])
            hx = np.array([[ctx.rng.randint(-8, 8) / 8.0 for _ in range(n3)] for _ in range(n3)]); hx = (hx + hx.T) / 2
            x.update_g_from_cart_g(gx); x.update_h_from_cart_h(hx)
            dic = DICWithConstraints.from_cartesian(x, pic)
        except Exception:  # noqa
            continue
        n, mc = len(dic), dic.n_constraints
        if mc == 0 or mc > n:
            continue
        dic._lambda = np.array([ctx.rng.randint(-8, 8) / 4.0 for _ in range(mc)])
        flags = [bool(c.is_satisfied(dic._x)) for c in dic.constrained_primitives]
        delta = [float(c.delta(dic._x)) for c in dic.constrained_primitives]
        key = (spec["name"], tuple(map(tuple, spec["constraints"])))
        add("model-layout", f"check_layout {n} {bool_list(flags)} {nat_list(dic.inactive_indexes)} {nat_list(dic.active_indexes)}",
            {"kind": "layout", "spec": spec, "flags": flags}, key + ("idx",), True)
        ctx.hist("model-layout", f"m={mc} satisfied={sum(flags)}")
        if n + mc <= 14:
            add("model-layout", f"check_g {n} {mc} {qc_list(np.asarray(dic._g))} {qc_list(dic._lambda)} {qc_list(delta)} {qc_list(np.asarray(dic.g))}",
                {"kind": "layout-g", "spec": spec}, key + ("g",), True)
            add("model-layout", f"check_h {n} {mc} {qc_mat(np.asarray(dic._h))} {qc_mat(np.asarray(dic.h))}",
                {"kind": "layout-h", "spec": spec}, key + ("h",), True)


def corr_machine(ctx, n_cart, n_dic, add):
    for kind, cnt in (("cart", n_cart), ("dic", n_dic)):
        for k in range(cnt):
            ln = ctx.rng.randint(1, 9 if kind == "cart" else 5)
            ops = [ctx.rng.choice(OPS) for _ in range(ln)]
            if ctx.rng.random() < 0.5:
                ops.append(ctx.rng.choice(["OSetItem", "OAdd", "OSub", "OIAdd", "OISub"]))
            if kind == "dic" and ctx.rng.random() < 0.6:
                ops.insert(ctx.rng.randint(0, len(ops)), ctx.rng.choice(["OAddBig", "OIAddBig"]))
            ver, e, g, h, hi, oh = run_machine(kind, ops)
            cops = [{"OAddBig": "OAdd", "OIAddBig": "OIAdd", "OSetItemTiny": "OSetItem", "OAddTiny": "OAdd"}.get(o, o) for o in ops]
            term = (f"check_machine {'KCart' if kind == 'cart' else 'KDic'} {coq_list(['(' + o + ')' if ' ' in o else o for o in cops])} {ver} {opt_nat(e)} {opt_nat(g)} "
                    f"{opt_nat(h)} {opt_nat(hi)} {opt_nat(oh)}")
            ctx.hist("model-clear_tensors", kind)
            add("model-clear_tensors", term, {"kind": "machine", "coords": kind, "ops": ops}, (kind, tuple(ops)), len(ops) > 1)


def corr_schmidt(ctx, n_cases, add):
    from autode.opt.coordinates.dic import _schmidt_orthogonalise
    done = tries = 0
    while done < n_cases and tries < 10 * n_cases:
        tries += 1
        npr = ctx.rng.randint(2, 5)
        n = ctx.rng.randint(min(2, npr), min(npr, 4))
        mm = ctx.rng.randint(0, min(n - 1, 2)) if ctx.rng.random() < 0.9 else ctx.rng.choice([n, n + 1])
        if mm > npr:
            continue
        arr = np.array([[ctx.rng.randint(-8, 8) / 8.0 for _ in range(n)] for _ in range(npr)])
        idxs = sorted(ctx.rng.sample(range(npr), mm))
        try:
            with np.errstate(all="ignore"):
                u = _schmidt_orthogonalise(arr.copy(), *idxs)
            if not np.all(np.isfinite(u)):
                ctx.hist("model-schmidt", "zero-vector-skipped"); continue
            # premise of the theorem: no (near) zero vector; near-dependent inputs amplify rounding
            if np.abs(u.T @ u - np.eye(n)).max() > 1e-9:
                ctx.hist("model-schmidt", "ill-conditioned-skipped"); continue
            exp = "(Some " + qc_mat(u.T.tolist()) + ")"
        except IndexError:
            exp = "None"
        ctx.hist("model-schmidt", f"np={npr} n={n} m={mm}")
        add("model-schmidt", f"check_schmidt {npr} {qc_mat(arr.T.tolist())} {nat_list(idxs)} {exp}",
            {"kind": "schmidt", "arr": arr.tolist(), "idxs": idxs}, (arr.tobytes(), tuple(idxs)), n > mm)
        done += 1


def corr_pullback(ctx, n_cases, add):
    from autode.opt.coordinates import DIC
    spec = {"name": "water", "cls": "w", "symbols": ["O", "H", "H"], "coords": [[0, 0, 0], [0.96, 0, 0], [-0.24, 0.93, 0]],
            "charge": 0, "bonds": None, "constraints": []}
    for k in range(n_cases):
        s = perturbed(spec, np.random.RandomState(ctx.rng.randint(0, 10 ** 6)), 0.05)
        m, pic, x, q, B = build(s)
        dic = DIC.from_cartesian(x, pic)
        gx = np.array([ctx.rng.randint(-16, 16) / 8.0 for _ in range(9)])
        hx = np.array([[ctx.rng.randint(-8, 8) / 8.0 for _ in range(9)] for _ in range(9)]); hx = (hx + hx.T) / 2
        A = np.asarray(dic.B_T_inv)
        dic.update_g_from_cart_g(gx)
        dic.update_h_from_cart_h(hx)
        add("model-pullback", f"check_pull_g 9 {len(dic)} {qc_mat(A.tolist())} {qc_list(gx)} {qc_list(np.asarray(dic._g))}",
            {"kind": "pull-g", "coords": s["coords"], "gx": gx.tolist()}, ("pg", k, ctx.seed), True)
        if k == 0:
            add("model-pullback", f"check_pull_h 9 {len(dic)} {qc_mat(A.tolist())} {qc_mat(hx.tolist())} {qc_mat(np.asarray(dic._h).tolist())}",
                {"kind": "pull-h", "coords": s["coords"]}, ("ph", k, ctx.seed), True)


# =============================================================================================
# the check
# =============================================================================================
QUICK_NAMES = ["CO2", "HCN", "HCCH", "CS2", "diyne-distorted", "CO2-bent175", "allene", "ketene", "BF3", "BF3-pyramidal",
               "C4-ring", "OO", "C=O", "CC#N", "water2", "water3", "HF2", "NaCl", "LiF-HF", "Na-water"]
DIHEDRAL_CASES = [("OO", (0, 1)), ("CC", (0, 1)), ("CCO", (0, 1))]


def impl_oracles(ctx, full):
    """-> dict key -> (what, replay) of the first failure per key"""
    found = {}

    def record(fs, stream, case_key):
        if callable(fs):
            # an implementation call escaping an oracle is a finding with the raising site, never a harness crash
            try:
                fs = fs()
            except Exception as e:  # noqa
                frames = [f for f in traceback.extract_tb(sys.exc_info()[2]) if "/autode/" in f.filename]
                site = f"{frames[-1].name}:{frames[-1].lineno}" if frames else "harness"
                cls = case_key[0] if case_key else "?"
                fs = [(f"{stream}|uncaught-{type(e).__name__}@{site}", f"{stream} {case_key}: {type(e).__name__}: {str(e)[:120]} at {site}",
                       {"kind": "uncaught", "stream": stream, "case": [str(c) for c in case_key], "traceback": traceback.format_exc()[-1500:]})]
        if isinstance(fs, tuple):
            fs = fs[0]
        for key, what, rp in fs:
            if key not in found:
                found[key] = (what, rp)
            ctx.hist(stream, "FAIL " + key)

    def guard(stream, case_key, fn, default):
        try:
            return fn()
        except Exception as e:  # noqa
            err = e
            def _raise():
                raise err
            record(_raise, stream, case_key)
            return default

    rs = np.random.RandomState(ctx.rng.randint(0, 2 ** 31 - 1))
    mols = base_molecules(full)
    if not full:
        mols = [m for m in mols if m["name"] in QUICK_NAMES]
    for base in mols:
        variants = [base, perturbed(base, rs, 0.03)]
        big = len(base["symbols"]) > 8          # cost of the autodiff primitives grows quickly: fewer combinations
        if full and not big:
            variants.append(perturbed(base, rs, 0.1))
        for vi, v in enumerate(variants):
            nat = len(v["symbols"])
            con_sets = [[]] + [random_constraints(v, rs, k) for k in ((1, 2) if (full and not big) else (1 + (vi % 2),))]
            if not full and vi == 1 and nat > 5:
                con_sets = [[]]          # quick: the perturbed variant of the larger molecules runs unconstrained only
            if vi == 0 and nat >= 3 and v["cls"] in ("linear", "planar-cumulene"):
                # directed: a constraint across a linear a-b-c arrangement
                con_sets.append([(0, 2, round(float(np.linalg.norm(np.array(v["coords"][0]) - np.array(v["coords"][2]))), 6))])
            if vi == 0 and v["name"] == "BF3-pyramidal":
                con_sets.append([(0, 1, 1.183642), (2, 3, 2.268987)])
            if vi == 0 and v["name"] == "CS2":
                con_sets.append([(0, 1, 1.65), (1, 2, 1.55)])
            for ci, cons in enumerate(con_sets):
                if ci and not cons:
                    continue
                s = dict(v); s["constraints"] = cons
                ck = (v["name"], vi, tuple(map(tuple, cons)))
                fs, info = guard("impl-primitives", (v["name"], vi), lambda: oracle_primitives(s), ([], {}))
                record(fs, "impl-primitives", ck)
                ctx.count("impl-primitives", ck, nontrivial=nat >= 3,
                          sample={"molecule": v["name"], "constraints": [list(c) for c in cons], "n_prim": info.get("n_prim"),
                                  "dof": info.get("dof"), "n_dic": info.get("n_dic")})
                ctx.hist("impl-primitives", f"class={v['cls']}")
                if info.get("rank_ambiguous"):
                    ctx.hist("impl-primitives", "rank-margin-ambiguous")
                if "n_dic" in info:
                    if info["n_dic"] < info["dof"]:
                        ctx.hist("impl-primitives", "dic-fewer-than-dof(symmetry-pruned)")
                    if info["dic_rank"] < info["n_dic"]:
                        ctx.hist("impl-primitives", "dic-B-rank-deficient")
                    if full and big:
                        norms = [(0.05,), (0.4,)][(vi + ci) % 2]
                    elif full:
                        norms = [(0.01, 0.15, 0.6), (0.05, 0.4), (0.02, 0.8)][(vi + ci) % 3]
                    else:
                        norms = [(0.02,), (0.3,)][(vi + ci) % 2]
                    for norm in norms:
                        direction = rs.normal(size=info["n_dic"]).round(4).tolist()
                        fs2, ok = guard("impl-step", (v["name"], vi, norm), lambda: oracle_step(s, direction, norm), ([], None))
                        record(fs2, "impl-step", ck)
                        ctx.count("impl-step", ck + (norm,), nontrivial=nat >= 3)
                        ctx.hist("impl-step", f"norm={norm} " + ("converged" if ok else "no-step" if ok is None else "not-converged"))
                if cons:
                    record(lambda: oracle_constrained_gh(s, int(rs.randint(0, 10 ** 6))), "impl-pullback", ck + ("lagrangian",))
                    ctx.count("impl-pullback", ck + ("lagrangian",), nontrivial=nat >= 3)
                if ci <= 1:
                    rot = rs.normal(size=3).round(3).tolist()
                    sh = rs.uniform(-2, 2, size=3).round(3).tolist()
                    record(lambda: oracle_rigid(s, rot, sh), "impl-rigid", ck)
                    ctx.count("impl-rigid", ck, nontrivial=nat >= 3)
                if ci == 0:
                    for stationary in ((False, True) if (full and not big) else ((vi == 0),)):
                        sd = int(rs.randint(0, 10 ** 6))
                        record(lambda: oracle_pullback(s, sd, stationary), "impl-pullback", ck)
                        ctx.count("impl-pullback", ck + (stationary,), nontrivial=nat >= 3)
    # exactly linear molecules in all axis-aligned (and generic) orientations x both atom orders
    systems = [("CO2(C,O,O)", ["C", "O", "O"], [0.0, 1.16, -1.16]), ("CO2(O,C,O)", ["O", "C", "O"], [-1.16, 0.0, 1.16]),
               ("OCS(O,C,S)", ["O", "C", "S"], [-1.16, 0.0, 1.56]), ("OCS(S,C,O)", ["S", "C", "O"], [-1.56, 0.0, 1.16]),
               ("N2O(N,N,O)", ["N", "N", "O"], [-1.13, 0.0, 1.19]), ("N2O(O,N,N)", ["O", "N", "N"], [-1.19, 0.0, 1.13]),
               ("HCN(H,C,N)", ["H", "C", "N"], [-1.064, 0.0, 1.156]), ("HCCH", ["H", "C", "C", "H"], [-1.66, -0.6, 0.6, 1.66])]
    if full:
        systems += [("CS2(C,S,S)", ["C", "S", "S"], [0.0, -1.55, 1.55]), ("NCCN", ["N", "C", "C", "N"], [-1.85, -0.69, 0.69, 1.85]),
                    ("HCN(N,C,H)", ["N", "C", "H"], [-1.156, 0.0, 1.064])]
    dirs = {"+x": (1, 0, 0), "-x": (-1, 0, 0), "+y": (0, 1, 0), "-y": (0, -1, 0), "+z": (0, 0, 1), "-z": (0, 0, -1),
            "gen1": (0.3, -0.5, 0.81), "gen2": (-0.62, 0.2, -0.4)}
    for sname, sym, pos in systems:
        for dname, dvec in dirs.items():
            dv = np.array(dvec, dtype=float); dv /= np.linalg.norm(dv)
            spec = {"name": f"{sname}@{dname}", "cls": "linear-HX" if "H" in sym and sym != ["H", "C", "C", "H"] else "linear",
                    "symbols": sym, "coords": [(p * dv).tolist() for p in pos], "charge": 0, "bonds": None, "constraints": []}
            fs, info = guard("impl-linear-orientation", (sname, dname), lambda: oracle_primitives(spec), ([], {}))
            record(fs, "impl-linear-orientation", (sname, dname))
            ctx.count("impl-linear-orientation", (sname, dname), sample={"molecule": spec["name"], "n_dic": info.get("n_dic")})
            ctx.hist("impl-linear-orientation", dname)
            if "n_dic" in info and (full or dname in ("-x", "+y", "gen1")):
                fs2, ok = guard("impl-linear-orientation", (sname, dname, "step"), lambda: oracle_step(spec, rs.normal(size=info["n_dic"]).round(4).tolist(), 0.05), ([], None))
                record(fs2, "impl-linear-orientation", (sname, dname, "step"))
                ctx.count("impl-linear-orientation", (sname, dname, "step"))
    # sequences of consecutive steps through +-180 degrees
    seqs = [(172.0, 186.0, 189.0, 187.0, 175.0), (-172.0, -186.0, -189.0, -187.0, -175.0)]
    if full:
        seqs += [(160.0, 200.0, 230.0, 200.0, 160.0), (175.0, 181.0, 179.0, 183.0, 178.0)]
    seq_specs = [({"name": "H2O2-model", "cls": "chain", "symbols": ["O", "O", "H", "H"], "coords": h2o2_geom(172.0).tolist(),
                   "charge": 0, "bonds": None, "constraints": []}, (0, 1))]
    for smi in (("OO", "CC") if not full else ("OO", "CC", "CCO", "CCCC")):
        s_, p_, b_ = rdkit_geom(smi)
        bond = (1, 2) if smi == "CCCC" else (0, 1)
        seq_specs.append(({"name": smi, "cls": "chain", "symbols": s_, "coords": p_, "charge": 0, "bonds": b_, "constraints": []}, bond))
    for spec, bond in seq_specs:
        for phis in (seqs if (full or spec["name"] != "CC") else seqs[:1]):
            record(lambda: oracle_step_sequence(spec, bond, phis), "impl-step-sequence", (spec["name"], phis))
            ctx.count("impl-step-sequence", (spec["name"], phis), sample={"molecule": spec["name"], "torsions_deg": list(phis)})
    # metal centres with improper (out-of-plane) dihedrals near 180 degrees: completeness, random steps and
    # sequences of small out-of-plane steps in both directions
    for spec in (PTCL4, PF5) + ((NICN4_CORE,) if full else ()):
        fs, info = guard("impl-improper", (spec["name"],), lambda: oracle_primitives(spec), ([], {}))
        record(fs, "impl-improper", (spec["name"], "prim"))
        ctx.count("impl-improper", (spec["name"], "prim"), sample={"molecule": spec["name"], "n_prim": info.get("n_prim"), "n_dic": info.get("n_dic")})
        if "n_dic" in info:
            fs2, ok = guard("impl-improper", (spec["name"], "step"), lambda: oracle_step(spec, rs.normal(size=info["n_dic"]).round(4).tolist(), 0.1), ([], None))
            record(fs2, "impl-improper", (spec["name"], "step"))
            ctx.count("impl-improper", (spec["name"], "step"))
        for at in (0, 1, 2):
            for seq in ((0.04, 0.04, -0.08, -0.04), (-0.04, -0.04, 0.08, 0.04)):
                record(lambda: oracle_oop_steps(spec, at, seq), "impl-improper", (spec["name"], at, seq))
                ctx.count("impl-improper", (spec["name"], at, seq))
    # long cumulene chains under every / random numberings of the chain atoms
    import itertools
    perms5 = list(itertools.permutations(range(5)))
    if not full:   # quick: every second numbering plus a fixed non-monotonic set
        perms5 = sorted(set(perms5[::2]) | {(0, 1, 2, 4, 3), (0, 1, 3, 2, 4), (1, 0, 2, 3, 4), (0, 2, 1, 3, 4), (4, 3, 2, 0, 1), (3, 4, 0, 1, 2)})
    for lab in perms5:
        record(lambda: oracle_numbering(5, lab), "impl-numbering", (5, lab))
        ctx.count("impl-numbering", (5, lab), nontrivial=True, sample={"chain_numbering": list(lab)})
    perms6 = list(itertools.permutations(range(6)))
    for idx in rs.choice(len(perms6), size=(120 if full else 12), replace=False):
        record(lambda: oracle_numbering(6, perms6[int(idx)]), "impl-numbering", (6, perms6[int(idx)]))
        ctx.count("impl-numbering", (6, perms6[int(idx)]))
    # tensors after large steps whose back-transformation falls back to the first-order estimate
    for kind in ("inverse-distances", "primitives", "constrained"):
        for size in (0.01, 1.0, 3.0):
            for inplace in (False, True):
                fs, conv = guard("impl-stale", (kind, size, inplace), lambda: oracle_stale_fallback(kind, size, inplace), ([], None))
                record(fs, "impl-stale", (kind, size, inplace))
                ctx.count("impl-stale", ("fallback", kind, size, inplace))
                ctx.hist("impl-stale", f"large-step {'converged' if conv else 'fallback' if conv is False else 'n/a'}")
    # constraints supplied through the extra-primitive route (CRFOptimiser(extra_prims=...), PIC.add): on an existing bond
    # and on a non-bonded pair, at the current value and displaced
    for base in [m for m in base_molecules(full) if m["name"] in (("OO", "water2", "BF3-pyramidal", "CC#N") if not full else
                                                                  ("OO", "water2", "BF3-pyramidal", "CC#N", "CCO", "allene", "C=O", "CH4-H2O"))]:
        try:
            gm = mol_of(base)
            bonded = sorted((min(int(i), int(j)), max(int(i), int(j))) for i, j in gm.graph.edges)
        except Exception:  # noqa
            continue
        xyz_b = np.array(base["coords"])
        nonb = [(i, j) for i in range(len(xyz_b)) for j in range(i + 1, len(xyz_b)) if (i, j) not in bonded
                and 1.5 < np.linalg.norm(xyz_b[i] - xyz_b[j]) < 4.0]
        sets = []
        if bonded:
            i, j = bonded[0]
            sets.append(("bond", [(i, j, round(float(np.linalg.norm(xyz_b[i] - xyz_b[j])) + 0.1, 6))]))
        if nonb:
            i, j = nonb[len(nonb) // 2]
            sets.append(("non-bonded", [(i, j, round(float(np.linalg.norm(xyz_b[i] - xyz_b[j])), 6))]))
        if bonded and nonb:
            sets.append(("both", sets[0][1] + sets[1][1]))
        for label, cons in sets:
            s = dict(base); s["constraints"] = cons; s["route"] = "extra"; s["name"] = base["name"] + "+extra-" + label
            ck = (s["name"],)
            fs, info = guard("impl-extra-constraints", ck, lambda: oracle_primitives(s), ([], {}))
            record(fs, "impl-extra-constraints", ck)
            ctx.count("impl-extra-constraints", ck, sample={"molecule": s["name"], "constraints": [list(c) for c in cons]})
            if "n_dic" in info:
                fs2, ok = guard("impl-extra-constraints", ck + ("step",), lambda: oracle_step(s, rs.normal(size=info["n_dic"]).round(4).tolist(), 0.05), ([], None))
                record(fs2, "impl-extra-constraints", ck + ("step",))
                record(lambda: oracle_constrained_gh(s, 3), "impl-extra-constraints", ck + ("gh",))
                ctx.count("impl-extra-constraints", ck + ("step",))
    # coordinate changes that bypass the OptCoordinates operators; constrained steps with a multiplier part
    for kind in ("cart", "dic"):
        for fam in NUMPY_OPS:
            record(lambda: oracle_stale_numpy(kind, fam), "impl-stale", ("numpy", kind, fam))
            ctx.count("impl-stale", ("numpy", kind, fam))
    record(lambda: oracle_dic_setitem_cart(), "impl-stale", ("dic-setitem",))
    ctx.count("impl-stale", ("dic-setitem",))
    for sl in (0.5, -0.25):
        record(lambda: oracle_lambda_alias(sl), "impl-stale", ("lambda", sl))
        ctx.count("impl-stale", ("lambda", sl))
    # default primitive generators (all inverse distances / all distances) on non-planar, non-linear molecules
    zig = {"name": "C4-zigzag", "cls": "chain", "symbols": ["C"] * 4, "charge": 0, "bonds": None, "constraints": [],
           "coords": [[0.0, 0.0, 0.0], [1.3, 0.8, 0.0], [2.6, 0.0, 0.3], [3.9, 0.8, 1.0]]}
    dg = [zig] + [m for m in base_molecules(full) if m["name"] in (("OO", "water2", "BF3-pyramidal") if not full else
                                                                   ("OO", "water2", "BF3-pyramidal", "allene", "CCO", "CH4-H2O"))]   # non-planar only
    rs_dg = np.random.RandomState(11)      # fixed: the class of a finding must not depend on VERIF_SEED
    for base in dg:
        for v in ((base, perturbed(base, rs_dg, 0.05)) if (full or base["name"] in ("C4-zigzag", "BF3-pyramidal")) else (base,)):
            for which in ("inverse-distances", "distances"):
                fsd = guard("impl-default-generator", (v["name"], which), lambda: oracle_default_generator(v, which, rs.normal(size=3 * len(v["symbols"])).round(4).tolist(), 0.05), [])
                record(fsd, "impl-default-generator", (v["name"], which))
                ctx.count("impl-default-generator", (v["name"], which), sample={"molecule": v["name"], "generator": which})
    # dihedral continuity through +-180 degrees (and the winding beyond the code's range)
    for smi, bond in DIHEDRAL_CASES[:None if full else 2]:
        s, p, b = rdkit_geom(smi)
        spec = {"name": smi, "cls": "chain", "symbols": s, "coords": p, "charge": 0, "bonds": b, "constraints": []}
        for dphi in ((0.35, -0.35) if not full else (0.35, -0.35, 0.8, -1.3)):
            record(lambda: oracle_dihedral(spec, bond, dphi, 0.9), "impl-dihedral", (smi, dphi))
            ctx.count("impl-dihedral", (smi, dphi, 0.9))
        record(lambda: oracle_dihedral(spec, bond, 0.4, 2.2), "impl-dihedral", (smi, "wind"))
        ctx.count("impl-dihedral", (smi, "wind"))
        for start, dq in ((170.0, 0.35), (-172.0, -0.3)) + (((178.0, 0.1), (150.0, 0.9)) if full else ()):
            record(lambda: oracle_dihedral_step(spec, bond, start, dq), "impl-dihedral", (smi, start, dq))
            ctx.count("impl-dihedral", (smi, "step", start, dq))
    # stale tensors on the implementation (every op list ends in a coordinate change)
    changes = ["OSetItem", "OAdd", "OSub", "OIAdd", "OISub", "OIaddCall", "OSetItemTiny", "OAddTiny"]
    setters = [["OSetE true", "OSetG true", "OSetH true"], ["OSetE true", "OSetG true", "OSetH true", "OGetHinv"],
               ["OSetHinv true"], ["OSetH true", "OCopy"], ["OSetG true", "OAddDiscard"]]
    for kind in ("cart", "dic"):
        for pre in setters:
            for ch in (changes if (full or kind == "cart") else ["OSetItem", "OAdd", "OIaddCall", "OSetItemTiny", "OAddTiny"]):
                ops = pre + [ch]
                record(lambda: oracle_stale(kind, ops), "impl-stale", (kind, tuple(ops)))
                ctx.count("impl-stale", (kind, tuple(ops)))
    return found


def correspondence(ctx, full):
    terms, descr = [], []

    def add(stream, term, d, key, nontrivial=True):
        terms.append(term)
        descr.append((stream, d))
        ctx.count(stream, key, nontrivial, sample=d if stream != "model-connect-graph" else {"kind": "connect", "n": len(d["spec"]["symbols"])})

    t0 = ctx.t0
    corr_connect(ctx, 400 if full else 60, add)
    corr_close_to(ctx, 200 if full else 30, add)
    lay = []
    rs = np.random.RandomState(ctx.rng.randint(0, 2 ** 31 - 1))
    for base in base_molecules(False):
        if base["name"] in (("OO", "CO2", "water2", "BF3-pyramidal", "allene", "HF2", "C=O", "LiF-HF") if not full else QUICK_NAMES):
            for k in (1, 2, 3):
                s = dict(base); s["constraints"] = random_constraints(base, rs, k)
                if s["constraints"]:
                    lay.append(s)
    corr_layout(ctx, lay, add)
    corr_machine(ctx, 600 if full else 90, 60 if full else 8, add)
    corr_schmidt(ctx, 300 if full else 50, add)
    corr_pullback(ctx, 6 if full else 2, add)
    ctx.log(f"correspondence: {len(terms)} cases generated")
    bad, err = ctx.coq_bad_indices(PRE, terms, per_file=30, name="c08cases")
    return [(descr[i], terms[i]) for i in bad], err


def run(ctx):
    sys.path.insert(0, REPO)
    import logging
    import warnings
    logging.getLogger("autode").setLevel(logging.CRITICAL)
    warnings.filterwarnings("ignore", category=RuntimeWarning)
    full = not ctx.quick
    pins_changed = source_pins(ctx.pid, PINS)
    ctx.cov["source_pins"] = {"pinned": len(PINS), "changed": pins_changed}
    if pins_changed:
        ctx.log("source pins changed:", ", ".join(pins_changed))
    proofs_ok, info = ctx.proofs(SLICE, "C08/Props.v", "AV.C08.Props", extra_targets=["C08/Corr.vo"])
    ctx.log("proofs:", "ok" if proofs_ok else "BROKEN")
    ctx.cov["print_assumptions"] = info.get("assumptions", {})
    found = impl_oracles(ctx, full)
    for key, (what, rp) in found.items():
        ctx.finding(key, what, rp)
    ctx.check_known_still_fail(list(found))
    ctx.log(f"implementation oracles: {len(found)} distinct failing input classes")
    corr_bad, corr_err = [], None
    if proofs_ok:
        corr_bad, corr_err = correspondence(ctx, full)
        ctx.log(f"correspondence: {len(corr_bad)} disagreements" + (f"; coq error {corr_err[:400]}" if corr_err else ""))
        ctx.cov["disagreements"] = len(corr_bad)
    if not proofs_ok:
        ctx.proof_failure(info, found_any_input=False)
    if corr_err:
        ctx.violation("correspondence shards did not compile (model and implementation could not be compared)",
                      {"kind": "correspondence", "coq_error": corr_err[-1500:]}, found_input=False)
    seen = set()
    for (stream, d), term in corr_bad:
        if stream in seen:
            continue
        seen.add(stream)
        # a disagreement IS a concrete input on which the implementation departs from the proved model
        ctx.violation(f"{stream}: implementation and model disagree on {str(d)[:300]}",
                      {"kind": "correspondence", "stream": stream, "case": d, "coq_term": term[:4000]}, found_input=True)
    if pins_changed and not ctx.violations:
        # the pinned source changed but no oracle / correspondence stream produced a concrete failing input
        ctx.violation("hand model no longer pinned to the source: " + ", ".join(pins_changed),
                      {"kind": "source-pin", "changed": pins_changed}, found_input=False)


def replay(ctx, obj):
    sys.path.insert(0, REPO)
    import logging
    logging.getLogger("autode").setLevel(logging.CRITICAL)
    r = obj.get("replay", {})
    kind = r.get("kind")
    spec = r.get("spec")
    fs = []
    if kind == "primitives":
        fs, _ = oracle_primitives(spec)
    elif kind == "rigid":
        fs = oracle_rigid(spec, r["rotvec"], r["shift"])
    elif kind == "step":
        fs, _ = oracle_step(spec, r["direction"], r["norm"])
    elif kind == "pullback":
        fs = oracle_pullback(spec, r["seed"], r["stationary"])
    elif kind == "dihedral":
        fs = oracle_dihedral(spec, tuple(r["bond"]), r["dphi"], r["turns"])
    elif kind == "dihedral-step":
        fs = oracle_dihedral_step(spec, tuple(r["bond"]), r["start_deg"], r["dq"])
    elif kind == "sequence":
        fs = oracle_step_sequence(spec, tuple(r["bond"]), r["phis"])
    elif kind == "oop":
        fs = oracle_oop_steps(spec, r["atom"], r["disps"])
    elif kind == "numbering":
        fs = oracle_numbering(r["n_c"], r["labels"])
    elif kind == "stale-fallback":
        fs, _ = oracle_stale_fallback(r["coords"], r["size"], r["inplace"])
    elif kind == "stale-numpy":
        fs = oracle_stale_numpy(r["coords"], r["family"])
    elif kind == "stale-dic-setitem":
        fs = oracle_dic_setitem_cart()
    elif kind == "lambda-alias":
        fs = oracle_lambda_alias(r["step_lambda"])
    elif kind == "constrained-gh":
        fs = oracle_constrained_gh(spec, r["seed"])
    elif kind == "default-generator":
        fs = oracle_default_generator(spec, r["which"], r["direction"], r["norm"])
    elif kind == "stale":
        fs = oracle_stale(r["coords"], r["ops"])
    elif kind == "machine":
        print("replay: implementation gives", run_machine(r["coords"], r["ops"]), "for", r["ops"])
        print("compare with the model term stored in the replay file (coq_term)")
        return 1
    else:
        print("replay: stored case", str(r)[:600])
        return 1
    for key, what, _ in fs:
        print("replay FAIL:", key, "-", what)
    print("replay: failures =", len(fs), "; stored:", obj.get("what"))
    return 1 if fs else 0


MANIFEST = {
    "technique": "Coq proof over a hand-written executable model (graph connection, dihedral unwrapping, Schmidt "
                 "orthogonalisation, Lagrangian layout, clear_tensors machine, pull-back) + model/implementation "
                 "correspondence + numpy oracles on generated molecules",
    "level_text": ("PARTIAL. Machine-checked theorems (coq/C08/Props.v, closed under the global context): _connect_graph_for_species "
                   "returns a connected graph for every graph, labelling, distance function and constraint set (BFS fuel = node "
                   "count suffices, none of the error outcomes can occur); close_to returns a value within pi of the reference and "
                   "congruent mod 2 pi on the code's actual range |q-other| <= 3 pi (refuted beyond it); the Schmidt output is "
                   "orthonormal, has the m unit vectors in its last m columns in constraint order and zero entries at constrained "
                   "rows, for every dimension, over any ordered field with an exact square root, provided no zero vector arises; "
                   "g_s = A^T g_x and H_s = A^T H_x A satisfy B^T g_s = P g_x, B^T H_s B = P H_x P with P = A B a symmetric "
                   "idempotent (Moore-Penrose equations as premises), unique when B A = I; after any operation sequence ending in "
                   "a coordinate change made through the OptCoordinates operators (c[k]=v, +, -, +=, -=; machine composed of copy / "
                   "clear_tensors / kind-specific primitive iadd, for Cartesian and DIC) _e = _g = _h = _h_inv = None and .h returns None; "
                   "no stored tensor is ever stale and a direct iadd() call clears them too (both kinds, after /repo 2c6603e); the Schmidt "
                   "output need not span the input columns (refuted); active and inactive "
                   "indexes partition 0..n+m-1 and the assembled Lagrangian Hessian is the symmetric Jacobian of the assembled "
                   "gradient.  The model is tied to /repo by correspondence streams on every run."),
    "level_note": ("The stale-tensor theorems speak about the operator alphabet of OptCoordinates only: numpy operations that bypass it "
                   "(ufunc results, *=, fill, views) and DIC.__setitem__'s Cartesian copy are exercised on the implementation only and "
                   "are findings.  The Hessian theorem is the algebraic identity of the first-order pull-back A^T H A; the code omits "
                   "the dB/dx.g term (dic.py:177 NOTE), so H_s is compared with finite differences at stationary points only.  "
                   "NOT proved, only exercised by implementation oracles over the molecule generator (numpy as oracle): completeness "
                   "of the delocalised set (len(DIC) = 3N-6/5 with the cause of a shortfall attributed to _calc_U or "
                   "_symmetry_inequivalent_u), the default inverse-distance / distance generators on non-planar molecules, completeness "
                   "of the primitive set (rank B = 3N-6/5), the eigenvalue threshold of _calc_U, _symmetry_inequivalent_u, "
                   "convergence of the iterative back-transformation (success => |s(x_new)-s_target| < 1e-6, failure => exception "
                   "iff not allowed), rigid-motion invariance of the primitive values, dihedral continuity, g/H against finite "
                   "differences.  Trusted: Coq kernel + vm_compute; the hand model (validated by the correspondence streams; "
                   "Python set iteration order and exact distance ties are skipped and counted); numpy/scipy/RDKit; exact "
                   "rationals stand for doubles up to rounding (1e-9 relative)."),
}
