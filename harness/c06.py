"""C06 — unit conversion and unit-aware arithmetic (DESIGN 6/C06).

Tie: gen/C06_Gen.v is regenerated from /repo by tr/translate_units.py on every run and the
theorems of coq/C06/Props.v are re-checked against it; the hand model of the comparison /
arithmetic dunders (coq/C06/Model.v) is run against autode.values on an exhaustive
class x unit-pair x alias x magnitude grid.  On any broken obligation or disagreement the
property-level oracles below are evaluated on the real code to produce a concrete replay.
"""
import itertools
import math
import subprocess
import sys
from fractions import Fraction

import numpy as np

from common import REPO, VERIF, coq_list, coq_string, frac, qc, qc_list, sh

TRUSTED_BASE = [
    "Coq 8.16.1 kernel + coqc (vm_compute used for finite sweeps over the generated unit table; no native_compute)",
    "Print Assumptions: every C06 theorem is closed under the global context (no axioms)",
    "translator tr/translate_units.py (Python ast -> gen/C06_Gen.v; fail-closed; validated each run against the runtime unit objects)",
    "hand model coq/C06/Model.v of Value/ValueArray dunders incl. reflected-operator dispatch, tied by the correspondence grid",
    "exact rationals model IEEE doubles up to rounding: results compared at 1e-12 relative; comparison cases whose exact margin is below 1e-9 relative are skipped (counted)",
    "Python str.lower(), float.as_integer_ratio",
]
ASSUMPTIONS = [
    "Arithmetic is exact over Q; IEEE rounding is outside the theorems (stated as 'exact up to rounding' by the property)",
    "Energy.__eq__ (tolerance in Ha, class check) is exercised by the implementation-side order oracle only",
]
RULE = ("exhaustive grid: every Value/ValueArray class x every ordered pair of implemented units x every alias of the "
        "target x magnitudes {0, +-1e-12..1e12, 273.15, random}; plus foreign/junk unit names; a case is non-trivial "
        "when source and target units differ or an error is expected; distinct by (class, units, alias, magnitude, op)")

SLICE = ["lib/Sums.v", "lib/QcInst.v", "C06/Base.v", "C06/Model.v", "C06/Lemmas.v", "C06/Props.v",
         "C06/Corr.v", "gen/C06_Gen.v"]
PRE = ("From Coq Require Import ZArith QArith Qcanon List String Bool.\nFrom AV.lib Require Import QcInst.\n"
       "From AV.C06 Require Import Base Model Corr.\nFrom AV.gen Require Import C06_Gen.\nImport ListNotations.\n"
       "Open Scope string_scope.\n")

MAGS = [0.0, 1.0, -1.0, 1e-12, -1e-12, 1e-6, 273.15, -40.0, 1234.5678, 1e6, -1e6, 1e12]


def defining_class(c):
    for k in c.__mro__:
        if "implemented_units" in k.__dict__:
            return k
    return None


def value_classes():
    import autode.values as V
    from autode.hessians import Hessian
    scal, arr = [], []
    for name in dir(V):
        c = getattr(V, name)
        if isinstance(c, type) and issubclass(c, V.Value) and c is not V.Value:
            scal.append(c)
        if isinstance(c, type) and issubclass(c, V.ValueArray) and c is not V.ValueArray:
            arr.append(c)
    arr.append(Hessian)
    return scal, arr


def make_scalar(c, x, unit):
    import autode.values as V
    if c is V.Allocation and x <= 0:
        return None
    return c(x, units=unit)


def make_array(c, xs, unit):
    import autode.values as V
    from autode.hessians import Hessian
    if c is V.Coordinate:
        return c(xs[0], xs[1], xs[2], units=unit)
    if c in (V.Coordinates, V.Gradient):
        return c(np.array(xs[:6]).reshape(2, 3), units=unit)
    if c is V.MomentOfInertia:
        return c(np.array(xs[:9]).reshape(3, 3), units=unit)
    if c is Hessian:
        return c(np.array(xs[:9]).reshape(3, 3), units=unit)
    return c(np.array(xs), units=unit)


def exact_conv(x, u, v):
    """The documented conversion, exactly, from the RUNTIME unit objects."""
    return frac(x) * (frac(v.times) / frac(u.times)) + (frac(u.add) - frac(v.add))


def coq_unit(u):
    return f"(mkUnit {coq_string(u.name)} {coq_list([coq_string(a) for a in u.aliases])} {qc(u.times)} {qc(u.add)})"


def relclose(a, b, tol=1e-12):
    return abs(a - b) <= tol * max(1.0, abs(a), abs(b))


# --------------------------------------------------------------------------------------------
def impl_oracles(ctx, scal, arr, full):
    """Property-level oracles evaluated directly on the implementation.  Each failure is a concrete
    replayable input.  Returns number of failures recorded."""
    import autode.values as V
    nfail = 0

    def fail(key, what, rep):
        nonlocal nfail
        nfail += 1
        if nfail <= 8:
            ctx.finding(key, what, rep)

    mags = MAGS if full else MAGS[:8]
    for c in scal:
        units = list(c.implemented_units)
        for u, v in itertools.product(units, units):
            for x in mags:
                a = make_scalar(c, x, u)
                if a is None:
                    continue
                ctx.count("impl-oracle", (c.__name__, u.name, v.name, x), nontrivial=(u is not v))
                for alias in v.aliases:
                    try:
                        b = a.to(alias)
                    except Exception as e:  # noqa
                        fail(f"to-raises:{c.__name__}", f"{c.__name__}({x},{u.name}).to({alias!r}) raised {type(e).__name__}",
                             {"class": c.__name__, "x": x, "from": u.name, "to": alias})
                        continue
                    want = float(exact_conv(x, u, v))
                    if not relclose(float(b), want) or b.units is not v:
                        fail(f"conv-value:{c.__name__}", f"{c.__name__}({x} {u.name}).to({alias!r}) = {float(b)!r} {b.units}, conversion by the declared factors gives {want!r}",
                             {"class": c.__name__, "x": x, "from": u.name, "to": alias, "got": float(b), "want": want})
                b = a.to(v)
                back = b.to(u)
                if not relclose(float(back), x, 1e-11):
                    fail(f"roundtrip:{c.__name__}", f"{c.__name__}: {x} {u.name} -> {v.name} -> {u.name} = {float(back)!r}",
                         {"class": c.__name__, "x": x, "from": u.name, "via": v.name, "got": float(back)})
                for w in units:
                    direct, via = a.to(w), b.to(w)
                    if not relclose(float(direct), float(via), 1e-11):
                        fail(f"path:{c.__name__}", f"{c.__name__}: {x} {u.name}->{w.name} direct {float(direct)!r} != via {v.name} {float(via)!r}",
                             {"class": c.__name__, "x": x, "from": u.name, "via": v.name, "to": w.name})
                # order consistency
                if a < a or a > a or not (a <= a) or not (a >= a) or not (a == a) or (a != a):
                    fail(f"order-refl:{c.__name__}", f"{c.__name__}({x} {u.name}): a<a={a < a} a>a={a > a} a<=a={a <= a} a>=a={a >= a} a==a={a == a}",
                         {"class": c.__name__, "x": x, "unit": u.name, "op": "a?a"})
                xf = float(x)
                if (xf < a) or (a < xf) or (xf > a) or (a > xf):
                    fail(f"order-float:{c.__name__}", f"{c.__name__}({x} {u.name}) vs the equal plain float: x<a={xf < a} a<x={a < xf} x>a={xf > a} a>x={a > xf}",
                         {"class": c.__name__, "x": x, "unit": u.name, "op": "float?a"})
                for y in mags:
                    bb = make_scalar(c, y, v)
                    if bb is None:
                        continue
                    lt, gt, le, ge, eq = a < bb, a > bb, a <= bb, a >= bb, a == bb
                    rlt, rgt = bb < a, bb > a
                    if (lt and rlt) or (gt and rgt) or (lt and gt):
                        fail(f"order-asym:{c.__name__}", f"{c.__name__}: a={x} {u.name}, b={y} {v.name}: a<b={lt} b<a={rlt} a>b={gt} b>a={rgt}",
                             {"class": c.__name__, "a": [x, u.name], "b": [y, v.name]})
                    if le != (lt or eq) or ge != (gt or eq):
                        fail(f"order-le:{c.__name__}", f"{c.__name__}: a={x} {u.name}, b={y} {v.name}: a<=b={le} but a<b={lt}, a==b={eq}; a>=b={ge}, a>b={gt}",
                             {"class": c.__name__, "a": [x, u.name], "b": [y, v.name]})
                    # same result as converting both to a common unit first (margin-filtered)
                    ea, eb = frac(x), exact_conv(y, v, u)
                    margin = abs(ea - eb)
                    scale = max(abs(ea), abs(eb), Fraction(1))
                    if margin > scale / 10**9:
                        if lt != (ea < eb) or gt != (ea > eb):
                            fail(f"order-common:{c.__name__}", f"{c.__name__}: a={x} {u.name}, b={y} {v.name}: a<b={lt}, a>b={gt} but in {u.name} a={float(ea)!r}, b={float(eb)!r}",
                                 {"class": c.__name__, "a": [x, u.name], "b": [y, v.name]})
                    else:
                        ctx.hist("impl-oracle", "cmp-margin-skipped")
                    ws, wd = float(ea + eb), float(ea - eb)
                    if c is V.Allocation and (ws <= 1e-9 * abs(x) or wd <= 1e-9 * abs(x)):
                        continue   # Allocation rejects non-positive values by design
                    try:
                        s, d = a + bb, a - bb
                    except Exception as e:  # noqa
                        fail(f"arith-raises:{c.__name__}", f"{c.__name__}: ({x} {u.name}) +/- ({y} {v.name}) raised {type(e).__name__}: {e}",
                             {"class": c.__name__, "a": [x, u.name], "b": [y, v.name], "op": "+-"})
                        continue
                    # float cancellation: the error of a sum/difference scales with the operands
                    atol = 1e-11 * max(1.0, abs(float(ea)), abs(float(eb)))
                    if abs(float(s) - ws) > atol or s.units is not u:
                        fail(f"add-common:{c.__name__}", f"{c.__name__}: ({x} {u.name}) + ({y} {v.name}) = {float(s)!r} {s.units}; via common unit {ws!r} {u.name}",
                             {"class": c.__name__, "a": [x, u.name], "b": [y, v.name], "op": "+"})
                    if abs(float(d) - wd) > atol or d.units is not u:
                        fail(f"sub-common:{c.__name__}", f"{c.__name__}: ({x} {u.name}) - ({y} {v.name}) = {float(d)!r} {d.units}; via common unit {wd!r} {u.name}",
                             {"class": c.__name__, "a": [x, u.name], "b": [y, v.name], "op": "-"})
        # foreign units are an error
        a = make_scalar(c, 1.5, units[0])
        mine = {al for u in units for al in u.aliases}
        for other in scal:
            for fu in other.implemented_units:
                for al in fu.aliases[:2]:
                    if al in mine:
                        continue
                    ctx.count("impl-oracle", (c.__name__, "foreign", al))
                    try:
                        r = a.to(al)
                        fail(f"foreign-accepted:{c.__name__}", f"{c.__name__}(1.5 {units[0].name}).to({al!r}) silently returned {float(r)!r}",
                             {"class": c.__name__, "to": al})
                    except (TypeError, ValueError):
                        pass
                    try:
                        c(1.0, units=al)
                        fail(f"foreign-init:{c.__name__}", f"{c.__name__}(1.0, units={al!r}) was accepted",
                             {"class": c.__name__, "units": al})
                    except (TypeError, ValueError):
                        pass
    # arrays: elementwise like scalars, in place == copy
    xs = [0.0, 1.0, -2.5, 1e-6, 273.15, -1e6, 3.25, 1e3, -7.0]
    for c in arr:
        units = list(c.implemented_units)
        for u, v in itertools.product(units, units):
            a = make_array(c, xs, u)
            flat = np.asarray(a).flatten().tolist()
            for alias in v.aliases:
                ctx.count("impl-oracle", (c.__name__, u.name, alias, "array"), nontrivial=(u is not v))
                b = a.to(alias)
                a2 = make_array(c, xs, u)
                a2.to_(alias)
                want = [float(exact_conv(x, u, v)) for x in flat]
                got = np.asarray(b).flatten().tolist()
                got2 = np.asarray(a2).flatten().tolist()
                if not all(relclose(g, w) for g, w in zip(got, want)) or b.units is not v or b.shape != a.shape:
                    fail(f"array-conv:{c.__name__}", f"{c.__name__} {u.name}->{alias!r}: {got} vs elementwise scalar conversion {want}",
                         {"class": c.__name__, "from": u.name, "to": alias, "xs": flat})
                if got2 != got or a2.units is not v:
                    fail(f"array-inplace:{c.__name__}", f"{c.__name__} {u.name}->{alias!r}: in place {got2} != copy {got}",
                         {"class": c.__name__, "from": u.name, "to": alias, "xs": flat})
                if not np.array_equal(np.asarray(a).flatten(), np.array(flat)):
                    fail(f"array-copy-mutates:{c.__name__}", f"{c.__name__}.to() modified the source array",
                         {"class": c.__name__, "from": u.name, "to": alias})
        a = make_array(c, xs, units[0])
        mine = {al for u in units for al in u.aliases}
        for al in ("kelvin", "mb", "rad", "junk unit", "cm-1"):
            if al in mine:
                continue
            try:
                a.to(al)
                fail(f"foreign-accepted:{c.__name__}", f"{c.__name__}.to({al!r}) was accepted", {"class": c.__name__, "to": al})
            except (TypeError, ValueError):
                pass
    # integer-dtype arrays: a conversion must either give the correct (float) numbers or refuse and
    # leave array and units untouched -- never truncated numbers with the new unit label
    for c in arr:
        units = list(c.implemented_units)
        ints = [0, 1, -2, 3, 7, -5, 2, 4, 9]
        for u, v in itertools.product(units, units):
            if u is v:
                continue
            for dt in (np.int64, np.int32):
                for inplace in (False, True):
                    try:
                        a = make_array(c, np.array(ints, dtype=dt), u)
                    except Exception:
                        continue
                    if not np.issubdtype(np.asarray(a).dtype, np.integer):
                        continue
                    before = np.asarray(a).flatten().tolist()
                    ctx.count("impl-oracle", (c.__name__, u.name, v.name, str(dt), inplace, "int-array"))
                    try:
                        r = a.to_(v) if inplace else a.to(v)
                        r = a if inplace else r
                    except Exception:
                        if np.asarray(a).flatten().tolist() != before or a.units is not u:
                            fail(f"array-int-refusal-mutates:{c.__name__}", f"{c.__name__}[{np.dtype(dt).name}] {u.name}->{v.name} raised but changed the array/units",
                                 {"class": c.__name__, "from": u.name, "to": v.name, "dtype": np.dtype(dt).name, "xs": before})
                        continue
                    want = [float(exact_conv(x, u, v)) for x in before]
                    got = np.asarray(r).flatten().tolist()
                    if not all(relclose(float(g), w) for g, w in zip(got, want)):
                        fail(f"array-int-truncated:{c.__name__}", f"{c.__name__}[{np.dtype(dt).name}] {before} {u.name} -> {v.name} gives {got} labelled {r.units}, the conversion is {want}",
                             {"class": c.__name__, "from": u.name, "to": v.name, "dtype": np.dtype(dt).name, "xs": before, "inplace": inplace})
    # Energy family: == has its own tolerance (0.0000159 Ha); it must be symmetric and give the same
    # answer as comparing after conversion of both operands to ANY common unit
    seps = [0.0, 1e-6, -1e-6, 1e-3, -1e-3, 0.7] if full else [0.0, 1e-6, 1e-3, 0.7]
    bases = [0.0, -1.25, 40.5] if full else [-1.25]
    for c in [k for k in scal if issubclass(k, V.Energy)]:
        units = list(c.implemented_units)
        for u, v in itertools.product(units, units):
            for base in bases:
                for sep in seps:
                    a = c(float(exact_conv(base, units[0], u)), units=u)
                    b = c(float(exact_conv(base + sep, units[0], v)), units=v)
                    ctx.count("impl-oracle", (c.__name__, u.name, v.name, base, sep, "energy-eq"), nontrivial=(u is not v))
                    if abs(abs(sep) - 0.0000159) < 2e-6:
                        continue
                    want = abs(sep) < 0.0000159
                    eq, req, ne = (a == b), (b == a), (a != b)
                    le, ge, lt, gt = (a <= b), (a >= b), (a < b), (a > b)
                    bad = []
                    if eq != want or req != want or ne == eq:
                        bad.append(f"a==b={eq} b==a={req} a!=b={ne}, |a-b| = {abs(sep)} Ha so equality must be {want}")
                    if le != (lt or eq) or ge != (gt or eq):
                        bad.append(f"a<=b={le} a<b={lt} a==b={eq} a>=b={ge} a>b={gt}")
                    for w in units:
                        if (a.to(w) == b.to(w)) != eq:
                            bad.append(f"a==b={eq} but a.to({w.name})==b.to({w.name}) is {a.to(w) == b.to(w)}")
                            break
                    if bad:
                        fail(f"energy-eq:{c.__name__}", f"{c.__name__}: a={float(a)!r} {u.name}, b={float(b)!r} {v.name}: " + "; ".join(bad),
                             {"class": c.__name__, "a": [float(a), u.name], "b": [float(b), v.name], "sep_ha": sep})
    # declared constants vs unit factors (runtime)
    import autode.units as U
    from autode.constants import Constants as C
    pairs = [(U.kcalmol, C.ha_to_kcalmol), (U.kjmol, C.ha_to_kJmol), (U.ev, C.ha_to_eV), (U.J, C.ha_to_J),
             (U.deg, C.rad_to_deg), (U.a0, C.ang_to_a0), (U.nm, C.ang_to_nm), (U.pm, C.ang_to_pm), (U.m, C.ang_to_m),
             (U.kg, C.amu_to_kg), (U.m_e, C.amu_to_me), (U.hz, C.per_cm_to_hz), (U.ha_per_a0, C.a0_to_ang)]
    for u, k in pairs:
        ctx.count("impl-oracle", ("factor", u.name))
        if not relclose(u.times, k, 1e-12):
            fail(f"factor:{u.name}", f"unit {u.name} has factor {u.times!r}, the declared constant is {k!r}", {"unit": u.name})
    if U.celsius.add != 273.15 or U.celsius.times != 1.0 or not relclose(float(V.Temperature(20, "celsius").to("K")), 293.15):
        fail("factor:celsius", "Kelvin/Celsius shift is not 273.15", {"unit": "celsius"})
    return nfail


# --------------------------------------------------------------------------------------------
def correspondence(ctx, scal, arr, full):
    """Model (Coq) vs implementation.  -> list of (description, replay) disagreements."""
    import autode.units as U
    from autode.constants import Constants as C
    terms, descr = [], []

    def add(term, d, key, nontrivial=True):
        terms.append(term)
        descr.append(d)
        ctx.count("model-vs-impl", key, nontrivial, sample=d)

    # (a) translator validation: runtime tables == generated tables
    seen = set()
    for c in scal + arr:
        d = defining_class(c)
        if d.__name__ in seen:
            continue
        seen.add(d.__name__)
        add(f"check_class {coq_string(d.__name__)} {coq_list([coq_unit(u) for u in d.implemented_units])}",
            {"kind": "class-table", "class": d.__name__}, ("class", d.__name__))
    for k, v in vars(C).items():
        if not k.startswith("_") and isinstance(v, (int, float)):
            add(f"check_const {coq_string(k)} {qc(float(v))}", {"kind": "constant", "name": k}, ("const", k))

    mags = MAGS if full else [0.0, 1.0, -1.0, 273.15, -1e6, 1e12]
    rnd = [round(ctx.rng.uniform(-500, 500), 3) for _ in range(4 if full else 2)]
    # (b) scalar conversion incl. every alias and foreign names
    for c in scal:
        d = defining_class(c).__name__
        if c.__name__ != d and not full:
            continue   # subclasses share the table; thorough tier runs them too
        units = list(c.implemented_units)
        foreign = ["junk", "hartrees", ""] + [u.aliases[0] for o in scal for u in o.implemented_units
                                              if u not in units][:6]
        for u in units:
            for x in mags + rnd:
                a = make_scalar(c, x, u)
                if a is None:
                    continue
                names = [al for v in units for al in v.aliases] + foreign
                for nm in names:
                    try:
                        r = a.to(nm)
                        exp = f"(Some ({qc(float(r))}, {coq_string(r.units.name)}))"
                    except (TypeError, ValueError):
                        exp = "None"
                    add(f"check_to {coq_string(d)} {coq_string(u.name)} {qc(x)} {coq_string(nm.lower())} {exp}",
                        {"kind": "to", "class": c.__name__, "x": x, "from": u.name, "to": nm},
                        ("to", d, u.name, nm, x), nontrivial=(nm not in u.aliases))
    # (c) arrays
    xs = [0.0, 1.0, -2.5, 1e-6, 273.15, -1e6, 3.25, 1e3, -7.0]
    for c in arr:
        d = defining_class(c).__name__
        units = list(c.implemented_units)
        for u in units:
            a = make_array(c, xs, u)
            flat = np.asarray(a).flatten().tolist()
            for nm in [al for v in units for al in v.aliases] + ["junk", "kelvin"]:
                try:
                    r = a.to(nm)
                    exp = f"(Some ({qc_list(np.asarray(r).flatten().tolist())}, {coq_string(r.units.name)}))"
                except (TypeError, ValueError):
                    exp = "None"
                add(f"check_to_array {coq_string(d)} {coq_string(u.name)} {qc_list(flat)} {coq_string(nm.lower())} {exp}",
                    {"kind": "to-array", "class": c.__name__, "from": u.name, "to": nm},
                    ("to-array", d, u.name, nm), nontrivial=(nm not in u.aliases))
    # (d) comparison / arithmetic dunders (Energy family has its own __eq__: eq/le/ge skipped there)
    import autode.values as V
    cmags = ([0.0, 1.0, -1.0, 273.15, 1234.5678, 1e-6] if full else [0.0, 1.0, -1.5, 273.15]) + rnd[:2 if full else 1]
    skipped = 0
    for c in scal:
        d = defining_class(c).__name__
        if c.__name__ != d:
            continue
        is_energy = issubclass(c, V.Energy)
        units = list(c.implemented_units)
        for u, v in itertools.product(units, units):
            for x, y in itertools.product(cmags, cmags):
                a, b = make_scalar(c, x, u), make_scalar(c, y, v)
                if a is None or b is None:
                    continue
                ea, eb = frac(x), exact_conv(y, v, u)
                margin, scale = abs(ea - eb), max(abs(ea), abs(eb), Fraction(1))
                same = (u is v)
                if not same and margin <= scale / 10**9:
                    skipped += 1
                    continue
                if abs(margin - Fraction(1, 10**8)) < Fraction(1, 10**10):
                    skipped += 1
                    continue
                A = f"(mk {coq_string(d)} {coq_string(u.name)} {qc(x)})"
                B = f"(mk {coq_string(d)} {coq_string(v.name)} {qc(y)})"
                K = f"(cls {coq_string(d)})"
                parts = [f"ob_eqb (v_lt {K} {A} {B}) (Some {str(bool(a < b)).lower()})",
                         f"ob_eqb (v_gt {K} {A} {B}) (Some {str(bool(a > b)).lower()})"]
                if not is_energy:
                    parts += [f"ob_eqb (v_eq {K} {A} {B}) (Some {str(bool(a == b)).lower()})",
                              f"ob_eqb (v_le {K} {A} {B}) (Some {str(bool(a <= b)).lower()})",
                              f"ob_eqb (v_ge {K} {A} {B}) (Some {str(bool(a >= b)).lower()})"]
                arith = c is not V.Allocation   # Allocation rejects non-positive results by design
                if arith:
                    s, dd = a + b, a - b
                    parts += [f"ov_close (v_add {K} {A} {B}) (Some ({qc(float(s))}, {coq_string(s.units.name)}))",
                              f"ov_close (v_sub {K} {A} {B}) (Some ({qc(float(dd))}, {coq_string(dd.units.name)}))"]
                if same and arith:
                    yf = float(y)
                    parts += [f"Bool.eqb (vf_lt {A} {qc(yf)}) {str(bool(a < yf)).lower()}",
                              f"Bool.eqb (vf_gt {A} {qc(yf)}) {str(bool(a > yf)).lower()}",
                              f"Bool.eqb (fv_lt {qc(yf)} {A}) {str(bool(yf < a)).lower()}",
                              f"Bool.eqb (fv_gt {qc(yf)} {A}) {str(bool(yf > a)).lower()}",
                              f"v_close (vf_add {A} {qc(yf)}) ({qc(float(a + yf))}, {coq_string((a + yf).units.name)})",
                              f"v_close (fv_add {qc(yf)} {A}) ({qc(float(yf + a))}, {coq_string((yf + a).units.name)})",
                              f"v_close (vf_sub {A} {qc(yf)}) ({qc(float(a - yf))}, {coq_string((a - yf).units.name)})",
                              f"v_close (vf_mul {A} {qc(yf)}) ({qc(float(a * yf))}, {coq_string((a * yf).units.name)})",
                              f"v_close (v_neg {A}) ({qc(float(-a))}, {coq_string((-a).units.name)})"]
                    if not is_energy:
                        parts += [f"Bool.eqb (vf_le {A} {qc(yf)}) {str(bool(a <= yf)).lower()}",
                                  f"Bool.eqb (fv_le {qc(yf)} {A}) {str(bool(yf <= a)).lower()}",
                                  f"Bool.eqb (fv_ge {qc(yf)} {A}) {str(bool(yf >= a)).lower()}"]
                add("(" + " && ".join(parts) + ")",
                    {"kind": "dunder", "class": c.__name__, "a": [x, u.name], "b": [y, v.name]},
                    ("dunder", d, u.name, v.name, x, y))
    ctx.cov["streams"]["model-vs-impl"]["margin_skipped"] = skipped
    bad, err = ctx.coq_bad_indices(PRE, terms, per_file=400, name="c06cases")
    out = [(descr[i], terms[i]) for i in bad]
    return out, err


def run(ctx):
    sys.path.insert(0, REPO)
    full = not ctx.quick
    # 1. regenerate the model from /repo
    rc, out = sh(["python3", f"{VERIF}/tr/translate_units.py"], timeout=120)
    ctx.log("translator:", out.strip()[:300])
    translated = rc == 0
    ctx.cov["translator"] = {"ok": translated, "output": out.strip()[:600]}
    # 2. proofs over the regenerated model
    info = {"hygiene": [], "log_tail": out, "build_ok": False}
    proofs_ok = False
    if translated:
        proofs_ok, info = ctx.proofs(SLICE, "C06/Props.v", "AV.C06.Props", extra_targets=["C06/Corr.vo"])
        ctx.log("proofs:", "ok" if proofs_ok else "BROKEN")
        ctx.cov["print_assumptions"] = info.get("assumptions", {})
    else:
        ctx.cov["obligations"] += len(ctx.theorems_in("C06/Props.v"))
        ctx.cov["checker_cmd"] = "translator failed closed; proofs not attempted"
    # 3. implementation-side oracles (always run: they give the concrete replays)
    scal, arr = value_classes()
    nfail = impl_oracles(ctx, scal, arr, full)
    ctx.log(f"implementation oracles: {nfail} failures")
    # 4. correspondence
    corr_bad, corr_err = [], None
    if proofs_ok:
        corr_bad, corr_err = correspondence(ctx, scal, arr, full)
        ctx.log(f"correspondence: {len(corr_bad)} disagreements" + (f"; coq error {corr_err[:300]}" if corr_err else ""))
        ctx.cov["disagreements"] = len(corr_bad)
    # 5. decide
    if not proofs_ok:
        ctx.proof_failure(info, found_any_input=(nfail > 0))
    if corr_bad or corr_err:
        if nfail == 0:
            ctx.violation("model and implementation disagree (correspondence stream model-vs-impl) and no property-level "
                          "oracle failed on the implementation",
                          {"kind": "correspondence", "stream": "model-vs-impl", "first": [d for d, _ in corr_bad[:5]],
                           "coq_terms": [t for _, t in corr_bad[:2]], "coq_error": corr_err}, found_input=False)
        else:
            ctx.log("correspondence disagreements explained by the implementation-level findings above")


def replay(ctx, obj):
    sys.path.insert(0, REPO)
    scal, arr = value_classes()
    n = impl_oracles(ctx, scal, arr, True)
    print("replay: implementation oracles failures =", n, "; stored:", obj.get("what"))
    return 1 if n else 0

MANIFEST = {
    "technique": "Coq proof over a model regenerated from source (ast translator) + exhaustive model/implementation correspondence grid",
    "level_text": ("Machine-checked theorems (coq/C06/Props.v, closed under the global context) state round-trip, path "
                   "independence, agreement of every unit factor with the declared constants, unambiguous alias lookup / "
                   "rejection of foreign units, elementwise array conversion, and that comparison and +/- agree with "
                   "conversion to any common unit and form a consistent strict order - for EVERY value class, every "
                   "unit triple and every rational magnitude.  The unit table, constants and the arithmetic of values._to "
                   "are regenerated from /repo on every run; the dunder/dispatch model is tied by an exhaustive grid."),
    "level_note": ("Trusted: Coq kernel + vm_compute; tr/translate_units.py (validated each run against the runtime unit "
                   "objects); the hand model of Python's reflected-operator dispatch (validated by the grid); exact "
                   "rationals stand for doubles up to rounding (1e-12 rel; near-tie comparisons skipped and counted). "
                   "Energy.__eq__'s own tolerance is checked on the implementation only."),
}
