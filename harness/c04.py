"""C04 — bond rearrangements found are sound and exist whenever one exists (DESIGN 6/C04).

Tie: coq/C04/Model.v is a hand model of autode/bond_rearrangement.py::get_bond_rearrangs (bond-type
bookkeeping, dispatch, the five get_fbonds_bbonds_* enumerations, valence pre-filter,
add_bond_rearrangment, strip_equiv_bond_rearrs, prune_small_ring_rearrs, save/load text format).
On every run the model is executed (Coq vm_compute) on the same generated (reactant, edit, relabelled
product) cases as the implementation, with the isomorphism oracle of the model being EXACTLY the
logged (graph, product) -> bool answers of the implementation's is_isomorphic; compared are the list
before pruning, the final list with Config.skip_small_ring_tss both ways, the exact sequence of
isomorphism queries, the saved text and the reloaded objects.  Independently (networkx only) every
returned rearrangement is checked for soundness and the result for non-emptiness whenever the
constructed edit satisfies the premise of the property.
"""
import itertools
import json
import multiprocessing
import os
import shutil
import sys
import time

from common import REPO, VERIF, source_pins, coq_list, coq_bool

TRUSTED_BASE = [
    "Coq 8.16.1 kernel + coqc (vm_compute only to evaluate the model on correspondence cases; no native_compute)",
    "Print Assumptions: every C04 theorem is closed under the global context (no axioms)",
    "hand model coq/C04/Model.v of get_bond_rearrangs and callees, tied by the correspondence check of this module "
    "(lists before/after pruning, exact isomorphism-query sequence, saved text, reloaded objects)",
    "oracles (modelled as parameters, answers taken from the implementation): networkx GraphMatcher isomorphism behind "
    "mol_graphs.is_isomorphic (theorems assume it decides label-preserving isomorphism), nx.cycle_basis ring sizes, "
    "geometry-based neighbour lists",
    "the case generator, the literal printer Python->Coq and the independent networkx soundness/non-emptiness oracles of this module",
    "Python str.split/int/print semantics restricted to ASCII digits, blanks and lower-case letters (load model)",
]
ASSUMPTIONS = [
    "Hiso_on: the isomorphism oracle is right (True exactly when isomorphic with matching element labels and atom classes) on "
    "the finitely many questions the enumeration can ask for the given reactant/product; an end-to-end instance is proved "
    "(Props.ex_Hiso_on / complete_instance).  mol_graphs.is_isomorphic answers False after a 5 s timeout: such answers are "
    "NOT discarded - every logged answer (timed out or not) is validated on each run against networkx isomorphism on "
    "independently built graphs (finding key Hiso:is_isomorphic-disagrees-with-networkx)",
    "graphs are simple (duplicate-free unordered edge lists, endpoints are nodes); no edge is active (the `active` edge "
    "attribute that is_isomorphic also matches on is not modelled; generated reactants have none)",
    "completeness is PARTIAL w.r.t. the property text: proved for products not isomorphic to the reactant and for products "
    "with <= 3 atoms; for identity reactions with > 3 atoms the code returns None by design (rearrs_complete_identity_refuted, "
    "finding key incomplete|identity-reaction)",
    "file-name mismatch between saving ({name}_BRs.txt) and the cache lookup ({name}_bond_rearrangs.txt): a second call "
    "recomputes (checked equal: key second-call-differs); a pre-existing {name}_bond_rearrangs.txt is returned unchecked "
    "(modelled: get_bond_rearrangs_cached; the soundness theorem is about the enumeration, not about a cache file)",
    "loader model: ASCII text only; a negative integer token (legal for Python int) is outside the model's nat indices (NegIndex)",
]
RULE = ("reactants: random molecules of 2-12 atoms incl. H (1-2 molecules, elements H B C N O F S Cl) with explicit bond "
        "lists, plus directed families: a centre at maximal valence in both breaking and both forming bonds (geminal double "
        "substitution, up to 3 molecules), bridged bicyclic skeletons with unequal bridges, atom-class labelled species "
        "(identity SN2, labelled H exchange, sprinkled classes), reactants with an atom above its maximal valence, one reactant "
        "object used twice with an in-place graph edit in between, reactants re-indexed by Species.reorder_atoms (nodes out of "
        "order), directed rare bond-type patterns, identity reactions with and without >3 atoms, products as ProductComplex; edits: random and (thorough) exhaustive valence-respecting edits with <=2 breaking / <=2 forming bonds and "
        "net loss 0..2, plus out-of-premise edits (over-valent, 3 bonds, net gain, foreign element); product = edited "
        "graph under a random atom permutation with shuffled edge order; a case is non-trivial when the enumeration "
        "issues at least one candidate isomorphism query; distinct by (reactant, edit, permutation, skip flag)")

# every function the hand model coq/C04/Model.v (and the structure-mirroring parts of this harness) was written from
PINS = [("autode/bond_rearrangement.py", q) for q in (
    "get_bond_rearrangs", "save_bond_rearrangs_to_file", "get_bond_rearrangs_from_file",
    "add_bond_rearrangment", "generate_rearranged_graph",
    "get_fbonds_bbonds_1b", "get_fbonds_bbonds_2b", "get_fbonds_bbonds_1b1f", "get_fbonds_bbonds_2b1f",
    "get_fbonds_bbonds_2b2f", "strip_equiv_bond_rearrs", "prune_small_ring_rearrs",
    "BondRearrangement.__init__", "BondRearrangement.__eq__", "BondRearrangement.active_atoms",
    "BondRearrangement.n_membered_rings", "BondRearrangement.get_active_atom_neighbour_lists")] + \
       [("autode/mol_graphs.py", q) for q in (
           "get_bond_type_list", "get_fbonds", "is_isomorphic", "MolecularGraph.node_matcher", "find_cycles",
           "make_graph", "union")] + \
       [("autode/atoms.py", "Atom.maximal_valance"), ("autode/atoms.py", "Atom.is_metal"),
        ("autode/species/complex.py", "Complex.__init__"), ("autode/species/complex.py", "Complex.atom_indexes"),
        ("autode/species/complex.py", "Complex.n_molecules"), ("autode/species/species.py", "Species.reorder_atoms"),
        # transitive dependencies (round 3): the decorator behind is_isomorphic, the whole graph class (an overriding
        # copy/add_edge/remove_edge would change generate_rearranged_graph), the neighbour lists, node re-indexing
        ("autode/utils.py", "_timeout_default"), ("autode/mol_graphs.py", "MolecularGraph"),
        ("autode/mol_graphs.py", "reorder_nodes"), ("autode/geom.py", "get_neighbour_list")]
# the module-level table atoms._max_valances is not a function: pinned by value for the elements the generators use
PINNED_MAXVAL = {"H": 1, "B": 4, "C": 4, "N": 4, "O": 3, "F": 1, "S": 6, "Cl": 4, "Si": 4, "P": 6, "Br": 4, "I": 6}

SLICE = ["C04/Model.v", "C04/Lemmas.v", "C04/Props.v", "C04/Corr.v"]
PRE = ("From Coq Require Import String Ascii.\nFrom Coq Require Import Arith List Bool.\n"
       "From AV.lib Require Import QcInst.\nFrom AV.C04 Require Import Model Corr.\nImport ListNotations.\n"
       "Open Scope list_scope.\nOpen Scope nat_scope.\n")

ELEMS = ["H", "B", "C", "N", "O", "F", "S", "Cl"]      # random generator; directed families also use Si Br I
CHEM_VAL = {"H": 1, "B": 3, "C": 4, "N": 3, "O": 2, "F": 1, "S": 2, "Cl": 1}
QUERY_CAP_QUICK = 250
QUERY_CAP_THOROUGH = 2500
ISO_TIMEOUT_S = 4.5


# ============================================================================ Coq literals
def c_edge(e):
    return f"({int(e[0])},{int(e[1])})"


def c_edges(es):
    return "[" + ";".join(c_edge(e) for e in es) + "]"


def c_nats(xs):
    return "[" + ";".join(str(int(x)) for x in xs) + "]"


def c_rearr(br):
    return f"({c_edges(br[0])},{c_edges(br[1])})"


def c_rearrs(brs):
    return "[" + ";".join(c_rearr(b) for b in brs) + "]"


def c_outcome(o):
    """o: list of (fb, bb) | None | 'KeyError' | 'IndexError'"""
    if o is None:
        return "RNone"
    if o == "KeyError":
        return "KeyErr"
    if o == "IndexError":
        return "IndexErr"
    return f"(Ok {c_rearrs(o)})"


def norm_edges(es):
    return sorted((min(a, b), max(a, b)) for a, b in es)


# ============================================================================ generator
def gen_molecule(rng, n_atoms):
    """Random connected-ish molecule: returns (symbols, bonds).  Heavy-atom skeleton (tree + optional
    ring closures) respecting ordinary valences, then hydrogens on open valences (not always all:
    radicals / carbenes occur)."""
    if n_atoms == 1:
        return [rng.choice(["H", "C", "O", "Cl", "F", "N"])], []
    n_heavy = rng.randint(1, max(1, min(n_atoms, 1 + n_atoms // 2)))
    if rng.random() < 0.15:
        n_heavy = n_atoms
    weights = {"C": 8, "N": 3, "O": 3, "S": 1, "Cl": 1, "F": 1, "B": 1}
    pool = [e for e, w in weights.items() for _ in range(w)]
    syms = [rng.choice(pool) for _ in range(n_heavy)]
    if n_heavy > 1:            # at least one atom able to connect
        syms[0] = rng.choice(["C", "N", "C", "O"])
    bonds, deg = [], [0] * n_heavy
    for i in range(1, n_heavy):
        cands = [j for j in range(i) if deg[j] < CHEM_VAL[syms[j]]]
        if not cands or CHEM_VAL[syms[i]] == 0:
            continue
        j = rng.choice(cands)
        bonds.append((j, i))
        deg[i] += 1
        deg[j] += 1
    for _ in range(rng.choice([0, 0, 0, 1, 1, 2])):      # ring closures
        free = [i for i in range(n_heavy) if deg[i] < CHEM_VAL[syms[i]]]
        if len(free) < 2:
            break
        a, b = rng.sample(free, 2)
        if (min(a, b), max(a, b)) in [(min(x, y), max(x, y)) for x, y in bonds]:
            continue
        bonds.append((a, b))
        deg[a] += 1
        deg[b] += 1
    n = n_heavy
    while n < n_atoms:
        free = [i for i in range(n_heavy) if deg[i] < CHEM_VAL[syms[i]]]
        if not free:
            if n_heavy == 1 and syms[0] in ("F", "Cl") and deg[0] >= 1:
                break
            # lone hydrogen atom / H2 fragment
            syms.append("H")
            deg.append(0)
            n += 1
            if n < n_atoms and rng.random() < 0.5:
                syms.append("H")
                deg.append(1)
                deg[n - 1] = 1
                bonds.append((n - 1, n))
                n += 1
            continue
        a = rng.choice(free)
        syms.append("H")
        deg.append(1)
        bonds.append((a, n))
        deg[a] += 1
        n += 1
    return syms, bonds


def gen_reactant(rng, max_atoms):
    """-> dict(mols=[(symbols, bonds)], coords=[[x,y,z]...]) ; total atoms 2..max_atoms"""
    total = rng.randint(2, max_atoms)
    if rng.random() < 0.45 and total >= 2:
        n1 = rng.randint(1, total - 1)
        sizes = [n1, total - n1]
    else:
        sizes = [total]
    mols = []
    for s in sizes:
        syms, bonds = gen_molecule(rng, s)
        mols.append((syms, [list(b) for b in bonds]))
    n = sum(len(m[0]) for m in mols)
    coords = []
    while len(coords) < n:
        c = [round(rng.uniform(-4, 4), 3) for _ in range(3)]
        if all(sum((a - b) ** 2 for a, b in zip(c, d)) > 0.3 for d in coords):
            coords.append(c)
    return {"mols": mols, "coords": coords}


def flat_reactant(reac):
    syms, edges, off = [], [], 0
    for s, b in reac["mols"]:
        syms += s
        edges += [(x + off, y + off) for x, y in b]
        off += len(s)
    return syms, edges


def flat_classes(reac):
    """atom classes (None | int) of the reactant atoms, in flat atom order"""
    n = sum(len(m[0]) for m in reac["mols"])
    return list(reac.get("classes") or [None] * n)


def cls_code(c):
    """Coq code of an atom class: 0 = None"""
    return 0 if c is None else int(c) + 1


def view(case):
    """The reactant as get_bond_rearrangs sees it in the measured call, computed from the case description only:
    (symbols, bonds, classes) after the optional in-place pre-edit (sequential use of one reactant object) and
    the optional Species.reorder_atoms permutation.  case['bb'], case['fb'] and case['prod'] refer to THIS numbering."""
    syms, edges = flat_reactant(case["reac"])
    cls = flat_classes(case["reac"])
    edges = [tuple(e) for e in norm_edges(edges)]
    pre = case.get("pre")
    if pre:
        edges = [e for e in edges if e not in norm_edges(pre["bb"])] + norm_edges(pre["fb"])
    perm = case.get("reorder")
    if perm:
        n = len(syms)
        s2, c2 = [None] * n, [None] * n
        for i in range(n):
            s2[perm[i]] = syms[i]
            c2[perm[i]] = cls[i]
        syms, cls = s2, c2
        edges = [(perm[a], perm[b]) for a, b in edges]
    return syms, norm_edges(edges), cls


def degrees(n, edges):
    d = [0] * n
    for a, b in edges:
        d[a] += 1
        d[b] += 1
    return d


def all_edits(n, edges, shapes):
    """every (bb, fb) with the given (n_b, n_f) shapes; bb subsets of edges, fb subsets of non-edges"""
    eset = set(norm_edges(edges))
    non = [(i, j) for i in range(n) for j in range(i + 1, n) if (i, j) not in eset]
    es = sorted(eset)
    for nb, nf in shapes:
        for bb in itertools.combinations(es, nb):
            for fb in itertools.combinations(non, nf):
                yield list(bb), list(fb)


def premise_ok(syms, edges, bb, fb, maxval):
    """the premise of the property: <=2/<=2, net loss 0..2, no atom pushed beyond its maximal valence"""
    if not (len(bb) <= 2 and len(fb) <= 2 and 0 <= len(bb) - len(fb) <= 2):
        return False
    d0 = degrees(len(syms), edges)
    new = [e for e in norm_edges(edges) if e not in norm_edges(bb)] + norm_edges(fb)
    d1 = degrees(len(syms), new)
    return all(d1[i] <= max(maxval[syms[i]], d0[i]) for i in range(len(syms)))


def type_pattern(syms, bb, fb):
    """how the breaking / forming bonds distribute over bond types: sorted (n_breaking, n_forming) per type"""
    cnt = {}
    for a, b in bb:
        k = tuple(sorted((syms[a], syms[b])))
        cnt.setdefault(k, [0, 0])[0] += 1
    for a, b in fb:
        k = tuple(sorted((syms[a], syms[b])))
        cnt.setdefault(k, [0, 0])[1] += 1
    return "".join(f"({x},{y})" for x, y in sorted(cnt.values(), reverse=True))


def make_product(rng, syms, edges, bb, fb, extra=None, classes=None):
    """edited graph under a random permutation; shuffled edge order and orientation; atom classes travel
    with their atoms"""
    n = len(syms)
    classes = list(classes) if classes else [None] * n
    new = [e for e in norm_edges(edges) if e not in norm_edges(bb)] + norm_edges(fb)
    perm = list(range(n))
    rng.shuffle(perm)                       # reactant atom i -> product atom perm[i]
    psyms, pcls = [None] * n, [None] * n
    for i in range(n):
        psyms[perm[i]] = syms[i]
        pcls[perm[i]] = classes[i]
    pedges = [[perm[a], perm[b]] for a, b in new]
    rng.shuffle(pedges)
    pedges = [e if rng.random() < 0.5 else e[::-1] for e in pedges]
    if extra == "foreign-element":
        k = rng.randrange(n)
        psyms[k] = rng.choice([s for s in ["Si", "P", "Br", "I"]])
    return {"syms": psyms, "bonds": pedges, "perm": perm, "classes": pcls}


def gen_case(rng, max_atoms, kind):
    """kind: 'premise' (edit satisfies the property's premise) | 'overvalent' | 'big' | 'gain' | 'foreign' | 'identity'"""
    for _ in range(200):
        reac = gen_reactant(rng, max_atoms)
        syms, edges = flat_reactant(reac)
        n = len(syms)
        eset = norm_edges(edges)
        non = [(i, j) for i in range(n) for j in range(i + 1, n) if (i, j) not in eset]
        if kind in ("premise", "overvalent", "foreign"):
            nb, nf = rng.choice([(1, 0), (2, 0), (1, 1), (1, 1), (2, 1), (2, 1), (2, 1), (2, 2), (2, 2), (2, 2), (2, 2)])
        elif kind == "big":
            nb, nf = rng.choice([(3, 0), (3, 1), (3, 3), (3, 2)])
        elif kind == "gain":
            nb, nf = rng.choice([(0, 1), (1, 2), (0, 2)])
        else:
            nb, nf = 0, 0
        if len(eset) < nb or len(non) < nf:
            continue
        for _try in range(60):
            bb = rng.sample(eset, nb)
            fb = rng.sample(non, nf)
            ok = premise_ok(syms, edges, bb, fb, MAXVAL)
            if (kind == "premise" and ok) or (kind == "overvalent" and not ok and nf > 0) or kind not in ("premise", "overvalent"):
                return {"reac": reac, "bb": [list(e) for e in bb], "fb": [list(e) for e in fb], "kind": kind}
    return None


def _finish_case(rng, mols, bb, fb, family, classes=None, shuffle=True):
    """assemble a premise case from explicit molecules (atom order inside each molecule is shuffled)"""
    mols2, maps, off = [], [], 0
    for syms, bonds in mols:
        k = len(syms)
        perm = list(range(k))
        if shuffle:
            rng.shuffle(perm)
        ns = [None] * k
        for i in range(k):
            ns[perm[i]] = syms[i]
        nb = [[perm[a], perm[b]] for a, b in bonds]
        rng.shuffle(nb)
        nb = [e if rng.random() < 0.5 else e[::-1] for e in nb]
        mols2.append((ns, nb))
        maps += [off + perm[i] for i in range(k)]
        off += k
    n = off
    coords = []
    while len(coords) < n:
        c = [round(rng.uniform(-4, 4), 3) for _ in range(3)]
        if all(sum((a - b) ** 2 for a, b in zip(c, d)) > 0.3 for d in coords):
            coords.append(c)
    reac = {"mols": mols2, "coords": coords}
    if classes:
        cl = [None] * n
        for i, c in enumerate(classes):
            cl[maps[i]] = c
        reac["classes"] = cl
    case = {"reac": reac, "bb": [[maps[a], maps[b]] for a, b in bb], "fb": [[maps[a], maps[b]] for a, b in fb],
            "kind": "premise", "family": family}
    syms, edges = flat_reactant(reac)
    if not premise_ok(syms, edges, case["bb"], case["fb"], MAXVAL):
        return None
    case["prod"] = make_product(rng, syms, edges, case["bb"], case["fb"], classes=flat_classes(reac))
    return case


def gen_geminal(rng):
    """a centre atom AT its maximal valence that takes part in BOTH breaking and BOTH forming bonds
    (geminal double substitution  X2CR2 + 2 Y -> Y2CR2 + 2 X), 2b2f; also the 2b1f / 1b1f analogues"""
    for _ in range(50):
        centre = rng.choice(["C", "C", "C", "Si", "B", "N", "O"])
        mv = MAXVAL[centre]
        subs = [rng.choice(["H", "H", "F", "Cl", "Br", "Me", "I"]) for _ in range(mv)]
        syms, bonds = [centre], []
        sub_idx = []
        for sb in subs:
            if sb == "Me" and len(syms) <= 5:
                c = len(syms)
                syms.append("C")
                bonds.append((0, c))
                for _h in range(3):
                    syms.append("H")
                    bonds.append((c, len(syms) - 1))
                sub_idx.append(c)
            else:
                syms.append("H" if sb == "Me" else sb)
                bonds.append((0, len(syms) - 1))
                sub_idx.append(len(syms) - 1)
        shape = rng.choice([(2, 2), (2, 2), (2, 2), (2, 1), (1, 1)])
        leaving = rng.sample(sub_idx, shape[0])
        n1 = len(syms)
        mode = rng.choice(["atoms", "atoms", "molecule"])
        if mode == "atoms" or shape[1] == 1:
            ys = [rng.choice(["F", "Cl", "Br", "I", "H", "O", "N"]) for _ in range(shape[1])]
            mols = [(syms, bonds)] + [([y], []) for y in ys]
            yidx = [n1 + i for i in range(len(ys))]
        else:       # one molecule with two unsaturated atoms (peroxide / hydrazine like)
            y = rng.choice(["O", "N", "S"])
            m2s, m2b = [y, y], [(0, 1)]
            for a in (0, 1):
                for _h in range(rng.choice([0, 1])):
                    m2s.append("H")
                    m2b.append((a, len(m2s) - 1))
            mols = [(syms, bonds), (m2s, m2b)]
            yidx = [n1, n1 + 1]
        if sum(len(m[0]) for m in mols) > 12:
            continue
        bb = [(0, x) for x in leaving]
        fb = [(0, y) for y in yidx]
        case = _finish_case(rng, mols, bb, fb, "geminal")
        if case is not None:
            return case
    return None


BRIDGED = {
    "norbornane": [(0, 1), (1, 2), (2, 3), (3, 4), (4, 5), (5, 0), (0, 6), (6, 3)],
    "bicyclo[2.1.1]hexane": [(0, 1), (1, 2), (2, 3), (3, 4), (4, 0), (0, 5), (5, 3)],
    "bicyclo[3.2.1]octane": [(0, 1), (1, 2), (2, 3), (3, 4), (4, 5), (5, 6), (6, 0), (0, 7), (7, 4)],
}


def bicyclo(a, b, c):
    """bicyclo[a.b.c] skeleton: bridgeheads 0 and 1 joined by three bridges of a, b, c atoms"""
    bonds, n = [], 2
    for k in (a, b, c):
        prev = 0
        for _ in range(k):
            bonds.append((prev, n))
            prev = n
            n += 1
        bonds.append((prev, 1))
    return n, bonds


def gen_bridged(rng):
    """bridged bicyclic skeletons with unequal bridges (cycle bases of different ring sizes for different
    node / edge orders), a few substituents, substitution / dissociation edits; product relabelled and
    edge-shuffled by make_product"""
    for _ in range(50):
        if rng.random() < 0.5:
            name = rng.choice(sorted(BRIDGED))
            cc = list(BRIDGED[name])
            nc = 1 + max(max(e) for e in cc)
        else:
            a, b, c = rng.choice([(2, 2, 1), (2, 1, 1), (3, 2, 1), (3, 1, 1), (2, 2, 0), (3, 2, 0), (3, 2, 2), (3, 1, 0), (2, 1, 0)])
            nc, cc = bicyclo(a, b, c)
        syms = ["C"] * nc
        if rng.random() < 0.3:
            syms[rng.randrange(nc)] = rng.choice(["N", "Si", "B"])
        bonds = list(cc)
        deg = degrees(nc, bonds)
        room = 12 - nc
        n_sub = rng.randint(1, max(1, min(3, room - 1)))
        subs = []
        for _s in range(n_sub):
            free = [i for i in range(nc) if deg[i] < 4 - (1 if syms[i] == "N" else 0)]
            if not free or len(syms) >= 11:
                break
            at = rng.choice(free)
            syms.append(rng.choice(["Cl", "F", "H", "Br", "O"]))
            bonds.append((at, len(syms) - 1))
            deg[at] += 1
            subs.append((at, len(syms) - 1))
        if not subs:
            continue
        mols = [(syms, bonds)]
        shape = rng.choice(["1b", "1b", "1b1f", "1b1f", "2b", "2b1f", "shift"])
        bb, fb = [subs[0]], []
        n1 = len(syms)
        if shape in ("1b1f", "2b1f") and n1 < 12:
            mols.append(([rng.choice(["F", "Cl", "H", "O", "I"])], []))
            fb = [(subs[0][0], n1)]
        if shape in ("2b", "2b1f"):
            if len(subs) < 2:
                continue
            bb.append(subs[1])
        if shape == "shift":    # substituent moves to another skeleton atom
            tgt = [i for i in range(nc) if i != subs[0][0] and deg[i] < 4 and (min(i, subs[0][1]), max(i, subs[0][1])) not in norm_edges(bonds)]
            if not tgt:
                continue
            fb = [(rng.choice(tgt), subs[0][1])]
        case = _finish_case(rng, mols, bb, fb, "bridged")
        if case is not None:
            return case
    return None


def gen_atom_class(rng):
    """species whose atoms carry atom classes (Atom(..., atom_class=n)): identity substitutions and labelled
    H exchange made non-isomorphic by the classes, and ordinary edits with some classes sprinkled in"""
    for _ in range(50):
        mode = rng.choice(["sn2", "sn2", "h-exchange", "sprinkle", "sprinkle"])
        if mode == "sn2":
            x = rng.choice(["Br", "Cl", "F", "I", "O"])
            syms, bonds = ["C", x], [(0, 1)]
            for _k in range(rng.randint(0, 3)):
                syms.append(rng.choice(["H", "H", "H", "F", "C"]))
                bonds.append((0, len(syms) - 1))
            mols = [([x], []), (syms, bonds)]
            # flat: nucleophile 0, carbon 1, leaving group 2
            classes = [1, None, 2] + [None] * (len(syms) - 2)
            if rng.random() < 0.3:
                classes[1] = 3
            case = _finish_case(rng, mols, [(1, 2)], [(0, 1)], "atom-class", classes=classes)
        elif mode == "h-exchange":
            heavy = rng.choice(["C", "N", "O", "Si"])
            nh = rng.randint(1, MAXVAL[heavy])
            syms = [heavy] + ["H"] * nh
            bonds = [(0, i) for i in range(1, nh + 1)]
            mols = [(["H"], []), (syms, bonds)]
            classes = [1, None, 2] + [None] * (nh - 1)
            case = _finish_case(rng, mols, [(1, 2)], [(0, 1)], "atom-class", classes=classes)
        else:
            c0 = gen_case(rng, rng.choice([5, 7, 9]), "premise")
            if c0 is None:
                continue
            syms, edges = flat_reactant(c0["reac"])
            active = sorted({a for e in c0["bb"] + c0["fb"] for a in e})
            classes = [None] * len(syms)
            for i in range(len(syms)):
                if (i in active and rng.random() < 0.5) or rng.random() < 0.15:
                    classes[i] = rng.randint(1, 3)
            c0["reac"]["classes"] = classes
            c0["family"] = "atom-class"
            c0["prod"] = make_product(rng, syms, edges, c0["bb"], c0["fb"], classes=classes)
            case = c0
        if case is not None:
            return case
    return None


def reorder_case(rng, case):
    """the same case with the reactant re-indexed by the public Species.reorder_atoms (the graph then keeps its
    old node insertion order under new node names: nodes are NOT in ascending order)"""
    syms, _ = flat_reactant(case["reac"])
    n = len(syms)
    perm = list(range(n))
    for _ in range(5):
        rng.shuffle(perm)
        if perm != sorted(perm):
            break
    c = json.loads(json.dumps(case))
    c["reorder"] = perm
    c["bb"] = [[perm[a], perm[b]] for a, b in case["bb"]]
    c["fb"] = [[perm[a], perm[b]] for a, b in case["fb"]]
    order = list(range(n))
    for _ in range(5):
        rng.shuffle(order)
        if order != sorted(order):
            break
    c["node_order"] = order          # nodes stored out of label order whatever reorder_nodes does
    c["family"] = case.get("family", "random") + "+reordered"
    return c


def gen_sequential(rng):
    """one reactant OBJECT used twice: enumerate towards a first product, apply that (bond-count preserving)
    edit to the reactant's graph in place, then enumerate the way back.  State kept between calls must not leak."""
    for _ in range(80):
        c0 = gen_case(rng, rng.choice([4, 5, 6, 7, 8, 9]), "premise")
        if c0 is None or len(c0["bb"]) != len(c0["fb"]) or len(c0["bb"]) == 0:
            continue
        syms, edges = flat_reactant(c0["reac"])
        cls = None
        final = [e for e in norm_edges(edges) if e not in norm_edges(c0["bb"])] + norm_edges(c0["fb"])
        back_bb, back_fb = c0["fb"], c0["bb"]
        if not premise_ok(syms, final, back_bb, back_fb, MAXVAL):
            continue
        case = {"reac": c0["reac"], "kind": "premise", "family": "sequential",
                "pre": {"bb": c0["bb"], "fb": c0["fb"], "prod": make_product(rng, syms, edges, c0["bb"], c0["fb"])},
                "bb": [list(e) for e in back_bb], "fb": [list(e) for e in back_fb]}
        case["prod"] = make_product(rng, syms, final, back_bb, back_fb)
        return case
    return None


def gen_hypervalent(rng):
    """a reactant with an atom ABOVE its maximal valence (bridging H, hypervalent halogen ...) and an edit at that
    atom which does not push it any further: the max(maximal valence, degree before) half of the premise"""
    for _ in range(80):
        reac = gen_reactant(rng, rng.choice([5, 6, 7, 8, 9]))
        syms, edges = flat_reactant(reac)
        n = len(syms)
        eset = norm_edges(edges)
        deg = degrees(n, eset)
        sat = [i for i in range(n) if deg[i] == MAXVAL[syms[i]] and deg[i] >= 1]
        if not sat:
            continue
        a = rng.choice(sat)
        others = [j for j in range(n) if j != a and (min(a, j), max(a, j)) not in eset and deg[j] < MAXVAL[syms[j]]]
        if not others:
            continue
        b = rng.choice(others)
        eset = eset + [(min(a, b), max(a, b))]          # a is now one above its maximal valence
        one = {"mols": [(syms, [list(e) for e in eset])], "coords": reac["coords"]}
        deg = degrees(n, eset)
        non = [(i, j) for i in range(n) for j in range(i + 1, n) if (i, j) not in eset]
        at_a = [e for e in eset if a in e]
        non_a = [e for e in non if a in e]
        for _try in range(60):
            shape = rng.choice([(1, 1), (1, 1), (2, 2), (2, 1), (1, 0)])
            if len(at_a) < 1 or len(eset) < shape[0] or len(non) < shape[1] or (shape[1] and not non_a):
                break
            bb = [rng.choice(at_a)] + rng.sample([e for e in eset if e not in at_a] or eset, shape[0] - 1) if shape[0] > 1 else [rng.choice(at_a)]
            fb = ([rng.choice(non_a)] + rng.sample(non, shape[1] - 1)) if shape[1] else []
            if len(set(bb)) != len(bb) or len(set(fb)) != len(fb):
                continue
            if premise_ok(syms, eset, bb, fb, MAXVAL):
                case = {"reac": one, "bb": [list(e) for e in bb], "fb": [list(e) for e in fb], "kind": "premise",
                        "family": "hypervalent"}
                case["prod"] = make_product(rng, syms, eset, bb, fb)
                return case
    return None


def gen_identity(rng, small):
    """identity substitutions / exchanges WITHOUT atom classes: X + R-X -> X-R + X.  small: 3 atoms in total (the
    enumeration runs); otherwise > 3 atoms (the code returns None by design: key incomplete|identity-reaction)"""
    for _ in range(50):
        x = rng.choice(["H", "Cl", "F", "Br", "O", "I"])
        if small:
            centre = rng.choice(["H", "C", "O", "N", "Cl", "B"])
            mols = [([x], []), ([centre, x], [(0, 1)])]
        else:
            centre = rng.choice(["C", "C", "Si", "N", "B"])
            syms, bonds = [centre, x], [(0, 1)]
            for _k in range(rng.randint(1, MAXVAL[centre] - 1)):
                syms.append(rng.choice(["H", "H", "H", "F"]))
                bonds.append((0, len(syms) - 1))
            mols = [([x], []), (syms, bonds)]
        case = _finish_case(rng, mols, [(1, 2)], [(0, 1)], "identity3" if small else "identity")
        if case is not None:
            return case
    return None


RARE_PATTERNS = ["(1,2)(1,0)", "(2,1)(0,1)", "(2,2)", "(1,1)(1,1)", "(2,0)(0,2)", "(1,0)(1,0)(0,2)", "(2,0)(0,1)(0,1)",
                 "(2,1)", "(1,1)(1,0)(0,1)", "(1,1)(1,0)"]


def gen_pattern(rng, target):
    """a premise edit whose breaking / forming bonds distribute over the bond types as `target` (type_pattern): every
    branch of the get_fbonds_bbonds_* case analysis is hit on every run, not by seed luck"""
    pairs = [tuple(int(v) for v in t.strip("()").split(",")) for t in target.replace(")(", ")|(").split("|")]
    nb, nf = sum(a for a, _ in pairs), sum(b for _, b in pairs)
    for _ in range(400):
        reac = gen_reactant(rng, rng.choice([5, 6, 7, 8, 9]))
        syms, edges = flat_reactant(reac)
        n = len(syms)
        eset = norm_edges(edges)
        non = [(i, j) for i in range(n) for j in range(i + 1, n) if (i, j) not in eset]
        if len(eset) < nb or len(non) < nf:
            continue
        for _try in range(40):
            bb, fb = rng.sample(eset, nb), rng.sample(non, nf)
            if type_pattern(syms, bb, fb) == target and premise_ok(syms, eset, bb, fb, MAXVAL):
                # the product must NOT be reachable by the function that is tried first (1b1f before 2b2f, 1b before
                # 2b1f), otherwise the targeted branch never runs
                new = [e for e in eset if e not in norm_edges(bb)] + norm_edges(fb)
                hp = nx_graph(syms, new)
                small_b, small_f = nb - 1, nf - 1
                if nb == 2 and any(nx_iso(nx_graph(syms, [e for e in eset if e not in b1] + list(f1)), hp)
                                   for b1 in itertools.combinations(eset, small_b)
                                   for f1 in itertools.combinations(non, small_f)):
                    continue
                case = {"reac": reac, "bb": [list(e) for e in bb], "fb": [list(e) for e in fb], "kind": "premise",
                        "family": "pattern"}
                case["prod"] = make_product(rng, syms, edges, bb, fb)
                return case
    return None


def gen_h_transfer(rng):
    """H (or X) transfer to an open-valence atom A that sits next to a B-H of its own molecule, from a B-H of a second
    molecule:  .A-B-H + R-B-H -> H-A-B. ... : the intermolecular transfer (active atoms in NO ring) competes with the
    intramolecular 1,2-shift (3-membered ring) with the same active elements - the size-0 boundary of the ring lists
    in prune_small_ring_rearrs"""
    for _ in range(40):
        a = rng.choice(["C", "C", "N", "Si"])
        b = rng.choice(["O", "O", "N", "S", "C"])
        x = rng.choice(["H", "H", "H", "F", "Cl"])
        syms1, bonds1 = [a, b], [(0, 1)]
        for _k in range(max(0, CHEM_VAL.get(a, 4) - 2)):
            syms1.append("H")
            bonds1.append((0, len(syms1) - 1))
        syms1.append(x)
        bonds1.append((1, len(syms1) - 1))
        for _k in range(max(0, CHEM_VAL[b] - 2)):
            syms1.append("H")
            bonds1.append((1, len(syms1) - 1))
        syms2, bonds2 = ["C", b], [(0, 1)]
        for _k in range(rng.randint(0, 3)):
            syms2.append("H")
            bonds2.append((0, len(syms2) - 1))
        syms2.append(x)
        x2 = len(syms2) - 1
        bonds2.append((1, x2))
        for _k in range(max(0, CHEM_VAL[b] - 2)):
            syms2.append("H")
            bonds2.append((1, len(syms2) - 1))
        n1 = len(syms1)
        if n1 + len(syms2) > 12:
            continue
        case = _finish_case(rng, [(syms1, bonds1), (syms2, bonds2)], [(n1 + 1, n1 + x2)], [(0, n1 + x2)], "h-transfer")
        if case is not None:
            return case
    return None


# ============================================================================ implementation runner (worker side)
class _QueryCap(Exception):
    pass


def _build(case):
    """ade objects for a case: reactant (Species or ReactantComplex) and product (Species)"""
    import autode as ade
    from autode.atoms import Atom
    from autode.mol_graphs import make_graph
    from autode.species.complex import ReactantComplex
    coords = case["reac"]["coords"]
    rcls = flat_classes(case["reac"])
    mols, off = [], 0
    for k, (syms, bonds) in enumerate(case["reac"]["mols"]):
        atoms = [Atom(s, *coords[off + i], atom_class=rcls[off + i]) for i, s in enumerate(syms)]
        m = ade.Species(name=f"r{k}", atoms=atoms, charge=0, mult=1)
        make_graph(m, bond_list=[tuple(b) for b in bonds])
        mols.append(m)
        off += len(syms)
    reactant = mols[0] if len(mols) == 1 and not case.get("force_complex") else ReactantComplex(*mols, name="rc")

    def mk_product(p, name):
        pcls = p.get("classes") or [None] * len(p["syms"])
        patoms = [Atom(s, *[round(0.37 * i + 0.11 * j * j, 3) for j in range(3)], atom_class=pcls[i])
                  for i, s in enumerate(p["syms"])]
        if p.get("as_complex"):
            # the production type for dissociations / substitutions: one Species per connected component
            import networkx as nx
            from autode.species.complex import ProductComplex
            g = nx.Graph()
            g.add_nodes_from(range(len(patoms)))
            g.add_edges_from([tuple(b) for b in p["bonds"]])
            parts = []
            for k, comp in enumerate(sorted(nx.connected_components(g), key=min)):
                idx = sorted(comp)
                sp = ade.Species(name=f"{name}{k}", atoms=[patoms[i] for i in idx], charge=0, mult=1)
                make_graph(sp, bond_list=[(idx.index(a), idx.index(b)) for a, b in p["bonds"] if a in comp])
                parts.append(sp)
            return ProductComplex(*parts, name=name)
        prod = ade.Species(name=name, atoms=patoms, charge=0, mult=1)
        make_graph(prod, bond_list=[tuple(b) for b in p["bonds"]])
        return prod

    pre = case.get("pre")
    if pre:
        # sequential use of ONE reactant object: enumerate against a first product, then apply that edit to the
        # reactant's graph in place (stepping along a mechanism) before the measured call
        from autode import bond_rearrangement as br
        br.get_bond_rearrangs(reactant, mk_product(pre["prod"], "w"), name="warm", save=False)
        for a, b in pre["fb"]:
            reactant.graph.add_edge(a, b, pi=False, active=False)
        for a, b in pre["bb"]:
            reactant.graph.remove_edge(a, b)
    perm = case.get("reorder")
    if perm:
        reactant.reorder_atoms({i: perm[i] for i in range(len(perm))})
    order = case.get("node_order")
    if order:
        # the same graph (labels, attributes, edges) with its nodes STORED in a different order, as e.g.
        # truncation.get_truncated_species or a hand-built MolecularGraph produce: node names != iteration positions
        old = reactant.graph
        g = old.__class__()
        for i in order:
            g.add_node(i, **old.nodes[i])
        for a, b, d in old.edges(data=True):
            g.add_edge(a, b, **d)
        reactant.graph = g
    product = mk_product(case["prod"], "p")
    return reactant, product


def run_impl(case, workdir, cap):
    """Run get_bond_rearrangs on the real code with is_isomorphic / pruning wrapped.  -> result dict"""
    sys.path.insert(0, REPO)
    import autode as ade
    from autode import bond_rearrangement as br
    from autode import mol_graphs as mg
    from autode.config import Config
    res = {"ok": True}
    os.makedirs(workdir, exist_ok=True)
    cwd = os.getcwd()
    orig_iso, orig_strip, orig_prune = br.is_isomorphic, br.strip_equiv_bond_rearrs, br.prune_small_ring_rearrs
    old_skip = Config.skip_small_ring_tss
    try:
        os.chdir(workdir)
        reactant, product = _build(case)
        labels = sorted(set(a.label for a in reactant.atoms) | set(a.label for a in product.atoms))
        res["labels"] = labels
        res["mv"] = [ade.Atom(s).maximal_valance for s in labels]
        res["r_nodes"] = list(reactant.graph.nodes)
        res["r_labs"] = [labels.index(reactant.graph.nodes[i]["atom_label"]) for i in sorted(reactant.graph.nodes)]
        res["r_atom_labs"] = [labels.index(a.label) for a in reactant.atoms]
        res["r_atom_syms"] = [a.label for a in reactant.atoms]
        res["r_cls"] = [cls_code(reactant.graph.nodes[i].get("atom_class")) for i in sorted(reactant.graph.nodes)]
        res["r_atom_cls"] = [cls_code(a.atom_class) for a in reactant.atoms]
        res["r_edges"] = [list(e) for e in reactant.graph.edges]
        res["p_nodes"] = list(product.graph.nodes)
        res["p_labs"] = [labels.index(product.graph.nodes[i]["atom_label"]) for i in product.graph.nodes]
        res["p_cls"] = [cls_code(product.graph.nodes[i].get("atom_class")) for i in product.graph.nodes]
        res["p_edges"] = [list(e) for e in product.graph.edges]
        res["p_natoms"] = product.n_atoms
        runs = {}
        for skip in (False, True):
            log, cap_state = [], {"strip_in": None, "prune_in": None, "prune_out": None}

            def iso(g1, g2, *a, **k):
                if len(log) >= cap:
                    raise _QueryCap()
                t0 = time.time()
                ans = orig_iso(g1, g2, *a, **k)
                log.append({"edges": norm_edges(g1.edges), "ans": bool(ans), "t": time.time() - t0,
                            "second_is_product": g2 is product.graph, "extra_args": bool(a or k),
                            "nodes_ok": list(g1.nodes) == list(reactant.graph.nodes),
                            "attrs_ok": all(g1.nodes[i].get("atom_label", "C") == reactant.atoms[i].label and
                                            g1.nodes[i].get("atom_class") == reactant.atoms[i].atom_class
                                            for i in g1.nodes if i < reactant.n_atoms)})
                return ans

            def strip(brs, mol, *a, **k):
                cap_state["strip_in"] = [([list(e) for e in b.fbonds], [list(e) for e in b.bbonds]) for b in brs]
                cap_state["strip_mol_is_reactant"] = mol is reactant
                return orig_strip(brs, mol, *a, **k)

            def prune(brs, mol, *a, **k):
                cap_state["prune_in"] = [([list(e) for e in b.fbonds], [list(e) for e in b.bbonds]) for b in brs]
                r = orig_prune(brs, mol, *a, **k)
                cap_state["prune_out"] = [([list(e) for e in b.fbonds], [list(e) for e in b.bbonds]) for b in brs]
                return r

            br.is_isomorphic, br.strip_equiv_bond_rearrs, br.prune_small_ring_rearrs = iso, strip, prune
            Config.skip_small_ring_tss = skip
            name = f"case_{int(skip)}"
            for f in os.listdir("."):
                os.remove(f)
            run = {"skip": skip}
            try:
                out = br.get_bond_rearrangs(reactant, product, name=name, save=True)
                run["outcome"] = None if out is None else [([list(e) for e in b.fbonds], [list(e) for e in b.bbonds]) for b in out]
                run["types_ok"] = out is None or all(
                    isinstance(b, br.BondRearrangement) and all(isinstance(e, tuple) and len(e) == 2 for e in b.fbonds + b.bbonds)
                    for b in out)
                if out is not None:
                    fn = f"{name}_BRs.txt"
                    run["saved_exists"] = os.path.exists(fn)
                    if run["saved_exists"]:
                        run["saved_text"] = open(fn).read()
                        back = br.get_bond_rearrangs_from_file(fn)
                        run["reload_equal"] = (back == out) and len(back) == len(out) and all(
                            x.fbonds == y.fbonds and x.bbonds == y.bbonds for x, y in zip(back, out))
                        run["reload"] = [([list(e) for e in b.fbonds], [list(e) for e in b.bbonds]) for b in back]
                    run["files"] = sorted(os.listdir("."))
                    if len(log) <= 40:
                        # same name again, with whatever the first call left on disk: must give equal objects
                        br.is_isomorphic, br.strip_equiv_bond_rearrs, br.prune_small_ring_rearrs = orig_iso, orig_strip, orig_prune
                        try:
                            again = br.get_bond_rearrangs(reactant, product, name=name, save=True)
                            run["second_call_equal"] = again is not None and again == out
                            run["second_call"] = None if again is None else [([list(e) for e in b.fbonds], [list(e) for e in b.bbonds]) for b in again]
                        except Exception as e:  # noqa
                            run["second_call_equal"] = False
                            run["second_call"] = f"{type(e).__name__}: {e}"
            except _QueryCap:
                run["cap"] = True
            except KeyError as e:
                run["outcome"] = "KeyError"
                run["exc"] = repr(e)
            except IndexError as e:
                run["outcome"] = "IndexError"
                run["exc"] = repr(e)
            except Exception as e:  # noqa
                run["outcome"] = "Exception"
                run["exc"] = f"{type(e).__name__}: {e}"
            run["log"] = log
            run["strip_in"] = cap_state["strip_in"]
            run["prune_in"] = cap_state["prune_in"]
            run["prune_out"] = cap_state["prune_out"]
            run["strip_mol_is_reactant"] = cap_state.get("strip_mol_is_reactant")
            # pruning oracles for every rearrangement in the list before pruning
            pre = cap_state["strip_in"]
            if pre is not None:
                br.is_isomorphic, br.strip_equiv_bond_rearrs, br.prune_small_ring_rearrs = orig_iso, orig_strip, orig_prune
                keys, nlc, rings = [], [], []
                for fb, bb in pre:
                    b = br.BondRearrangement(forming_bonds=[tuple(e) for e in fb], breaking_bonds=[tuple(e) for e in bb])
                    k = b.get_active_atom_neighbour_lists(species=reactant, depth=6)
                    if k not in keys:
                        keys.append(k)
                    nlc.append(keys.index(k) + 1)
                    rings.append([int(x) for x in b.n_membered_rings(reactant)])
                run["nl_class"], run["rings"] = nlc, rings
            runs[str(int(skip))] = run
            if run.get("cap"):
                break
        res["runs"] = runs
    except Exception as e:  # noqa
        import traceback
        res["ok"] = False
        res["error"] = traceback.format_exc()
    finally:
        br.is_isomorphic, br.strip_equiv_bond_rearrs, br.prune_small_ring_rearrs = orig_iso, orig_strip, orig_prune
        Config.skip_small_ring_tss = old_skip
        os.chdir(cwd)
        shutil.rmtree(workdir, ignore_errors=True)
    return res


def _worker(args):
    case, workdir, cap = args
    return run_impl(case, workdir, cap)


# ============================================================================ independent oracles (networkx only)
def nx_graph(syms, edges, classes=None):
    import networkx as nx
    g = nx.Graph()
    for i, s in enumerate(syms):
        g.add_node(i, el=s, cls=(classes[i] if classes else None))
    g.add_edges_from([tuple(e) for e in edges])
    return g


def nx_iso(g, h):
    import networkx as nx
    # element AND atom class, as the package's node matcher (mol_graphs.py:109-116)
    return nx.is_isomorphic(g, h, node_match=lambda a, b: a["el"] == b["el"] and a["cls"] == b["cls"])


def check_sound(case, outcome):
    """Every returned rearrangement: bbonds in E_r, fbonds not in E_r, applied graph isomorphic to product."""
    syms, edges, rcls = view(case)
    eset = set(norm_edges(edges))
    hp = nx_graph(case["prod"]["syms"], case["prod"]["bonds"], case["prod"].get("classes"))
    problems = []
    for fb, bb in outcome:
        fbn, bbn = norm_edges(fb), norm_edges(bb)
        if any(e not in eset for e in bbn):
            problems.append(f"breaking bond not present in the reactant: bbonds={bb}")
        if any(e in eset for e in fbn) or any(a == b for a, b in fbn):
            problems.append(f"forming bond already present in the reactant (or a self loop): fbonds={fb}")
        if len(set(fbn)) != len(fbn) or len(set(bbn)) != len(bbn):
            problems.append(f"duplicate bond in rearrangement fbonds={fb} bbonds={bb}")
        new = [e for e in eset if e not in bbn] + [e for e in fbn if e not in eset]
        if not nx_iso(nx_graph(syms, new, rcls), hp):
            problems.append(f"applying fbonds={fb} bbonds={bb} to the reactant does not give the product graph")
    return problems


# ============================================================================ the check
def term_for(case, res, run0, run1):
    """Coq bool term comparing model and implementation for one case (both skip settings)."""
    tbl = "[" + ";".join(f"({c_edges(q['edges'])},{coq_bool(q['ans'])})" for q in run0["log"]) + "]"
    pre = run0["strip_in"]
    if pre is None:
        pre_out = run0["outcome"]
        nlt, ringt = "[]", "[]"
    else:
        pre_out = pre
        nlt = "[" + ";".join(f"({c_rearr(b)},{k})" for b, k in zip(pre, run0["nl_class"])) + "]"
        ringt = "[" + ";".join(f"({c_rearr(b)},{c_nats(r)})" for b, r in zip(pre, run0["rings"])) + "]"
    common = (f"{c_nats(res['r_nodes'])} {c_nats(res['r_labs'])} {c_nats(res['r_cls'])} {c_edges(res['r_edges'])} "
              f"{c_nats(res['p_nodes'])} {c_nats(res['p_labs'])} {c_nats(res['p_cls'])} {c_edges(res['p_edges'])} "
              f"{c_nats(res['mv'])} {tbl} {nlt} {ringt}")
    return f"check_case {common} {c_outcome(pre_out)} {c_outcome(run0['outcome'])} {c_outcome(run1['outcome'])}"


def analyse(ctx, idx, case, res, terms, descr, stats, findings):
    """Implementation-side oracles for one case + build the Coq term.  findings: list collecting (key, what, replay)."""
    def fail(key, what):
        findings.append((key, what, {"kind": "case", "case": case}))

    stream = "premise" if case["kind"] == "premise" else "out-of-premise"
    if not res.get("ok"):
        fail("harness-build", "could not build/run the case on the implementation: " + res.get("error", "")[-400:])
        return
    r0, r1 = res["runs"].get("0"), res["runs"].get("1")
    if r0 is None or r0.get("cap") or r1 is None or r1.get("cap"):
        stats["cap_discarded"] += 1
        ctx.hist(stream, "discarded:query-cap")
        return
    n_to = sum(1 for q in r0["log"] + r1["log"] if q["t"] >= ISO_TIMEOUT_S and not q["ans"])
    if n_to:
        # a timed-out is_isomorphic answers False; the case is KEPT: a wrong False is reported by the Hiso
        # validation below (and, if it costs the only rearrangement, by `incomplete`)
        stats["timeout_discarded"] += 0
        stats["iso_timeouts"] = stats.get("iso_timeouts", 0) + n_to
        ctx.hist(stream, "iso-timeout-answers")
    # the wrapped calls were what the model assumes
    for r in (r0, r1):
        if any((not q["second_is_product"]) or q["extra_args"] or (not q["nodes_ok"]) for q in r["log"]):
            fail("iso-call-shape", "is_isomorphic was not called as (graph on the reactant's nodes, product.graph)")
            return
        if any(not q["attrs_ok"] for q in r["log"]):
            fail("rearranged-graph-attributes", "a graph passed to is_isomorphic does not carry the reactant's atom_label / "
                 "atom_class node attributes (the node matcher compares both)")
    if [(q["edges"], q["ans"]) for q in r0["log"]] != [(q["edges"], q["ans"]) for q in r1["log"]]:
        fail("nondeterministic", "the sequence of isomorphism queries differs between two runs of the same input")
        return
    syms, edges, rcls = view(case)
    n = len(syms)
    if sorted(res["r_nodes"]) != list(range(n)) or res["p_nodes"] != list(range(len(res["p_nodes"]))) \
            or res["r_labs"] != res["r_atom_labs"] or res["r_cls"] != res["r_atom_cls"] \
            or res["r_atom_syms"] != syms or res["r_atom_cls"] != [cls_code(c) for c in rcls] \
            or norm_edges(res["r_edges"]) != norm_edges(edges):
        fail("node-order", "the reactant handed to get_bond_rearrangs is not the described one (atoms / node names / "
             "node attributes / bonds after the optional in-place edit and reorder_atoms)")
        return
    if case.get("reorder") or case.get("node_order"):
        ctx.hist(stream, "reactant-nodes-" + ("in-order" if res["r_nodes"] == list(range(n)) else "out-of-order"))
    nq = len(r0["log"])
    ctx.hist(stream, "family=" + case.get("family", "random"))
    ctx.hist(stream, f"atoms={len(syms)}")
    ctx.hist(stream, f"edit={len(case['bb'])}b{len(case['fb'])}f")
    ctx.hist(stream, "mols=%d" % len(case["reac"]["mols"]))
    d0 = degrees(n, edges)
    if any(d0[i] > MAXVAL.get(syms[i], 6) for i in range(n)):
        ctx.hist(stream, "reactant-has-atom-above-maximal-valence")
    if case["prod"].get("as_complex"):
        ctx.hist(stream, "product-is-ProductComplex")
    if case["kind"] == "premise":
        ctx.hist(stream, "type-pattern(nb,nf per bond type)=" + type_pattern(syms, case["bb"], case["fb"]))
    # Hiso, the premise of the theorems: every logged answer of is_isomorphic(graph, product.graph) is validated
    # against networkx's own isomorphism with element + atom_class node match on independently built graphs
    hp = nx_graph(case["prod"]["syms"], case["prod"]["bonds"], case["prod"].get("classes"))
    for q in r0["log"]:
        stats["hiso_checked"] = stats.get("hiso_checked", 0) + 1
        if q["ans"] != nx_iso(nx_graph(syms, q["edges"], rcls), hp):
            fail("Hiso:is_isomorphic-disagrees-with-networkx",
                 f"is_isomorphic answered {q['ans']} for the reactant atoms with bonds {q['edges']} against the product; "
                 f"networkx isomorphism with element + atom_class matching says {not q['ans']}")
            break
    r_iso_p = nx_iso(nx_graph(syms, edges, rcls), hp)
    for r in (r0, r1):
        out = r["outcome"]
        tag = f"skip_small_ring_tss={r['skip']}"
        if out == "Exception":
            fail("raises", f"get_bond_rearrangs raised {r['exc']} ({tag})")
            continue
        if isinstance(out, list):
            if len(out) == 0:
                fail("empty-list", f"get_bond_rearrangs returned an empty list ({tag})")
            for pb in check_sound(case, out):
                fail("unsound", f"{pb} ({tag})")
            if not r.get("types_ok"):
                fail("types", f"returned objects are not BondRearrangements of int pairs ({tag})")
            if not r.get("saved_exists"):
                fail("not-saved", f"save=True wrote no file ({tag}); files: {r.get('files')}")
            elif not r.get("reload_equal"):
                fail("reload-differs", f"rearrangements reloaded from the saved file differ: saved {out}, reloaded {r.get('reload')} ({tag})")
            pre = r["strip_in"]
            if pre is not None and len(pre) > 0 and len(out) == 0:
                fail("pruned-to-empty", f"pruning removed every rearrangement: before {pre} ({tag})")
            if pre is not None and any(b not in pre for b in out):
                fail("prune-invents", f"pruning returned a rearrangement not in the list before pruning ({tag})")
            if pre is None and len(out) > 1:
                fail("prune-skipped", f"{len(out)} rearrangements returned without the pruning step ({tag})")
            if not r["skip"] and r["prune_in"] is not None and r["prune_in"] != r["prune_out"]:
                fail("prune-when-disabled", "prune_small_ring_rearrs removed entries although skip_small_ring_tss is False")
        # completeness.  The property: whenever the product differs from the reactant by such an edit the
        # enumeration is non-empty.  Proved (rearrs_complete_partial) when the product is not isomorphic to the
        # reactant or has <= 3 atoms; for an identity reaction with > 3 atoms the code returns None by design
        # (bond_rearrangement.py:39-45, rearrs_complete_identity_refuted): reported under its own narrow key.
        if case["kind"] == "premise" and len(case["bb"]) > 0 and out != "Exception":
            empty = not isinstance(out, list) or len(out) == 0
            if (not r_iso_p) or n <= 3:
                if empty:
                    fail("incomplete", f"edit bbonds={case['bb']} fbonds={case['fb']} satisfies the premise"
                         + (" and the product is not isomorphic to the reactant" if not r_iso_p else " (3-atom identity reaction)")
                         + f", but get_bond_rearrangs returned {out!r} ({tag})")
            elif empty:
                fail("incomplete|identity-reaction", f"identity reaction (product isomorphic to the reactant, {n} > 3 atoms): edit "
                     f"bbonds={case['bb']} fbonds={case['fb']} satisfies the premise, get_bond_rearrangs returned {out!r} "
                     f"(early return bond_rearrangement.py:39-45)")
        if isinstance(out, list) and r.get("second_call_equal") is False:
            fail("second-call-differs", f"calling get_bond_rearrangs again with the same name (files of the first call present) "
                 f"gave {r.get('second_call')!r}, first call {out!r} ({tag})")
    if r0["outcome"] == "Exception" or r1["outcome"] == "Exception":
        return
    terms.append(term_for(case, res, r0, r1))
    descr.append({"i": idx, "case": case})
    n_out = len(r0["outcome"]) if isinstance(r0["outcome"], list) else -1
    n_pre = len(r0["strip_in"]) if r0["strip_in"] is not None else n_out
    ctx.hist(stream, "queries<=1" if nq <= 1 else "queries<=10" if nq <= 10 else "queries<=100" if nq <= 100 else "queries>100")
    ctx.hist(stream, f"result={'None' if r0['outcome'] is None else r0['outcome'] if isinstance(r0['outcome'], str) else 'list'}")
    if n_pre > 1:
        ctx.hist(stream, "pruning-ran")
        if n_out < n_pre:
            ctx.hist(stream, "strip/prune-removed-some")
        if isinstance(r1["outcome"], list) and len(r1["outcome"]) < n_out:
            ctx.hist(stream, "small-ring-prune-removed-some")
    key = (json.dumps(case["reac"]["mols"]), json.dumps(case["bb"]), json.dumps(case["fb"]), json.dumps(case["prod"]["perm"]),
           json.dumps(case["reac"].get("classes")), json.dumps(case.get("reorder")), json.dumps(case.get("node_order")), bool(case.get("pre")))
    ctx.count(stream, key, nontrivial=(nq > 1),
              sample={"reactant": case["reac"]["mols"], "bbonds": case["bb"], "fbonds": case["fb"],
                      "result": r0["outcome"], "n_iso_queries": nq})
    stats["queries"] += nq
    if isinstance(r0.get("saved_text"), str):
        stats["saved"].append((r0["outcome"], r0["saved_text"]))


def prune_stream(ctx, rng, n_cases, terms, descr, findings):
    """strip_equiv_bond_rearrs + prune_small_ring_rearrs on random rearrangement lists of a random reactant
    (oracle values taken from the implementation), both settings of skip_small_ring_tss."""
    sys.path.insert(0, REPO)
    from autode import bond_rearrangement as br
    from autode.config import Config
    old = Config.skip_small_ring_tss
    try:
        for k in range(n_cases):
            reac = gen_reactant(rng, 9)
            syms, edges = flat_reactant(reac)
            if len(edges) < 1:
                continue
            n = len(syms)
            case = {"reac": reac, "prod": {"syms": syms, "bonds": [list(e) for e in edges], "perm": list(range(n))}}
            reactant, _ = _build(case)
            eset = norm_edges(edges)
            non = [(i, j) for i in range(n) for j in range(i + 1, n) if (i, j) not in eset]
            brs = []
            for _ in range(rng.randint(2, 7)):
                nb, nf = rng.randint(0, min(2, len(eset))), rng.randint(0, min(2, len(non)))
                if nb + nf == 0:
                    nb = 1
                fb, bb = sorted(rng.sample(non, nf)), sorted(rng.sample(eset, nb))
                if (fb, bb) not in brs:
                    brs.append((fb, bb))
            if len(brs) < 2:
                continue
            objs = [br.BondRearrangement(forming_bonds=list(fb), breaking_bonds=list(bb)) for fb, bb in brs]
            keys, nlc, rings = [], [], []
            for b in objs:
                kk = b.get_active_atom_neighbour_lists(species=reactant, depth=6)
                if kk not in keys:
                    keys.append(kk)
                nlc.append(keys.index(kk) + 1)
                rings.append([int(x) for x in b.n_membered_rings(reactant)])
            labels = sorted(set(syms))
            labs = [labels.index(s) for s in syms]
            r_edges = [list(e) for e in reactant.graph.edges]
            for skip in (False, True):
                Config.skip_small_ring_tss = skip
                try:
                    lst = br.strip_equiv_bond_rearrs(list(objs), reactant)
                    br.prune_small_ring_rearrs(lst, reactant)
                except Exception as e:  # noqa
                    findings.append(("prune-raises", f"pruning {brs} (ring sizes {rings}, skip_small_ring_tss={skip}) raised "
                                     f"{type(e).__name__}: {e}", {"kind": "prune", "reac": reac, "brs": brs, "skip": skip}))
                    continue
                out = [(list(b.fbonds), list(b.bbonds)) for b in lst]
                if len(out) == 0:
                    findings.append(("pruned-to-empty", f"pruning removed every rearrangement of {brs} (skip={skip})",
                                     {"kind": "prune", "reac": reac, "brs": brs, "skip": skip}))
                nlt = "[" + ";".join(f"({c_rearr(b)},{c})" for b, c in zip(brs, nlc)) + "]"
                ringt = "[" + ";".join(f"({c_rearr(b)},{c_nats(r)})" for b, r in zip(brs, rings)) + "]"
                terms.append(f"check_prune {c_nats(list(range(n)))} {c_nats(labs)} {c_edges(r_edges)} {c_rearrs(brs)} {nlt} {ringt} {coq_bool(skip)} {c_rearrs(out)}")
                descr.append({"kind": "prune", "reac": reac, "brs": brs, "skip": skip, "impl": out})
                ctx.count("prune", (json.dumps(reac["mols"]), json.dumps(brs), skip), nontrivial=(len(out) < len(brs)),
                          sample={"brs": brs, "rings": rings, "nl_class": nlc, "skip": skip, "kept": out})
                ctx.hist("prune", "removed-some" if len(out) < len(brs) else "kept-all")
    finally:
        Config.skip_small_ring_tss = old


def codes(s):
    """Coq string literal of an ASCII text (raw newlines / tabs are allowed inside Coq strings)"""
    assert all((32 <= ord(c) < 127) or c in "\n\t\r" for c in s), repr(s)
    return '"' + s.replace('"', '""') + '"%string'


def saveload_stream(ctx, rng, n_cases, saved_from_runs, terms, descr, findings):
    """save_bond_rearrangs_to_file / get_bond_rearrangs_from_file against the model's save/load, on the
    texts written by the enumeration runs, on random rearrangement lists and on malformed texts."""
    sys.path.insert(0, REPO)
    from autode import bond_rearrangement as br
    wd = os.path.join(ctx.work, "saveload")
    os.makedirs(wd, exist_ok=True)
    fn = os.path.join(wd, "x_BRs.txt")
    for out, text in saved_from_runs[:40]:
        terms.append(f"check_save {c_rearrs(out)} {codes(text)}")
        descr.append({"kind": "save", "brs": out, "text": text})
        ctx.count("save-load", ("run", text), nontrivial=True)
    for k in range(n_cases):
        brs = []
        for _ in range(rng.randint(0, 4)):
            mk = lambda: [(rng.randint(0, 30), rng.randint(0, 120)) for _ in range(rng.choice([0, 1, 1, 2, 2, 3]))]
            brs.append((mk(), mk()))
        objs = [br.BondRearrangement(forming_bonds=list(f), breaking_bonds=list(b)) for f, b in brs]
        br.save_bond_rearrangs_to_file(objs, filename=fn)
        text = open(fn).read()
        back = br.get_bond_rearrangs_from_file(fn)
        got = [(list(b.fbonds), list(b.bbonds)) for b in back]
        if not (back == objs and got == [(list(f), list(b)) for f, b in brs]):
            findings.append(("reload-differs", f"saved {brs} reloaded as {got}", {"kind": "saveload", "brs": brs}))
        terms.append(f"(check_save {c_rearrs(brs)} {codes(text)} && check_load {codes(text)} (inl {c_rearrs(got)}))")
        descr.append({"kind": "save+load", "brs": brs, "text": text})
        ctx.count("save-load", ("rt", json.dumps(brs)), nontrivial=len(brs) > 0, sample={"brs": brs, "text": text})
    # malformed / foreign texts: the loader against the model; and the same texts as a pre-existing
    # {name}_bond_rearrangs.txt, which get_bond_rearrangs returns instead of enumerating (bond_rearrangement.py:36-37)
    # digit pieces end in white space so that digit runs stay short (the model parses into unary nat)
    alphabet = ["fbonds", "bbonds", "end", "1 ", "22 ", "0\n", "007 ", " ", " ", "\n", "\n", "x", "fb", "ends", "\t", "3 4\n", "5 6\n",
                "12\t7\n", "fbonds\n", "bbonds\n", "end\n",
                "\r", "\r\n", "1\r2\n", "+1 ", "+", "-3 ", "-0 ", "1_0 ", "_1 ", "1__0 ", "1_ ", "+1_2\n", "4 -5\n"]

    def expect_of(call):
        try:
            back = call()
            pairs = [(list(b.fbonds), list(b.bbonds)) for b in back]
            if any(x < 0 for f, b in pairs for e in f + b for x in e):
                return "(inr NegIndex)", "negative"
            return f"(inl {c_rearrs(pairs)})", "parsed"
        except ValueError:
            return "(inr ValueErr)", "ValueError"

    import autode as ade
    from autode.mol_graphs import make_graph
    h2 = ade.Species(name="h2", atoms=[ade.Atom("H"), ade.Atom("H", x=0.7)], charge=0, mult=1)
    make_graph(h2, bond_list=[(0, 1)])
    hh = ade.Species(name="hh", atoms=[ade.Atom("H"), ade.Atom("H", x=3.7)], charge=0, mult=1)
    make_graph(hh, bond_list=[])
    cwd = os.getcwd()
    for k in range(n_cases):
        text = "".join(rng.choice(alphabet) for _ in range(rng.randint(0, 14)))
        with open(fn, "w", newline="") as f:
            f.write(text)
        try:
            exp, cls = expect_of(lambda: br.get_bond_rearrangs_from_file(fn))
        except Exception as e:  # noqa
            findings.append(("load-raises", f"get_bond_rearrangs_from_file raised {type(e).__name__} on {text!r}",
                             {"kind": "load", "text": text}))
            continue
        if cls != "negative" and "-" in text:
            # the model stops at the first negative index (outside its nat domain); Python goes on and may raise
            # later or drop the unfinished block
            ctx.hist("save-load", "skipped:negative-index-not-in-result")
            continue
        terms.append(f"check_load {codes(text)} {exp}")
        descr.append({"kind": "load-malformed", "text": text, "impl": exp})
        ctx.count("save-load", ("mal", text), nontrivial=True)
        ctx.hist("save-load", "malformed:" + cls)
        if k % 3 == 0:
            try:
                os.chdir(wd)
                with open("cached_bond_rearrangs.txt", "w", newline="") as f:
                    f.write(text)
                exp2, cls2 = expect_of(lambda: br.get_bond_rearrangs(h2, hh, name="cached", save=False))
                if cls2 != "negative" and "-" in text:
                    continue
            except Exception as e:  # noqa
                findings.append(("raises", f"get_bond_rearrangs with a pre-existing cached_bond_rearrangs.txt raised "
                                 f"{type(e).__name__} on {text!r}", {"kind": "load", "text": text}))
                continue
            finally:
                if os.path.exists(os.path.join(wd, "cached_bond_rearrangs.txt")):
                    os.remove(os.path.join(wd, "cached_bond_rearrangs.txt"))
                os.chdir(cwd)
            terms.append(f"check_cached {codes(text)} {exp2}")
            descr.append({"kind": "cached-file", "text": text, "impl": exp2})
            ctx.count("save-load", ("cached", text), nontrivial=True)
            ctx.hist("save-load", "cached-file:" + cls2)
    shutil.rmtree(wd, ignore_errors=True)


def build_cases(ctx):
    rng = ctx.rng
    quick = ctx.quick
    cases = []
    n_prem = 130 if quick else 2000
    for i in range(n_prem):
        ma = rng.choice([4, 6, 7, 8, 9, 10, 12]) if quick else rng.choice([4, 6, 8, 9, 10, 11, 12, 12])
        c = gen_case(rng, ma, "premise")
        if c is None:
            continue
        syms, edges = flat_reactant(c["reac"])
        c["prod"] = make_product(rng, syms, edges, c["bb"], c["fb"])
        cases.append(c)
    for kind, n in (("overvalent", 30), ("big", 12), ("gain", 8), ("foreign", 8), ("identity", 10)):
        for i in range(n if quick else 4 * n):
            c = gen_case(rng, 8, kind)
            if c is None:
                continue
            syms, edges = flat_reactant(c["reac"])
            c["prod"] = make_product(rng, syms, edges, c["bb"], c["fb"], extra=("foreign-element" if kind == "foreign" else None))
            cases.append(c)
    # directed families (DESIGN K / round-2 seeded defects): saturated centre in both breaking and both forming
    # bonds; bridged bicyclic skeletons; atom-class labelled species
    for gen, n in ((gen_geminal, 22), (gen_bridged, 36), (gen_atom_class, 28)):
        for i in range(n if quick else 8 * n):
            c = gen(rng)
            if c is not None:
                cases.append(c)
    for gen, nq, nt in ((gen_sequential, 18, 150), (gen_hypervalent, 22, 180), (gen_h_transfer, 10, 80),
                        (lambda r: gen_identity(r, True), 6, 40), (lambda r: gen_identity(r, False), 4, 30)):
        for i in range(nq if quick else nt):
            c = gen(rng)
            if c is not None:
                cases.append(c)
    for target in RARE_PATTERNS:
        # the two patterns served by a single sub-loop of get_fbonds_bbonds_2b2f get more cases: their products
        # are often also reachable through a sibling sub-loop
        for i in range((6 if target in ("(1,2)(1,0)", "(2,1)(0,1)") else 2) if quick else 12):
            c = gen_pattern(rng, target)
            if c is not None:
                cases.append(c)
    # exhaustive edits of a few small reactants (all valence-respecting edits with <=2/<=2 bonds)
    n_exh = 2 if quick else 10
    lim = 40 if quick else 400
    for i in range(n_exh):
        reac = gen_reactant(rng, 6 if quick else 7)
        syms, edges = flat_reactant(reac)
        edits = [e for e in all_edits(len(syms), edges, [(1, 0), (2, 0), (1, 1), (2, 1), (2, 2)])
                 if premise_ok(syms, edges, e[0], e[1], MAXVAL)]
        if len(edits) > lim:
            edits = rng.sample(edits, lim)
        for bb, fb in edits:
            c = {"reac": reac, "bb": [list(e) for e in bb], "fb": [list(e) for e in fb], "kind": "premise", "exhaustive": True}
            c["prod"] = make_product(rng, syms, edges, bb, fb)
            cases.append(c)
    for c in cases:
        if rng.random() < 0.3:
            c["force_complex"] = True
        if rng.random() < 0.4:
            c["prod"]["as_complex"] = True
    # every fifth case also with the reactant re-indexed through Species.reorder_atoms
    extra = [reorder_case(rng, c) for k, c in enumerate(cases) if k % 5 == 0 and not c.get("pre")]
    return cases + extra


MAXVAL = {}


def load_maxval():
    sys.path.insert(0, REPO)
    import autode as ade
    for s in ELEMS + ["Si", "P", "Br", "I"]:
        MAXVAL[s] = ade.Atom(s).maximal_valance


def run_cases(ctx, cases, cap):
    """Implementation runs: mostly in daemonic pool workers (there the package's timeout decorator calls
    is_isomorphic in-process), a few in this process (fork-per-call timeout path)."""
    jobs = [(c, os.path.join(ctx.work, f"case{i}"), cap) for i, c in enumerate(cases)]
    n_main = 6 if ctx.quick else 25
    results = [None] * len(jobs)
    for i in range(min(n_main, len(jobs))):
        results[i] = run_impl(*jobs[i])
    rest = jobs[n_main:]
    if rest:
        mpctx = multiprocessing.get_context("fork")
        with mpctx.Pool(min(os.cpu_count() or 4, 12)) as pool:
            for k, r in enumerate(pool.imap(_worker, rest, chunksize=4)):
                results[n_main + k] = r
    return results


def run(ctx):
    sys.path.insert(0, REPO)
    load_maxval()
    pins_changed = source_pins(ctx.pid, PINS)
    # a pin that was added to PINS but is not yet in the committed pins.json is not a CHANGE of the source: it is
    # listed as unrecorded until the lead runs tools/update_pins.py
    try:
        recorded = json.load(open(os.path.join(VERIF, "coq", "C04", "pins.json")))
    except Exception:  # noqa
        recorded = {}
    unrecorded = [k for k in pins_changed if k.split(" (")[0] not in recorded]
    pins_changed = [k for k in pins_changed if k not in unrecorded]
    pins_changed += [f"autode/atoms.py::_max_valances[{el}]={MAXVAL.get(el)} (model/generators written for {v})"
                     for el, v in sorted(PINNED_MAXVAL.items()) if MAXVAL.get(el) != v]
    ctx.cov["source_pins"] = {"pinned": len(PINS) + len(PINNED_MAXVAL), "changed": pins_changed, "unrecorded": unrecorded}
    if unrecorded:
        ctx.log("pins awaiting tools/update_pins.py:", ", ".join(unrecorded))
    if pins_changed:
        ctx.log("source pins changed:", ", ".join(pins_changed))
    # 1. proofs
    proofs_ok, info = ctx.proofs(SLICE, "C04/Props.v", "AV.C04.Props", extra_targets=["C04/Corr.vo"])
    ctx.log("proofs:", "ok" if proofs_ok else "BROKEN")
    ctx.cov["print_assumptions"] = info.get("assumptions", {})
    # 2. cases on the implementation
    cases = build_cases(ctx)
    cap = QUERY_CAP_QUICK if ctx.quick else QUERY_CAP_THOROUGH
    t0 = time.time()
    results = run_cases(ctx, cases, cap)
    ctx.log(f"implementation: {len(cases)} cases in {time.time() - t0:.1f}s")
    terms, descr, findings = [], [], []
    stats = {"cap_discarded": 0, "timeout_discarded": 0, "queries": 0, "saved": []}
    for i, (c, r) in enumerate(zip(cases, results)):
        analyse(ctx, i, c, r, terms, descr, stats, findings)
    prune_stream(ctx, ctx.rng, 40 if ctx.quick else 400, terms, descr, findings)
    saveload_stream(ctx, ctx.rng, 40 if ctx.quick else 300, stats["saved"], terms, descr, findings)
    ctx.cov["discarded"] = {"query_cap": stats["cap_discarded"], "iso_timeout": stats["timeout_discarded"]}
    ctx.cov["iso_queries_total"] = stats["queries"]
    ctx.cov["hiso_answers_validated_against_networkx"] = stats.get("hiso_checked", 0)
    ctx.cov["notes"] = ["file-name mismatch: results are saved as {name}_BRs.txt but looked up as {name}_bond_rearrangs.txt "
                        "(outside the property statement; the round trip is checked on the file that is written)"]
    ctx.log(f"oracles: {len(findings)} failures; discarded cap={stats['cap_discarded']} timeout={stats['timeout_discarded']}; "
            f"iso queries={stats['queries']}")
    seen = {}
    for key, what, rep in findings:
        seen[key] = seen.get(key, 0) + 1
        if seen[key] <= (1 if key == "incomplete|identity-reaction" else 2):
            ctx.finding(key, what, rep)
    ctx.cov["finding_counts"] = seen
    if seen:
        ctx.log("finding keys:", json.dumps(seen))
    # 3. correspondence
    corr_bad, corr_err = [], None
    if proofs_ok:
        t0 = time.time()
        bad, corr_err = ctx.coq_bad_indices(PRE, terms, per_file=(40 if ctx.quick else 60), name="c04cases", timeout=900)
        corr_bad = [(descr[i], terms[i]) for i in bad]
        ctx.log(f"correspondence: {len(terms)} terms, {len(corr_bad)} disagreements in {time.time() - t0:.1f}s"
                + (f"; coq error {corr_err[:300]}" if corr_err else ""))
        ctx.cov["disagreements"] = len(corr_bad)
    # 4. decide
    if not proofs_ok:
        ctx.proof_failure(info, found_any_input=bool([f for f in findings if f[0] != "incomplete|identity-reaction"]))
    # a correspondence disagreement is only "explained" by a concrete finding of another kind than the
    # design-level identity-reaction one (which is present on every run and touches no model behaviour)
    explaining = [f for f in findings if f[0] != "incomplete|identity-reaction"]
    if corr_bad or corr_err:
        for d, t in corr_bad[:3]:
            ctx.log("disagreement:", json.dumps(d)[:400])
        if not explaining:
            ctx.violation("model and implementation disagree (correspondence) and no property-level oracle failed on the "
                          "implementation", {"kind": "correspondence", "first": [d for d, _ in corr_bad[:3]],
                                             "coq_terms": [t for _, t in corr_bad[:2]], "coq_error": corr_err},
                          found_input=False)
        else:
            ctx.log("correspondence disagreements explained by the implementation-level findings above")
    if pins_changed and not explaining and not (corr_bad or corr_err) and proofs_ok:
        ctx.violation("hand model no longer pinned to the source: " + ", ".join(pins_changed),
                      {"kind": "source-pin", "changed": pins_changed}, found_input=False)


def replay(ctx, obj):
    sys.path.insert(0, REPO)
    load_maxval()
    rep = obj.get("replay", {})
    if rep.get("kind") == "prune":
        from autode import bond_rearrangement as br
        from autode.config import Config
        n = sum(len(m[0]) for m in rep["reac"]["mols"])
        syms, edges = flat_reactant(rep["reac"])
        reactant, _ = _build({"reac": rep["reac"], "prod": {"syms": syms, "bonds": [list(e) for e in edges], "perm": list(range(n))}})
        objs = [br.BondRearrangement(forming_bonds=[tuple(e) for e in f], breaking_bonds=[tuple(e) for e in b]) for f, b in rep["brs"]]
        old_skip, Config.skip_small_ring_tss = Config.skip_small_ring_tss, rep["skip"]
        try:
            lst = br.strip_equiv_bond_rearrs(list(objs), reactant)
            br.prune_small_ring_rearrs(lst, reactant)
            print("replay: pruning kept", [(b.fbonds, b.bbonds) for b in lst], "; stored:", obj.get("what"))
            return 1 if len(lst) == 0 else 0
        except Exception as e:  # noqa
            print(f"replay: prune-raises {type(e).__name__}: {e} ; stored:", obj.get("what"))
            return 1
        finally:
            Config.skip_small_ring_tss = old_skip
    if rep.get("kind") != "case":
        print("replay: stored object is not an enumeration case:", rep.get("kind"), "; stored:", obj.get("what"))
        return 0
    case = rep["case"]
    res = run_impl(case, os.path.join(ctx.work, "replay"), QUERY_CAP_THOROUGH)
    terms, descr, findings = [], [], []
    stats = {"cap_discarded": 0, "timeout_discarded": 0, "queries": 0, "saved": []}
    analyse(ctx, 0, case, res, terms, descr, stats, findings)
    for key, what, _ in findings:
        print("replay:", key, what)
    if terms:
        bad, err = ctx.coq_bad_indices(PRE, terms, name="c04replay")
        print("replay: model vs implementation:", "DISAGREE" if bad or err else "agree")
    print("replay: stored:", obj.get("what"))
    return 1 if findings else 0


MANIFEST = {
    "technique": "Coq proof over a hand model of the enumeration + per-run model/implementation correspondence with the "
                 "implementation's own isomorphism answers as the model's oracle; source pins on every function the model was written from",
    "level_text": ("Machine-checked theorems (coq/C04/Props.v, all closed under the global context) about an executable model "
                   "of get_bond_rearrangs for ALL labelled simple graphs: rearrs_sound (every returned rearrangement breaks "
                   "only present bonds, forms only absent ones and yields a graph isomorphic - elements and atom classes - to the "
                   "product; the result is never an empty list), rearrs_complete_partial (some edit with <=2 breaking, <=2 forming "
                   "bonds, net loss 0..2, no atom pushed beyond max(maximal valence, its degree) reaches the product, and the "
                   "product is not isomorphic to the reactant or has <= 3 atoms => a non-empty list; all 1+2+2+5+15 bond-type "
                   "patterns proved), rearrs_complete_identity_refuted (the clause without that exemption is FALSE of the model and "
                   "the code: Cl + CH3Cl -> ClCH3 + Cl returns None), strip_equiv_nonempty / prune_small_rings_nonempty / "
                   "pruning_keeps_one (for every oracle assignment pruning only drops entries, never the last), "
                   "save_load_roundtrip (load (save brs) = brs).  The oracle hypothesis is local (Hiso_on: right on the finitely "
                   "many candidate questions) and an end-to-end instance is proved (complete_instance)."),
    "level_note": ("PARTIAL: completeness for identity reactions with > 3 atoms is refuted, not proved (finding "
                   "incomplete|identity-reaction, design decision pinned by the repo's own test). Trusted: Coq kernel + vm_compute; "
                   "the hand model coq/C04/Model.v, tied by 36 source pins (+ a value pin of the maximal-valence table) and on every "
                   "run by executing model and implementation on the same generated cases with the model's iso_b being exactly the "
                   "logged answers of the wrapped is_isomorphic (compared: list before pruning, final list with skip_small_ring_tss "
                   "False/True, exact query sequence, saved text, reloaded objects, loader incl. universal newlines / signs / "
                   "underscores, the pre-existing-cache-file short cut); Hiso_on is an assumption about networkx/is_isomorphic, "
                   "validated per run against networkx for every answer given (incl. timed-out ones; none occurs at <= 12 atoms; "
                   "bulk cases run in daemonic pool workers where the timeout decorator calls in-process, a few via the fork path). "
                   "Exercised only by generation, not proved: reactants up to 12 atoms, <= 250 (quick) isomorphism queries per case."),
}
