"""C12 — thermochemical contributions are frame-independent and obey their identities (DESIGN 6/C12).

Tie: gen/C12_Gen.v (every formula body of autode/thermochemistry/igm.py, the H/G assembly of
calculate_thermo_cont, Atoms.moi / Atoms.com / weight) is regenerated from the repository by
tr/translate_c12.py on every run and the theorems of coq/C12/Props.v (over the reals, plus the inertia-tensor
algebra over any field) are re-checked against it.  The generated formulas are then EVALUATED by Coq at Qc on
their rational-closed parts and compared with what the implementation returned on generated molecules; the
transcendental parts are tied by checking the property's identities directly on the implementation
(frame / permutation invariance, G-H+TS, H-U-kT, sigma shift, standard-state shift, single atom, Truhlar = igm
above the shift, Grimme/Minenkov gap bounds, geometry untouched, numbers vs unit-carrying inputs).
"""
import math
import os
import re
import sys
import warnings
from fractions import Fraction

import numpy as np

from common import COQ, REPO, VERIF, coq_bool, coq_list, coq_nat, qc, qc_list, sh, source_pins

TRUSTED_BASE = [
    "Coq 8.16.1 kernel + coqc (vm_compute only in the correspondence shards and two non-vacuity examples; no native_compute)",
    "Print Assumptions: the inertia-tensor / geometry / unit theorems are closed under the global context; the theorems about "
    "ln/exp/sqrt use the standard library's real-number axioms (ClassicalDedekindReals.sig_forall_dec, sig_not_dec, "
    "functional_extensionality_dep, Classical_Prop.classic) exactly as printed into this evidence file",
    "translator tr/translate_c12.py (Python ast -> gen/C12_Gen.v; fail-closed; re-uses the constant/unit parser of tr/translate_units.py); "
    "its output is evaluated against the implementation on every run",
    "reading of the Python operations as real functions: np.log=ln, np.exp=exp, np.sqrt=sqrt, np.pi=PI, x**1.5 = x*sqrt x (x>=0), "
    "max=Rmax, np.linalg.norm(v)**2 = v.v, float()/Value arithmetic = field arithmetic (IEEE rounding outside the theorems)",
    "ORACLES: np.linalg.eigvalsh (three positive numbers with product = det and sum = trace of the matrix it is given: checked "
    "in exact arithmetic on every generated case), Species.is_linear, symmetry_number (its value is an input sigma of the theorems)",
    "the C06 model of Value.to (coq/C06/Model.v, gen/C06_Gen.v) for the numbers-vs-units statement",
    "harness: a Molecule subclass whose `frequencies` property returns the given list; tolerance 1e-9 Ha on h_cont/g_cont across "
    "frames, 1e-9 relative on identities and on Coq-evaluated quantities",
]
ASSUMPTIONS = [
    "All vibrational frequencies are real and positive (Frequency.real is the identity on them) and carry cm-1; temperature > 0; masses > 0",
    "The species' coordinates are in Angstrom and masses in amu (the package defaults)",
    "Arithmetic is exact over R; IEEE rounding is outside the theorems",
    "alpha is a non-negative integer (the code applies int())",
    "the `raise` branches for an unknown standard state / method are unreachable for the enumerated values",
]
RULE = ("molecules: single atoms, diatomics, linear 3-4 atoms, symmetric and random non-linear 3..12 atoms (coordinates k/8), "
        "clusters of 55..70 atoms; x frequency sets {mixed 30..3500, all high, with modes below 100 cm-1} x T in {100..1000 K} x "
        "{1atm,1M} x {igm,truhlar,grimme,minenkov} x (shift, w0, alpha) ranges x sigma; x rigid motions from Pythagorean "
        "quaternions (exactly orthogonal rational matrices, proper and improper) with translations up to 12 A x atom permutations; "
        "a case is non-trivial when the frame differs from the base frame / the identity has a non-zero right-hand side; "
        "distinct by (molecule, frequencies, parameters, motion)")

SLICE = ["lib/QcInst.v", "C06/Base.v", "C06/Model.v", "gen/C06_Gen.v",
         "C12/Base.v", "C12/Model.v", "C12/Lemmas.v", "C12/Props.v", "C12/Corr.v", "gen/C12_Gen.v"]
BUILD_ORDER = ["lib/Sums.v", "lib/QcInst.v", "C06/Base.v", "gen/C06_Gen.v", "C06/Model.v",
               "C12/Base.v", "gen/C12_Gen.v", "C12/Model.v", "C12/Lemmas.v", "C12/Props.v", "C12/Corr.v"]
PRE = ("From Coq Require Import ZArith QArith Qcanon List Bool Arith.\nFrom AV.lib Require Import QcInst.\n"
       "From AV.C12 Require Import Base Model Corr.\nFrom AV.gen Require Import C12_Gen.\nImport ListNotations.\n")

# Functions the HAND-WRITTEN parts (coq/C12/Model.v: recentre / move / the Species record / temp_arg, freq_arg; the harness'
# split of the frequency list and its reading of h_cont / g_cont / masses) were written from and that tr/translate_c12.py
# neither regenerates nor pins structurally.  (Regenerated or pinned by the translator, hence NOT listed: every formula
# function of igm.py incl. _moi_about_com and _grimme_w, the S/U/H/G statements and guards of calculate_thermo_cont,
# _ThermoParams.__init__, LFMethod, SIConstants, Atoms.moi, Atoms.com, AtomCollection.weight / n_atoms, Species.sn,
# the first statement and the species.* calls of symmetry_number, Species.calc_thermo's temp handling,
# calc_g_cont / calc_h_cont, constants.py and units.py.)
PINS = [
    ("autode/species/species.py", "Species.translate"),          # symmetry_number's only mutation: r -> r + vec per atom (Model.recentre)
    ("autode/atoms.py", "Atom.translate"),
    ("autode/atoms.py", "Atom.mass"), ("autode/atoms.py", "Atom.weight"),      # am : the atomic weight in amu
    ("autode/atoms.py", "Atom.coord"),
    ("autode/atoms.py", "AtomCollection.com"), ("autode/atoms.py", "AtomCollection.moi"),   # species.com / species.moi = atoms.com / atoms.moi
    ("autode/atoms.py", "AtomCollection.atoms"),
    ("autode/species/species.py", "Species.vib_frequencies"),    # sp_vib: frequencies[6:] ([5:] when linear)
    ("autode/species/species.py", "Species.frequencies"),
    ("autode/species/species.py", "Species.is_linear"),          # ORACLE sp_linear: delegates to Atoms.are_linear
    ("autode/atoms.py", "Atoms.are_linear"), ("autode/atoms.py", "Atoms.nvector"), ("autode/atoms.py", "Atoms.vector"),
    ("autode/species/species.py", "Species.h_cont"), ("autode/species/species.py", "Species.g_cont"),   # what is observed
    ("autode/values.py", "Energies.last"),
    ("autode/values.py", "Frequency.real"), ("autode/values.py", "Frequency.is_imaginary"),   # identity on the positive model frequencies
    ("autode/values.py", "Frequency.__init__"), ("autode/values.py", "Temperature.__init__"),  # default units cm-1 / K (Model.freq_arg, temp_arg)
    ("autode/values.py", "Mass.__init__"),
    ("autode/values.py", "Value.__init__"), ("autode/values.py", "_units_init"), ("autode/values.py", "Value.to"),   # Value(Value) keeps its unit
    ("autode/values.py", "ValueArray.to"), ("autode/values.py", "ValueArray.__new__"),   # species.moi.to(...), com.to(...), coord.to(...)
]

TOL_HA = 1e-9
METHODS = ["igm", "truhlar", "grimme", "minenkov"]
MASS = {}


# ================================================================================================ molecules
def quat_rot(a, b, c, d, improper=False):
    """exactly orthogonal rational matrix from an integer quaternion (as Fractions)"""
    n = a * a + b * b + c * c + d * d
    R = [[a * a + b * b - c * c - d * d, 2 * (b * c - a * d), 2 * (b * d + a * c)],
         [2 * (b * c + a * d), a * a - b * b + c * c - d * d, 2 * (c * d - a * b)],
         [2 * (b * d - a * c), 2 * (c * d + a * b), a * a - b * b - c * c + d * d]]
    s = -1 if improper else 1
    return [[Fraction(s * x, n) for x in r] for r in R]


def apply_motion(coords, motion):
    """coords (n,3) -> moved, permuted coords.  motion = dict(q=[a,b,c,d], improper, t=[..], perm=[..]|None)"""
    R = np.array([[float(x) for x in r] for r in quat_rot(*motion["q"], improper=motion.get("improper", False))])
    out = np.asarray(coords, dtype=float) @ R.T + np.array(motion["t"], dtype=float)
    if motion.get("perm") is not None:
        out = out[motion["perm"]]
    return out


def permute(xs, motion):
    return [xs[i] for i in motion["perm"]] if motion.get("perm") is not None else list(xs)


def library(rng, full):
    """-> list of dict(name, symbols, coords, linear, symmetric)"""
    s3 = math.sqrt(3) / 2
    mols = [
        dict(name="H", symbols=["H"], coords=[[0.25, -0.5, 1.0]]),
        dict(name="Ar", symbols=["Ar"], coords=[[3.0, 1.0, -2.0]]),
        dict(name="H2", symbols=["H", "H"], coords=[[0, 0, 0], [0, 0, 0.75]], linear=True, symmetric=True),
        dict(name="HF", symbols=["H", "F"], coords=[[0.5, 0.25, 0], [0.5, 0.25, 0.875]], linear=True),
        dict(name="CO2", symbols=["O", "C", "O"], coords=[[0, 0, -1.125], [0, 0, 0], [0, 0, 1.125]], linear=True, symmetric=True),
        dict(name="HCN", symbols=["H", "C", "N"], coords=[[0, 0, -1.0], [0, 0, 0.0625], [0, 0, 1.25]], linear=True, symmetric=True),
        dict(name="C2H2", symbols=["H", "C", "C", "H"], coords=[[-1.625, 0, 0], [-0.625, 0, 0], [0.625, 0, 0], [1.625, 0, 0]],
             linear=True, symmetric=True),
        dict(name="H2O", symbols=["O", "H", "H"], coords=[[0, 0, 0.125], [0.75, 0, -0.5], [-0.75, 0, -0.5]], symmetric=True),
        dict(name="NH3", symbols=["N", "H", "H", "H"],
             coords=[[0, 0, 0.125], [0.9375, 0, -0.25], [-0.46875, 0.9375 * s3, -0.25], [-0.46875, -0.9375 * s3, -0.25]], symmetric=True),
        dict(name="BH3", symbols=["B", "H", "H", "H"],
             coords=[[0, 0, 0], [1.1875, 0, 0], [-0.59375, 1.1875 * s3, 0], [-0.59375, -1.1875 * s3, 0]], symmetric=True),
        dict(name="BF3", symbols=["F", "B", "F", "F"],
             coords=[[1.3125, 0, 0], [0, 0, 0], [-0.65625, 1.3125 * s3, 0], [-0.65625, -1.3125 * s3, 0]], symmetric=True),
        dict(name="CH4", symbols=["C", "H", "H", "H", "H"],
             coords=[[0, 0, 0], [.625, .625, .625], [-.625, -.625, .625], [-.625, .625, -.625], [.625, -.625, -.625]], symmetric=True),
        dict(name="C2H4", symbols=["C", "C", "H", "H", "H", "H"],
             coords=[[0.6875, 0, 0], [-0.6875, 0, 0], [1.25, 0.9375, 0], [1.25, -0.9375, 0], [-1.25, 0.9375, 0], [-1.25, -0.9375, 0]],
             symmetric=True),
    ]
    mols += [
        # approximately symmetric (bond lengths differ by 0.03 A): still sigma = 2 / 3 within the search tolerance
        dict(name="H2O~", symbols=["O", "H", "H"], coords=[[0, 0, 0.125], [0.75, 0, -0.4375], [-0.78125, 0, -0.4375]], symmetric=True),
        dict(name="NH3~", symbols=["N", "H", "H", "H"],
             coords=[[0, 0, 0.125], [0.96875, 0, -0.25], [-0.46875, 0.9375 * s3, -0.25], [-0.46875, -0.9375 * s3, -0.28125]], symmetric=True),
    ]
    bz = [("C", [1.375 * math.cos(k * math.pi / 3), 1.375 * math.sin(k * math.pi / 3), 0.0]) for k in range(6)] + \
         [("H", [2.5 * math.cos(k * math.pi / 3), 2.5 * math.sin(k * math.pi / 3), 0.0]) for k in range(6)]
    mols.append(dict(name="C6H6", symbols=[s for s, _ in bz], coords=[c for _, c in bz], symmetric=True))
    sizes = [3, 4, 5, 8, 12] if not full else [3, 4, 5, 6, 7, 8, 9, 10, 11, 12, 12, 20, 33, 50]
    for n in sizes:
        while True:
            pts = set()
            while len(pts) < n:
                pts.add(tuple(rng.randint(-24 - 2 * max(0, n - 12), 24 + 2 * max(0, n - 12)) / 8 for _ in range(3)))
            pts = sorted(pts)
            c = np.array(pts)
            d = np.linalg.norm(c[:, None, :] - c[None, :, :], axis=2) + np.eye(n) * 10
            sv = np.linalg.svd(c - c.mean(axis=0), compute_uv=False)
            if d.min() >= 0.9 and sv[1] > 0.8 and (n < 4 or sv[2] > 0.3):
                break
        rng.shuffle(pts)
        mols.append(dict(name=f"rand{n}", symbols=[rng.choice(["C", "H", "N", "O", "H", "S"]) for _ in range(n)],
                         coords=[list(p) for p in pts]))
    for n in ([51] if not full else [51, 55, 64, 70]):
        grid = [(i, j, k) for i in range(5) for j in range(5) for k in range(4)]
        rng.shuffle(grid)
        pts = [[1.5 * g[0] + rng.randint(-3, 3) / 8, 1.5 * g[1] + rng.randint(-3, 3) / 8, 1.5 * g[2] + rng.randint(-3, 3) / 8]
               for g in grid[:n]]
        mols.append(dict(name=f"cluster{n}", symbols=[rng.choice(["C", "H", "O", "N"]) for _ in range(n)], coords=pts))
    for m in mols:
        m.setdefault("linear", False)
        m.setdefault("symmetric", False)
        m["coords"] = [[float(x) for x in c] for c in m["coords"]]
    return mols


def freq_sets(rng, mol, full):
    """-> dict name -> full frequency list (first 5/6 entries are the projected zeros)"""
    n = len(mol["symbols"])
    if n == 1:
        return {"none": None}
    nz = 5 if mol["linear"] else 6
    nv = 3 * n - nz
    r8 = lambda lo, hi: rng.randint(int(lo * 8), int(hi * 8)) / 8   # noqa: E731
    sets = {
        "mixed": sorted(r8(30, 3500) for _ in range(nv)),
        "high": sorted(r8(1500, 3800) for _ in range(nv)),
    }
    if nv >= 2:
        k = max(1, nv // 4)
        sets["lowmodes"] = sorted([r8(8, 99) for _ in range(k)] + [r8(120, 3300) for _ in range(nv - k)])
    return {k: [0.0] * nz + v for k, v in sets.items()}


def motions(rng, n, k, improper_share=0.25, with_perm=True):
    out = []
    while len(out) < k:
        q = [rng.randint(-6, 6) for _ in range(4)]
        if sum(abs(x) for x in q) == 0 or sum(1 for x in q if x) < 2:
            continue
        m = dict(q=q, improper=rng.random() < improper_share, t=[rng.randint(-96, 96) / 8 for _ in range(3)], perm=None)
        if with_perm and n > 1 and rng.random() < 0.7:
            p = list(range(n))
            rng.shuffle(p)
            m["perm"] = p
        out.append(m)
    return out


# ================================================================================================ implementation
_CLS = {}


def molecule_class():
    if "M" not in _CLS:
        from autode import Molecule

        class GivenFrequencies(Molecule):
            """a Molecule whose (projected) frequencies are the given list"""
            _given = None

            @property
            def frequencies(self):
                return self._given
        _CLS["M"] = GivenFrequencies
    return _CLS["M"]


def make_species(symbols, coords, freqs, freq_units=None):
    from autode import Atom
    from autode.values import Frequency
    m = molecule_class()(atoms=[Atom(s, *map(float, c)) for s, c in zip(symbols, coords)])
    if freqs is not None:
        m._given = [Frequency(f) if freq_units is None else Frequency(f, units=freq_units) for f in freqs]
    return m


def run_thermo(symbols, coords, freqs, kw, via="function", freq_units=None):
    """-> (h_cont, g_cont, species).  kw: temp, ss, lfm_method, sn?, freq_shift?, w0?, alpha?
    via: "function" = calculate_thermo_cont(species, **kw); "calc_thermo" / "calc_g_cont" / "calc_h_cont" = the public
    Species methods (a zero model Hessian is attached so that no electronic-structure code is started; the frequencies are
    the given ones).  freq_units: unit the species' Frequency values carry (default cm-1)."""
    from autode.thermochemistry.igm import calculate_thermo_cont
    sp = make_species(symbols, coords, freqs, freq_units=freq_units)
    if via == "function":
        calculate_thermo_cont(sp, **kw)
    else:
        sp.hessian = np.zeros((3 * len(symbols), 3 * len(symbols)))
        getattr(sp, "calc_thermo" if via == "method" else via)(**kw)
    return float(sp.h_cont.to("Ha")), float(sp.g_cont.to("Ha")), sp


def dist_matrix(c):
    c = np.asarray(c, dtype=float)
    return np.linalg.norm(c[:, None, :] - c[None, :, :], axis=2)


def si():
    from autode.thermochemistry.igm import SIConstants
    from autode.constants import Constants
    return SIConstants.k_b, SIConstants.h, Constants


def params_of(case, sigma):
    from autode.thermochemistry import igm
    kw = dict(case["kw"])
    return igm._ThermoParams(default_sigma_r=sigma, T=float(kw.pop("temp")), **kw)


# ------------------------------------------------------------------------------------------------ hand references
def ref_volumes(T):
    k_b, _, C = si()
    return k_b * T / 101325.0, 1.0e-3 / C.n_a          # ideal gas at 1 atm;  1 litre per mole


def ref_mode_terms(f_cm, T, b_avg):
    """per-mode s_v, s_r, u_v, u_r from the textbook expressions (independent of the package code)"""
    k_b, h, C = si()
    nu = f_cm * 2.99792458e10
    x = h * nu / (k_b * T)
    s_v = k_b * (x / math.expm1(x) - math.log1p(-math.exp(-x)))
    mu = h / (8 * math.pi ** 2 * nu)
    mup = mu * b_avg / (mu + b_avg)
    s_r = k_b * (0.5 + 0.5 * math.log(8 * math.pi ** 3 * mup * k_b * T / h ** 2))
    u_v = h * nu / math.expm1(x)
    return s_v, s_r, u_v, 0.5 * k_b * T


# ================================================================================================ case generation
def parameter_sets(rng, full):
    Ts = [100.0, 200.0, 298.15, 400.0, 550.0, 750.0, 1000.0]
    out = []
    for meth in METHODS:
        for ss in ("1atm", "1M"):
            for _ in range(3 if full else 1):
                kw = dict(temp=rng.choice(Ts), ss=ss, lfm_method=meth)
                if meth == "truhlar":
                    kw["freq_shift"] = rng.choice([50.0, 100.0, 175.5, 300.0])
                if meth in ("grimme", "minenkov"):
                    kw["w0"] = rng.choice([50.0, 100.0, 150.0, 250.0])
                    kw["alpha"] = rng.choice([2, 3, 4, 6])
                out.append(kw)
    return out


# ================================================================================================ oracles
class Fails:
    def __init__(self, ctx):
        self.ctx, self.n, self.per_key, self.reported = ctx, 0, {}, 0

    def add(self, key, what, replay):
        self.n += 1
        self.per_key[key] = self.per_key.get(key, 0) + 1
        known = key in self.ctx.known_keys()
        if self.per_key[key] <= 1 and (known or self.reported < 6):      # one replay per key, at most six new ones per run
            self.reported += 0 if known else 1
            self.ctx.finding(key, what, replay)


def size_class(n):
    return "1" if n == 1 else "2" if n == 2 else "3-12" if n <= 12 else "13-50" if n <= 50 else ">50"


# molecules whose symmetry number the search finds identically under EVERY atom order on the reference tree (exhaustively
# enumerated for n <= 5, sampled for C2H4); the search's known heuristic failure (first candidate axis of a cluster wins)
# reproduces only for the benzene-type class (large planar ring), which alone keeps the plain key
ORDER_INDEPENDENT = ["H2", "HF", "CO2", "HCN", "C2H2", "H2O", "NH3", "BH3", "BF3", "CH4", "C2H4", "rand3", "rand4", "rand5", "H2O~", "NH3~"]


def order_key(molecule):
    return "symmetry_number|atom-order-dependent" if molecule == "C6H6" else f"symmetry_number|atom-order-dependent:{molecule}"


def frame_case(mol, fname, freqs, kw, motion, sigma):
    return dict(kind="frame", molecule=mol["name"], symbols=mol["symbols"], coords=mol["coords"], freq_set=fname, freqs=freqs,
                kw=kw, motion=motion, sigma=sigma)


def eval_frame(case):
    """-> (list of (key, what), info).  sigma None = default symmetry number (oracle)."""
    kw = dict(case["kw"])
    if case["sigma"] is not None:
        kw["sn"] = case["sigma"]
    sym, co, fr, mo = case["symbols"], case["coords"], case["freqs"], case["motion"]
    base = case.get("_base")            # (not stored in replays) the base-frame evaluation shared by the motions of one case
    if base is None:
        base = run_thermo(sym, co, fr, kw)
        if "_share" in case:
            case["_share"]["_base"] = base
    h0, g0, sp0 = base
    co1 = apply_motion(co, mo)
    sym1 = permute(sym, mo)
    h1, g1, sp1 = run_thermo(sym1, co1, fr, kw)
    fails = []
    n = len(sym)
    cls = size_class(n)
    pure = mo.get("perm") is None
    what = (f"{case['molecule']} ({n} atoms, {case['freq_set']} frequencies, {kw}) vs the same molecule moved by quaternion "
            f"{mo['q']}{' improper' if mo.get('improper') else ''}, t={mo['t']}, perm={mo.get('perm')}: ")
    dh, dg = h1 - h0, g1 - g0
    if not all(math.isfinite(x) for x in (h0, g0, h1, g1)):
        fails.append((f"calculate_thermo_cont|non-finite:{cls}", what + f"(H,G) = ({h0}, {g0}) / moved ({h1}, {g1})"))
    if case["sigma"] is None:
        s0, s1 = sp0.sn, sp1.sn
        if s0 != s1:
            key = "symmetry_number|frame-dependent" if pure else order_key(case["molecule"])
            fails.append((key, what + f"species.sn = {s0} vs {s1}; g_cont differs by {dg:.3e} Ha"))
        elif abs(dh) > TOL_HA or abs(dg) > TOL_HA:
            fails.append((f"calculate_thermo_cont|frame-dependence-default-sn:{cls}", what + f"dH={dh:.3e} dG={dg:.3e} Ha (sn={s0} both)"))
    elif abs(dh) > TOL_HA or abs(dg) > TOL_HA:
        kind = "translation/rotation" if pure else "rigid-motion+permutation"
        fails.append((f"calculate_thermo_cont|frame-dependence:{cls}:{kw['lfm_method']}",
                      what + f"h_cont differs by {dh:.3e} Ha, g_cont by {dg:.3e} Ha ({kind})"))
    # geometry untouched (both runs): distances, labels, masses, frequencies
    for tag, sp, s_in, c_in in (("base", sp0, sym, co), ("moved", sp1, sym1, co1)):
        d_in, d_out = dist_matrix(c_in), dist_matrix(np.array(sp.coordinates))
        if [a.label for a in sp.atoms] != list(s_in) or d_out.shape != d_in.shape or np.max(np.abs(d_in - d_out)) > 1e-9:
            fails.append((f"calculate_thermo_cont|geometry-changed:{cls}",
                          what + f"internal distances of the {tag} structure changed by {np.max(np.abs(d_in - d_out)):.3e} A"))
        if fr is not None and [float(f) for f in sp.frequencies] != [float(f) for f in fr]:
            fails.append(("calculate_thermo_cont|frequencies-changed", what + "the frequency list was modified"))
    return fails, dict(h=h0, g=g0, sp=sp0, sp_moved=sp1, coords_moved=co1, symbols_moved=sym1, dh=dh, dg=dg)


def eval_identities(case):
    """property identities on ONE structure: -> list of (key, what)"""
    from autode.thermochemistry import igm
    k_b, h_pl, C = si()
    kw = dict(case["kw"])
    sigma = case["sigma"]
    kw["sn"] = sigma
    sym, co, fr = case["symbols"], case["coords"], case["freqs"]
    T = float(kw["temp"])
    J = C.ha_to_J
    n = len(sym)
    fails = []
    tag = f"{case['molecule']} ({n} atoms, {case['freq_set']} frequencies, {kw}): "
    rel = lambda a, b, tol=1e-9: abs(a - b) <= tol * max(abs(a), abs(b), 1e-300)   # noqa: E731
    H, G, sp = run_thermo(sym, co, fr, kw)
    p = params_of(case, sigma)
    p.sigma_r = sigma
    S = float(igm._entropy(sp, p))
    U = float(igm._internal_energy(sp, p))
    # G = H - TS ; H = U + kT
    if not rel((H - G) * J, T * S):
        fails.append(("calculate_thermo_cont|G-is-not-H-minus-TS", tag + f"(H-G) = {(H - G) * J!r} J but T*S = {T * S!r} J"))
    if not rel(H * J - U, k_b * T, 1e-8):
        fails.append(("calculate_thermo_cont|H-is-not-U-plus-kT", tag + f"H-U = {H * J - U!r} J but k_B T = {k_b * T!r} J"))
    # symmetry number
    H1, G1, _ = run_thermo(sym, co, fr, dict(kw, sn=1))
    for s2 in ((2, 12) if case.get("light") else (2, 3, 12)):
        H2, G2, _ = run_thermo(sym, co, fr, dict(kw, sn=s2))
        want = 0.0 if n == 1 else k_b * T * math.log(s2) / J
        if abs((G2 - G1) - want) > 1e-9 * max(1.0, abs(G1)) * 1e-3 + 1e-12 or abs(H2 - H1) > 1e-12:
            fails.append(("calculate_thermo_cont|sigma-shift", tag + f"G(sigma={s2})-G(sigma=1) = {G2 - G1!r} Ha, k_B T ln(sigma) = {want!r} Ha; "
                          f"H(sigma={s2})-H(1) = {H2 - H1!r}"))
    # standard state
    v_atm, v_m = ref_volumes(T)
    Ha, Ga, _ = run_thermo(sym, co, fr, dict(kw, ss="1atm"))
    Hm, Gm, _ = run_thermo(sym, co, fr, dict(kw, ss="1M"))
    want = k_b * T * math.log(v_atm / v_m) / J
    if abs((Gm - Ga) - want) > 1e-11 + 1e-9 * abs(want) or abs(Hm - Ha) > 1e-12:
        fails.append(("calculate_thermo_cont|standard-state-shift", tag + f"G(1M)-G(1atm) = {Gm - Ga!r} Ha, k_B T ln(V_1atm/V_1M) = {want!r} Ha; "
                      f"H(1M)-H(1atm) = {Hm - Ha!r}"))
    if n == 1:
        m_kg = float(sp.weight) * C.amu_to_kg
        vol = v_atm if kw["ss"].lower() == "1atm" else v_m
        s_st = k_b * (math.log((2 * math.pi * m_kg * k_b * T / h_pl ** 2) ** 1.5 * vol) + 2.5)
        if not rel(H * J, 2.5 * k_b * T) or not rel(G * J, 2.5 * k_b * T - T * s_st) or not rel(U, 1.5 * k_b * T) or not rel(S, s_st):
            fails.append(("calculate_thermo_cont|single-atom", tag + f"H={H * J!r} J (5/2 kT = {2.5 * k_b * T!r}), G={G * J!r} J "
                          f"(5/2 kT - T S_SackurTetrode = {2.5 * k_b * T - T * s_st!r}), U={U!r}, S={S!r} (S_ST={s_st!r})"))
        return fails
    # low-frequency treatments against the harmonic result
    vib = [float(f) for f in fr[(5 if case["linear"] else 6):]]
    Hi, Gi, spi = run_thermo(sym, co, fr, dict(temp=T, ss=kw["ss"], sn=sigma, lfm_method="igm"))
    shift = float(kw.get("freq_shift", 100.0))
    Ht, Gt, _ = run_thermo(sym, co, fr, dict(temp=T, ss=kw["ss"], sn=sigma, lfm_method="truhlar", freq_shift=shift))
    if min(vib) >= shift:
        if abs(Gt - Gi) > 1e-12 or abs(Ht - Hi) > 1e-12:
            fails.append(("calculate_thermo_cont|truhlar-differs-above-shift", tag + f"all frequencies >= shift {shift}: G_truhlar-G_igm = {Gt - Gi!r} Ha"))
    elif not Gt > Gi + 1e-12:
        fails.append(("calculate_thermo_cont|truhlar-shift-has-no-effect", tag + f"frequencies below the shift {shift} but G_truhlar-G_igm = {Gt - Gi!r}"))
    w0 = float(kw.get("w0", 100.0))
    alpha = int(kw.get("alpha", 4))
    moi_fn = getattr(igm, "_moi_about_com", None)
    I = np.array(moi_fn(spi).to("kg m^2")) if moi_fn is not None else np.array(spi.moi.to("kg m^2"))
    b_avg = float(np.trace(I)) / 3.0
    terms = [ref_mode_terms(f, T, b_avg) for f in vib]
    K = min(vib) / w0
    bS = K ** (-alpha) * sum(abs(s_r - s_v) for s_v, s_r, _, _ in terms)
    bU = K ** (-alpha) * sum(abs(u_r - u_v) for _, _, u_v, u_r in terms)
    Hg, Gg, _ = run_thermo(sym, co, fr, dict(temp=T, ss=kw["ss"], sn=sigma, lfm_method="grimme", w0=w0, alpha=alpha))
    Hk, Gk, _ = run_thermo(sym, co, fr, dict(temp=T, ss=kw["ss"], sn=sigma, lfm_method="minenkov", w0=w0, alpha=alpha))
    slack = 1e-12
    if abs(Hg - Hi) > slack or abs(Gg - Gi) > T * bS / J * (1 + 1e-6) + slack:
        fails.append(("calculate_thermo_cont|grimme-gap-exceeds-bound", tag + f"min f/w0 = {K:.3f}, alpha={alpha}: |G_grimme-G_igm| = {abs(Gg - Gi)!r} Ha "
                      f"> bound {T * bS / J!r} Ha, H_grimme-H_igm = {Hg - Hi!r}"))
    if abs(Hk - Hi) > bU / J * (1 + 1e-6) + slack or abs(Gk - Gi) > (bU + T * bS) / J * (1 + 1e-6) + slack:
        fails.append(("calculate_thermo_cont|minenkov-gap-exceeds-bound", tag + f"min f/w0 = {K:.3f}, alpha={alpha}: |H_m-H_igm| = {abs(Hk - Hi)!r} "
                      f"(bound {bU / J!r}), |G_m-G_igm| = {abs(Gk - Gi)!r} (bound {(bU + T * bS) / J!r}) Ha"))
    if case.get("light"):
        return fails
    # all treatments coincide when every frequency is far above w0 / the shift
    hi = [0.0] * (len(fr) - len(vib)) + [2000.0 + 12.5 * i for i in range(len(vib))]
    base = dict(temp=T, ss=kw["ss"], sn=sigma)
    ref = run_thermo(sym, co, hi, dict(base, lfm_method="igm"))[:2]
    for meth, extra in (("truhlar", dict(freq_shift=100.0)), ("grimme", dict(w0=1.0, alpha=4)), ("minenkov", dict(w0=1.0, alpha=4))):
        got = run_thermo(sym, co, hi, dict(base, lfm_method=meth, **extra))[:2]
        if abs(got[0] - ref[0]) > TOL_HA or abs(got[1] - ref[1]) > TOL_HA:
            fails.append((f"calculate_thermo_cont|{meth}-does-not-coincide-at-high-frequency",
                          tag + f"all frequencies >= 2000 cm-1, {extra}: (H,G) = {got} vs harmonic {ref}"))
    return fails


def eval_units(case):
    """temp / freq_shift / w0 as plain numbers or unit-carrying values (default and non-default units), through
    calculate_thermo_cont AND the public entry points Species.calc_thermo / calc_g_cont / calc_h_cont (incl. the default
    temperature); species frequencies carried in cm-1 or Hz.  All must give the same h_cont / g_cont (1e-12 Ha)."""
    from autode.values import Frequency, Temperature
    kw = dict(case["kw"], sn=case["sigma"])
    sym, co, fr = case["symbols"], case["coords"], case["freqs"]
    T = float(kw["temp"])
    fails = []
    tol = 1e-12
    tag = f"{case['molecule']} ({kw}): "
    C_HZ = 29979245800.0

    def compare(key, label, ref, fn):
        try:
            got = fn()[:2]
        except Exception as e:  # noqa
            fails.append((key, tag + f"{label}: raised {type(e).__name__}: {e}; plain numbers give {ref}"))
            return
        if not (abs(got[0] - ref[0]) <= tol and abs(got[1] - ref[1]) <= tol):      # also true for nan / inf
            fails.append((key, tag + f"{label}: (H,G) = {got} but plain numbers in the default units give {ref}"))

    ref = run_thermo(sym, co, fr, kw)[:2]
    entries = ["function", "calc_thermo", "calc_g_cont", "calc_h_cont"]
    for via in entries:
        key = "calculate_thermo_cont|number-vs-unit-value" if via == "function" else f"Species.{via}|number-vs-unit-value"
        tvars = [("temp=float K", T), ("temp=Temperature(T,'K')", Temperature(T, units="K")),
                 ("temp=Temperature(T-273.15,'celsius')", Temperature(T - 273.15, units="celsius")),
                 ("temp=Temperature(T-273.15,'C')", Temperature(T - 273.15, units="C"))]
        if via not in ("function", "calc_thermo"):
            tvars = tvars[2:3]          # the delegating entry points: the non-default unit only
        for label, tv in tvars:
            compare(key, f"{via}, {label}", ref, lambda tv=tv, via=via: run_thermo(sym, co, fr, dict(kw, temp=tv), via=via))
        for name in ("freq_shift", "w0"):
            if name in kw and via in ("function", "calc_thermo"):
                x = float(kw[name])
                for label, fv in ((f"{name}=Frequency(x,'cm-1')", Frequency(x, units="cm-1")),
                                  (f"{name}=Frequency(x*c,'hz')", Frequency(x * C_HZ, units="hz"))):
                    compare(key, f"{via}, {label}", ref, lambda fv=fv, via=via, name=name: run_thermo(sym, co, fr, dict(kw, **{name: fv}), via=via))
    if len(sym) > 1:
        # freezing point and below: 0 C and negative Celsius through the public method
        for Tk in (273.15, 250.0):
            r2 = run_thermo(sym, co, fr, dict(kw, temp=Tk))[:2]
            for via in ("calc_thermo",):
                key = "calculate_thermo_cont|number-vs-unit-value" if via == "function" else f"Species.{via}|number-vs-unit-value"
                compare(key, f"{via}, temp=Temperature({Tk - 273.15},'celsius') vs {Tk} K", r2,
                        lambda Tk=Tk, via=via: run_thermo(sym, co, fr, dict(kw, temp=Temperature(Tk - 273.15, units="celsius")), via=via))
                compare(key, f"{via}, temp=Temperature({Tk},'K') vs {Tk} K", r2,
                        lambda Tk=Tk, via=via: run_thermo(sym, co, fr, dict(kw, temp=Temperature(Tk, units="K")), via=via))
        # the default temperature of the public method is 298.15 K
        kd = {k: v for k, v in kw.items() if k != "temp"}
        r3 = run_thermo(sym, co, fr, dict(kd, temp=298.15))[:2]
        for via in ("function", "calc_thermo", "calc_g_cont"):
            compare(f"Species.{via}|default-temperature" if via != "function" else "calculate_thermo_cont|default-temperature",
                    f"{via} without temp vs temp=298.15", r3, lambda via=via: run_thermo(sym, co, fr, kd, via=via))
        # the species' own frequencies carried in Hz instead of cm-1, for the method of this case and for the default method
        if fr is not None:
            fr_hz = [f * C_HZ for f in fr]
            for meth in sorted({kw["lfm_method"], "grimme"}):
                k2 = dict(kw, lfm_method=meth)
                r4 = ref if meth == kw["lfm_method"] else run_thermo(sym, co, fr, k2)[:2]
                compare(f"calculate_thermo_cont|frequency-units-hz:{meth}", f"function, lfm_method={meth}, species frequencies as Frequency(f*c,'hz')", r4,
                        lambda k2=k2: run_thermo(sym, co, fr_hz, k2, freq_units="hz"))
    # temperature as other plain-number types; the method as the LFMethod enum
    from autode.thermochemistry.igm import LFMethod
    compare("calculate_thermo_cont|number-vs-unit-value", "function, temp=numpy.float64", ref, lambda: run_thermo(sym, co, fr, dict(kw, temp=np.float64(T))))
    if float(T) == int(T):
        compare("calculate_thermo_cont|number-vs-unit-value", "function, temp=int", ref, lambda: run_thermo(sym, co, fr, dict(kw, temp=int(T))))
    if float(np.float32(T)) == T:
        compare("calculate_thermo_cont|temp-numpy-float32", "function, temp=numpy.float32(T) (exactly representable)", ref,
                lambda: run_thermo(sym, co, fr, dict(kw, temp=np.float32(T))))
    compare("calculate_thermo_cont|lfm-method-enum", "function, lfm_method as LFMethod member", ref,
            lambda: run_thermo(sym, co, fr, dict(kw, lfm_method=LFMethod[kw["lfm_method"]])))
    return fails


def eval_sn_order(case):
    """species.sn (default symmetry number) of an exact small molecule under a re-ordering of its atoms"""
    from autode import Atom, Molecule
    sym, co, perm = case["symbols"], case["coords"], case["perm"]
    mk = lambda ss, cc: Molecule(atoms=[Atom(a, *map(float, c)) for a, c in zip(ss, cc)])   # noqa: E731
    s0 = mk(sym, co).sn
    s1 = mk([sym[i] for i in perm], [co[i] for i in perm]).sn
    if s0 == s1:
        return []
    kw = dict(temp=298.15, ss="1M", lfm_method="igm")
    fr = case["freqs"]
    g0 = run_thermo(sym, co, fr, kw)[1]
    g1 = run_thermo([sym[i] for i in perm], [co[i] for i in perm], fr, kw)[1]
    return [(order_key(case["molecule"]), f"{case['molecule']} atoms {sym}: species.sn = {s0}; the same atoms listed in the order {perm} "
             f"({[sym[i] for i in perm]}): species.sn = {s1}; default g_cont differs by {g1 - g0:.3e} Ha")]


CONFIG_SETTINGS = [            # (Config attribute, keyword, value, other keywords needed for it to matter)
    ("standard_state", "ss", "1atm", {}), ("standard_state", "ss", "1M", {}),
    ("lfm_method", "lfm_method", "igm", {}), ("lfm_method", "lfm_method", "truhlar", {}), ("lfm_method", "lfm_method", "minenkov", {}),
    ("lfm_method", "lfm_method", "grimme", {}),
    ("vib_freq_shift", "freq_shift", 250.0, {"lfm_method": "truhlar"}),
    ("grimme_w0", "w0", 60.0, {"lfm_method": "grimme"}),
    ("grimme_alpha", "alpha", 2, {"lfm_method": "minenkov"}),
]


def eval_config(case):
    """run-time changes of autode.Config (restored afterwards) must act exactly like passing the keyword"""
    from autode.config import Config
    from autode.values import Frequency
    k_b, _, C = si()
    sym, co, fr = case["symbols"], case["coords"], case["freqs"]
    T = float(case["kw"]["temp"])
    base = dict(temp=T, sn=case["sigma"])
    fails = []
    tag = f"{case['molecule']} (T={T}, sn={case['sigma']}, {case['freq_set']} frequencies): "
    by_state = {}
    for attr, kwname, value, extra in CONFIG_SETTINGS:
        for via in (("function", "calc_thermo") if len(sym) > 1 else ("function",)):
            explicit = run_thermo(sym, co, fr, dict(base, **extra, **{kwname: value}), via=via)[:2]
            old = getattr(Config, attr)
            try:
                setattr(Config, attr, Frequency(value) if attr in ("vib_freq_shift", "grimme_w0") else value)
                implicit = run_thermo(sym, co, fr, dict(base, **extra), via=via)[:2]
            finally:
                setattr(Config, attr, old)
            if abs(implicit[0] - explicit[0]) > 1e-12 or abs(implicit[1] - explicit[1]) > 1e-12:
                fails.append((f"calculate_thermo_cont|Config.{attr}-ignored",
                              tag + f"Config.{attr} = {value!r} set at run time, {via} without {kwname}= gives (H,G) = {implicit}; "
                              f"passing {kwname}={value!r} gives {explicit}"))
            if attr == "standard_state" and via == "function":
                by_state[value] = implicit[1]
    if len(by_state) == 2:
        v_atm, v_m = ref_volumes(T)
        want = k_b * T * math.log(v_atm / v_m) / C.ha_to_J
        got = by_state["1M"] - by_state["1atm"]
        if abs(got - want) > 1e-11 + 1e-9 * abs(want):
            fails.append(("calculate_thermo_cont|Config.standard_state-ignored",
                          tag + f"G(Config.standard_state='1M') - G(Config.standard_state='1atm') = {got!r} Ha, k_B T ln(V_1atm/V_1M) = {want!r} Ha"))
    return fails


def eval_sequence(case):
    """ONE species object whose geometry is changed between evaluations (coordinates setter / atom translation) must give,
    at every step, the symmetry number and contributions of a fresh species at the identical geometry and frequencies"""
    from autode.thermochemistry.igm import calculate_thermo_cont
    sym, fr, kw = case["symbols"], case["freqs"], dict(case["kw"])
    steps = case["steps"]
    fails = []
    sp = make_species(sym, steps[0], fr)
    for k, geo in enumerate(steps):
        if k > 0:
            if k % 2 == 1:
                sp.coordinates = np.array(geo, dtype=float)
            else:
                cur = np.array(sp.coordinates, dtype=float)
                for atom, d in zip(sp.atoms, np.array(geo, dtype=float) - cur):
                    atom.translate(d)
        s_obj = sp.sn
        calculate_thermo_cont(sp, **kw)
        h, g = float(sp.h_cont), float(sp.g_cont)
        h_f, g_f, fresh = run_thermo(sym, geo, fr, kw)
        if s_obj != fresh.sn or abs(h - h_f) > 1e-12 or abs(g - g_f) > 1e-12:
            fails.append(("Species.sn|stale-after-geometry-change",
                          f"{case['molecule']} ({kw}): step {k} of the geometry sequence {case['labels']}: the re-used species has sn = {s_obj}, "
                          f"(H,G) = ({h}, {g}); a fresh species at the same geometry has sn = {fresh.sn}, (H,G) = ({h_f}, {g_f})"))
    return fails


def sequences(mols):
    out = []
    by = {m["name"]: m for m in mols}
    for name, atom_i, d in (("H2O", 1, [0.25, 0.0, -0.125]), ("NH3", 2, [0.0, 0.25, 0.25]), ("CH4", 3, [0.25, 0.25, 0.0]), ("BF3", 0, [0.375, 0.0, 0.0])):
        m = by[name]
        c0 = [list(c) for c in m["coords"]]
        c1 = [list(c) for c in c0]
        c1[atom_i] = [a + b for a, b in zip(c1[atom_i], d)]
        out.append(dict(kind="sequence", molecule=name, symbols=m["symbols"], steps=[c0, c1, c0, c1], labels=["symmetric", "distorted", "symmetric", "distorted"],
                        linear=False))
    return out


def bent_triatomic(symbols, delta_deg, d1=1.125, d2=1.125):
    """A-B-C with the angle at B equal to 180 - delta degrees"""
    a = math.radians(delta_deg)
    return [[-d1, 0.0, 0.0], [0.0, 0.0, 0.0], [d2 * math.cos(a), d2 * math.sin(a), 0.0]]


def eval_near_linear(case):
    """a triatomic within a few degrees of linear, the same frequency list, explicit sigma: every atom order must give the same
    H and G (the linear / non-linear decision must not depend on which atom is listed first)"""
    sym, co, fr, kw = case["symbols"], case["coords"], case["freqs"], dict(case["kw"], sn=case["sigma"])
    res = []
    import itertools
    for p in itertools.permutations(range(len(sym))):
        h, g, sp = run_thermo([sym[i] for i in p], [co[i] for i in p], fr, kw)
        res.append((list(p), bool(sp.is_linear()), len(sp.vib_frequencies), h, g))
    h0, g0 = res[0][3], res[0][4]
    bad = [r for r in res if abs(r[3] - h0) > TOL_HA or abs(r[4] - g0) > TOL_HA]
    if not bad:
        return []
    b = bad[0]
    return [(f"calculate_thermo_cont|atom-order-dependence:near-linear:delta={case['delta']}deg",
             f"{''.join(sym)} bent by {case['delta']} deg from linear, frequencies {fr}, {kw}: atom order {res[0][0]} -> is_linear {res[0][1]}, "
             f"{res[0][2]} vibrational modes, (H,G) = ({h0}, {g0}); atom order {b[0]} -> is_linear {b[1]}, {b[2]} modes, (H,G) = ({b[3]}, {b[4]}); "
             f"dG = {b[4] - g0:.3e} Ha")]


def spring_hessian(coords, k0=0.35):
    """rigid-motion invariant model Hessian: a harmonic spring between every pair of atoms (Ha / A^2)"""
    c = np.asarray(coords, dtype=float)
    n = len(c)
    H = np.zeros((3 * n, 3 * n))
    for i in range(n):
        for j in range(i + 1, n):
            d = c[j] - c[i]
            r = np.linalg.norm(d)
            blk = (k0 / r ** 2) * np.outer(d / r, d / r)
            for a, b, sg in ((i, i, 1), (j, j, 1), (i, j, -1), (j, i, -1)):
                H[3 * a:3 * a + 3, 3 * b:3 * b + 3] += sg * blk
    return H


def eval_reorder(case):
    """a species that CARRIES a Hessian is re-ordered in place (Species.reorder_atoms) and the contributions are recomputed:
    they must not change (atom order) and must equal those of a species built directly in the new order"""
    import autode as ade
    from autode.hessians import Hessian
    sym, co, kw = case["symbols"], np.array(case["coords"], dtype=float), dict(case["kw"])

    def build(symbols, coords):
        sp = ade.Species(name="c12_reorder", atoms=[ade.Atom(a, *map(float, c)) for a, c in zip(symbols, coords)], charge=0, mult=1)
        sp.hessian = Hessian(spring_hessian(coords), atoms=sp.atoms, units="Ha Å^-2")
        return sp

    sp = build(sym, co)
    sp.calc_thermo(**kw)
    h0, g0 = float(sp.h_cont), float(sp.g_cont)
    f0 = sorted(float(f) for f in sp.vib_frequencies)
    mapping = {int(k): int(v) for k, v in case["mapping"].items()}
    sp.reorder_atoms(mapping=mapping)
    sp.calc_thermo(**kw)
    h1, g1 = float(sp.h_cont), float(sp.g_cont)
    f1 = sorted(float(f) for f in sp.vib_frequencies)
    order = sorted(mapping, key=lambda k: mapping[k])
    fresh = build([sym[i] for i in order], co[order])
    fresh.calc_thermo(**kw)
    h2, g2 = float(fresh.h_cont), float(fresh.g_cont)
    fails = []
    if [a.label for a in sp.atoms] != [sym[i] for i in order]:
        return [("Species.reorder_atoms|atoms-not-reordered", f"{sym} mapping {mapping}: atoms afterwards {[a.label for a in sp.atoms]}")]
    if max(abs(h1 - h0), abs(g1 - g0), abs(h2 - h0), abs(g2 - g0)) > TOL_HA:
        fails.append(("Species.reorder_atoms|thermo-depends-on-atom-order",
                      f"{''.join(sym)} with a pairwise-spring Hessian, {kw}: (H,G) = ({h0}, {g0}); after reorder_atoms({mapping}) and calc_thermo again "
                      f"({h1}, {g1}); a species built in the new order ({h2}, {g2}); vibrational frequencies before {np.round(f0, 2).tolist()} "
                      f"after {np.round(f1, 2).tolist()}"))
    return fails


def eval_failed_call(case):
    """a call that fails must leave (h_cont, g_cont) a consistent pair: untouched"""
    from autode.thermochemistry.igm import calculate_thermo_cont
    sym, co, fr = case["symbols"], case["coords"], case["freqs"]
    good, bad = dict(case["kw"]), dict(case["bad_kw"])
    fails = []
    tag = f"{case['molecule']}: call with {bad} "
    for first in (False, True):
        sp = make_species(sym, co, fr)
        before = (None, None)
        if first:
            calculate_thermo_cont(sp, **good)
            before = (float(sp.h_cont), float(sp.g_cont))
        n_before = len(sp.energies)
        try:
            calculate_thermo_cont(sp, **bad)
        except Exception as e:  # noqa
            exc = type(e).__name__
        else:
            continue            # accepted: nothing to check here
        after = (None if sp.h_cont is None else float(sp.h_cont), None if sp.g_cont is None else float(sp.g_cont))
        if after != before or len(sp.energies) != n_before:
            fails.append(("calculate_thermo_cont|inconsistent-H-G-after-failed-call",
                          tag + f"raised {exc}; (h_cont, g_cont) before = {before} ({'after a successful ' + repr(good) if first else 'fresh species'}), "
                          f"after the failed call = {after}: not the pair of one evaluation"))
    return fails


EVAL = {"near-linear": eval_near_linear, "reorder": eval_reorder, "failed-call": eval_failed_call,
        "frame": lambda c: eval_frame(c)[0], "identities": eval_identities, "units": eval_units, "sn-order": eval_sn_order,
        "config": eval_config, "sequence": eval_sequence}


# ================================================================================================ correspondence
def atom_rows(sp):
    return [[float(a.mass)] + [float(x) for x in a.coord] for a in sp.atoms]


def coq_rows(rows):
    return "[" + "; ".join(qc_list(r) for r in rows) + "]"


def corr_terms_for(ctx, add, name, sp, linear, sigma, T, freqs, light=False):
    """Coq terms comparing the generated formulas (evaluated at Qc) with the implementation on species `sp`
    (its CURRENT coordinates).  light: tensor-related terms only."""
    from autode.thermochemistry import igm
    rows = atom_rows(sp)
    R = coq_rows(rows)
    n = len(rows)
    c = np.array([r[1:] for r in rows])
    m = np.array([r[0] for r in rows])
    scale = float(np.sum(m * np.sum(c * c, axis=1))) + 1.0
    lscale = float(np.max(np.abs(c))) + 1.0
    flat = lambda M: [float(x) for x in np.asarray(M, dtype=float).flatten()]   # noqa: E731
    add(f"check_moi {R} {qc_list(flat(sp.moi))} {qc(scale)}", dict(kind="moi", molecule=name), ("moi", name, n))
    if not light:
        add(f"check_com {R} {qc_list(flat(sp.com))} {qc(lscale)}", dict(kind="com", molecule=name), ("com", name, n))
        add(f"check_weight {R} {qc(float(sp.weight))}", dict(kind="weight", molecule=name), ("weight", name, n))
    moi_fn = getattr(igm, "_moi_about_com", None)
    if n > 1 and moi_fn is not None:
        mac = moi_fn(sp)
        add(f"check_mac {R} {qc_list(flat(mac))} {qc(scale)}", dict(kind="moi_about_com", molecule=name), ("mac", name, n))
    if n > 1:
        q = float(igm._q_rot_igm(sp, temp=T, sigma_r=sigma))
        if linear:
            add(f"check_q_rot_linear {R} {qc(T)} {qc(float(sigma))} {qc(q)}", dict(kind="q_rot-linear", molecule=name, T=T, sigma=sigma),
                ("qrl", name, T, sigma))
        elif moi_fn is not None:
            eig = [float(x) for x in np.linalg.eigvalsh(np.array(moi_fn(sp).to("kg m^2"), dtype=float))]
            add(f"check_eig {R} {qc_list(eig)}", dict(kind="eig-oracle", molecule=name), ("eig", name))
            add(f"check_q_rot_sq {R} {qc_list(eig)} {qc(T)} {qc(float(sigma))} {qc(q * q)}",
                dict(kind="q_rot-nonlinear-squared", molecule=name, T=T, sigma=sigma), ("qrs", name, T, sigma))
    if light:
        return
    for ss, cs in (("1atm", "SS_1atm"), ("1M", "SS_1M")):
        qt = float(igm._q_trans_igm(sp, ss=ss, temp=T))
        add(f"check_q_trans_sq {R} {cs} {qc(T)} {qc(qt * qt)}", dict(kind="q_trans-squared", molecule=name, T=T, ss=ss), ("qts", name, T, ss))
    if n > 1 and freqs is not None:
        vib = [float(f) for f in sp.vib_frequencies]
        add(f"check_zpe {R} {qc_list(vib)} {qc(float(igm._zpe(sp)))}", dict(kind="zpe", molecule=name), ("zpe", name, len(vib)))
        p = igm._ThermoParams(default_sigma_r=sigma, T=T, lfm_method="igm", ss="1atm")
        u = float(igm._internal_energy(sp, p)) - float(igm._internal_vib_energy(sp, p))
        add(f"check_u_rational {R} {coq_bool(linear)} {qc_list(vib)} {qc(T)} {qc(u)}", dict(kind="U-rational-part", molecule=name, T=T),
            ("urat", name, T))


# quick tier: one representative per input class for the expensive oracles (the symmetry search inside every evaluation
# costs ~n^3); the thorough tier runs every molecule
QUICK_LOWMODES = {"H2O", "CO2", "rand5", "H2"}
QUICK_IDENTITIES = {"C6H6", "rand8", "cluster51"}
QUICK_UNITS = {"H", "H2", "CO2", "H2O", "rand5"}
QUICK_CORR_SKIP = {"Ar", "C2H2", "BH3", "C2H4", "rand3", "rand4", "H2O~", "NH3~", "rand20", "HF", "NH3", "BF3", "HCN", "rand12"}     # thorough tier runs them all


def correspondence(ctx, samples, full):
    """samples: list of (case, info) from the frame stream.  -> (disagreements, error)"""
    from autode.thermochemistry import igm
    k_b, _, C = si()
    terms, descr = [], []

    cost = []
    cur = [1]

    def add(term, d, key, nontrivial=True):
        terms.append(term)
        descr.append(d)
        heavy = {"eig-oracle": 6, "moi_about_com": 3, "moi": 2, "q_rot-nonlinear-squared": 2}.get(d.get("kind"), 1)
        cost.append(cur[0] * heavy)
        ctx.count("model-vs-impl", key, nontrivial, sample=d)

    seen = set()
    by_n = {c["molecule"]: c["symbols"] for c, _ in samples}
    for case, info in samples:
        name, T = case["molecule"], float(case["kw"]["temp"])
        sigma = case["sigma"] if case["sigma"] is not None else 1
        n = len(case["symbols"])
        cur[0] = n
        for tag, sp in (("base", info["sp"]), ("moved", info["sp_moved"])):
            if (name, tag) in seen:
                continue
            seen.add((name, tag))
            if n > 12 and not full and (tag == "moved" or any(len(by_n.get(k[0], ())) > 12 for k in seen if k != (name, tag))):
                continue
            if not full and (name in QUICK_CORR_SKIP or (tag == "moved" and n > 3)):
                continue
            corr_terms_for(ctx, add, f"{name}/{tag}", sp, case["linear"], sigma, T, case["freqs"],
                           light=(not full and n > 5 and tag == "moved"))
        cur[0] = 1
        # the assembly on this case's numbers
        sp = info["sp"]
        p = params_of(case, sigma)
        p.sigma_r = sigma
        S, U = float(igm._entropy(sp, p)), float(igm._internal_energy(sp, p))
        add(f"check_h_assembly {qc(U)} {qc(T)} {qc(info['h'])}", dict(kind="H-assembly", molecule=name, kw=case["kw"]), ("hasm", name, repr(case["kw"])))
        add(f"check_g_assembly {qc(info['h'])} {qc(T)} {qc(S)} {qc(info['g'])}", dict(kind="G-assembly", molecule=name, kw=case["kw"]),
            ("gasm", name, repr(case["kw"])))
    for T in (100.0, 298.15, 1000.0):
        add(f"check_vol_reference {qc(T)}", dict(kind="effective-volumes-vs-definition", T=T), ("volref", T))
        v_atm, v_m = ref_volumes(T)
        add(f"check_vol [] SS_1atm {qc(T)} {qc(v_atm)} && check_vol [] SS_1M {qc(T)} {qc(v_m)}", dict(kind="effective-volumes", T=T), ("vol", T))
    # the hand model of the linearity oracle: near-linear triatomics in every atom order, and the exact templates
    import itertools
    from autode.values import Angle
    tol_lin = float(np.abs(1.0 - np.cos(Angle(1.0, units="degrees").to("rad"))))
    lin_cases = [("".join(s3_), bent_triatomic(s3_, dl, 1.0625, 1.1875), s3_, dl) for s3_ in (["O", "C", "O"], ["H", "C", "N"]) for dl in (0.5, 1.5, 2.5)]
    for nm, co3, sy3, dl in lin_cases:
        for pm in itertools.permutations(range(3)):
            sp3 = make_species([sy3[i] for i in pm], [co3[i] for i in pm], None)
            add(f"check_are_linear {coq_rows(atom_rows(sp3))} {qc(tol_lin)} {coq_bool(bool(sp3.is_linear()))}",
                dict(kind="are_linear", molecule=nm, delta=dl, perm=list(pm)), ("lin", nm, dl, pm))
    for case, info in samples:
        if len(case["symbols"]) <= (5 if not full else 9):           # the decision is cubic in the number of atoms
            add(f"check_are_linear {coq_rows(atom_rows(info['sp']))} {qc(tol_lin)} {coq_bool(bool(info['sp'].is_linear()))}",
                dict(kind="are_linear", molecule=case["molecule"]), ("lin", case["molecule"], repr(case["kw"])))
    for w0 in ((50.0, 100.0, 250.0) if full else (100.0, 250.0)):
        for f in ((8.125, 99.875, 100.0, 731.5, 3500.0) if full else (8.125, 100.0, 3500.0)):
            for alpha in ((1, 2, 4, 6) if full else (1, 4, 6)):
                w = float(igm._grimme_w(omega_0=w0, freq=f, alpha=alpha))
                add(f"check_grimme_w {qc(w0)} {qc(f)} {coq_nat(alpha)} {qc(w)}", dict(kind="grimme_w", w0=w0, f=f, alpha=alpha), ("gw", w0, f, alpha))
    # balance the shards: heaviest terms first, dealt round-robin
    nshards = max(1, min(14, len(terms) // 8))
    order = sorted(range(len(terms)), key=lambda i: -cost[i])
    shards = [[] for _ in range(nshards)]
    for k, i in enumerate(order):
        shards[k % nshards].append(i)
    per = max(len(s_) for s_ in shards)
    layout, flat_terms = [], []
    for s_ in shards:
        for i in s_:
            layout.append(i)
            flat_terms.append(terms[i])
        for _ in range(per - len(s_)):
            layout.append(None)
            flat_terms.append("true")
    bad, err = ctx.coq_bad_indices(PRE, flat_terms, per_file=per, name="c12cases", timeout=300)
    bad = [layout[i] for i in bad if layout[i] is not None]
    return [(descr[i], terms[i]) for i in bad], err


# ================================================================================================ build
def direct_build(ctx):
    """Fallback when `make` over the SHARED coq tree fails outside this slice: compile the slice in order."""
    import fcntl
    with open(os.path.join(VERIF, ".work", "coq.lock"), "w") as lk:
        fcntl.flock(lk, fcntl.LOCK_EX)
        for f in BUILD_ORDER:
            vo = os.path.join(COQ, f + "o")
            if f.startswith(("lib/", "C06/")) and os.path.exists(vo) and os.path.getmtime(vo) >= os.path.getmtime(os.path.join(COQ, f)) \
                    and os.path.getmtime(vo) >= os.path.getmtime(os.path.join(COQ, "gen/C06_Gen.v")):
                continue
            rc, out = sh(["timeout", "600", "coqc", "-Q", COQ, "AV", "-w", "-notation-overridden,-deprecated", f], cwd=COQ, timeout=630)
            if rc != 0:
                return False, f"{f}: {out[-2500:]}"
    return True, ""


def proofs_step(ctx):
    """hygiene + make + Print Assumptions of every theorem (as Ctx.proofs, with the assumption queries sharded over several
    coqc processes); falls back to compiling the slice file by file when make fails outside the slice."""
    from concurrent.futures import ThreadPoolExecutor
    info = {"hygiene": ctx.hygiene(SLICE), "build_ok": False, "log_tail": "", "assumptions": {}}
    ok, log = ctx.coq_make(["C12/Props.vo", "C12/Corr.vo"])
    info["log_tail"] = log[-3000:]
    names = ctx.theorems_in("C12/Props.v") if os.path.exists(os.path.join(COQ, "C12/Props.v")) else []
    ctx.cov["obligations"] += len(names)
    ctx.cov["theorems"] = ctx.cov.get("theorems", []) + names
    ctx.cov["checker_cmd"] = ("make -f Makefile.coq C12/Props.vo C12/Corr.vo (coqc 8.16.1, full .vo build) ; coqc Print Assumptions for each "
                              "Theorem of C12/Props.v")
    if not ok and not info["hygiene"]:
        err_files = [f.lstrip("./") for f in re.findall(r'File "([^"]+)"', log)]
        if not any(f in SLICE or f in BUILD_ORDER for f in err_files):
            ctx.log("make failed outside the C12 slice (shared tree); compiling the slice directly")
            ok, log2 = direct_build(ctx)
            info["log_tail"] = log2 or info["log_tail"]
            ctx.cov["checker_cmd"] = ("coqc 8.16.1 on each file of the C12 slice in dependency order ; coqc Print Assumptions for each "
                                      "Theorem of C12/Props.v")
    info["build_ok"] = ok
    if not ok or info["hygiene"] or not names:
        return False, info
    nsh = min(6, len(names))
    chunks = [names[i::nsh] for i in range(nsh)]

    def one(k):
        body = "Require Import AV.C12.Props.\n" + "".join(
            f'Goal True. idtac "@@BEGIN {n}". exact I. Qed.\nPrint Assumptions {n}.\n' for n in chunks[k])
        rc, out = ctx.coq_run(f"Assumptions_C12_{k}", body, timeout=600)
        if rc != 0:
            return None, out
        parts = re.split(r"@@BEGIN (\S+)\n", out)
        return {parts[i]: parts[i + 1].strip() for i in range(1, len(parts) - 1, 2)}, out

    assm = {}
    with ThreadPoolExecutor(max_workers=nsh) as ex:
        for res, out in ex.map(one, range(nsh)):
            if res is None:
                info["build_ok"] = False
                info["log_tail"] = out[-3000:]
                return False, info
            assm.update(res)
    if set(assm) != set(names):
        info["log_tail"] = f"Print Assumptions answered for {sorted(assm)} instead of {names}"
        return False, info
    info["assumptions"] = assm
    ctx.cov["discharged"] += len(names)
    ctx.cov["closed_theorems"] = sum(1 for t in assm.values() if "Closed under the global context" in t)
    ctx.cov["axioms_print_assumptions"] = sorted(
        {ln.split(":")[0].strip() for t in assm.values() if "Closed under the global context" not in t
         for ln in t.split("\n") if re.match(r"^[A-Za-z_][\w.']*\s*:", ln) and not ln.startswith("Axioms")})
    return True, info


# ================================================================================================ run
def guarded(fails, key, fn, case):
    """run an oracle; an exception of the implementation on a valid input is itself a finding"""
    try:
        return fn(case)
    except Exception as e:  # noqa
        import traceback
        fails.add(f"{key}|raises:{type(e).__name__}", f"{case.get('molecule')} {case.get('kw')}: {type(e).__name__}: {e}",
                  dict(case, traceback=traceback.format_exc()[-1500:]))
        return None


def run(ctx):
    sys.path.insert(0, REPO)
    np.seterr(all="ignore")
    warnings.filterwarnings("ignore")
    import logging
    logging.disable(logging.CRITICAL)
    full = not ctx.quick
    pins_changed = source_pins(ctx.pid, PINS)
    ctx.cov["source_pins"] = {"pinned": len(PINS), "changed": pins_changed}
    if pins_changed:
        ctx.log("source pins changed:", pins_changed)
    # 1. regenerate the models from the repository (C06_Gen is needed by the units statement)
    rc0, out0 = sh(["python3", f"{VERIF}/tr/translate_units.py"], timeout=120)
    rc, out = sh(["python3", f"{VERIF}/tr/translate_c12.py"], timeout=120)
    translated = rc == 0 and rc0 == 0
    gen_path = os.path.join(COQ, "gen", "C12_Gen.v")
    gen_text = open(gen_path).read() if translated and os.path.exists(gen_path) else None
    ctx.log("translator:", (out if rc0 == 0 else out0).strip()[:400])
    ctx.cov["translator"] = {"ok": translated, "output": (out0.strip()[:200] + " | " + out.strip())[:1500]}
    # 2. proofs over the regenerated model
    info = {"hygiene": [], "log_tail": out, "build_ok": False}
    proofs_ok = corr_built = False
    if translated:
        proofs_ok, info = proofs_step(ctx)
        ctx.log("proofs:", "ok" if proofs_ok else "BROKEN")
        ctx.cov["print_assumptions"] = info.get("assumptions", {})
        corr_built = proofs_ok
        if not proofs_ok:
            ctx.log("proof failure:", info["log_tail"][-1200:])
            if not info["hygiene"]:
                corr_built, _ = ctx.coq_make(["C12/Corr.vo"])      # the regenerated model may still be runnable
    else:
        ctx.cov["obligations"] += len(ctx.theorems_in("C12/Props.v"))
        ctx.cov["checker_cmd"] = "translator failed closed; proofs not attempted"
    # 3. implementation-side property oracles
    rng = ctx.rng
    fails = Fails(ctx)
    mols = library(rng, full)
    psets = parameter_sets(rng, full)
    samples = []
    n_frames = 2 if not full else 4
    rot = 0
    for mol in mols:
        n = len(mol["symbols"])
        big = n > 12
        for fi, (fname, freqs) in enumerate(freq_sets(rng, mol, full).items()):
            if not full and (fname == "high" or (fname == "lowmodes" and mol["name"] not in QUICK_LOWMODES)):
                continue
            # rotate through the parameter sets so that every method / state is covered
            if full:
                k = len(psets) if n <= 4 else (8 if n <= 8 else (4 if n <= 12 else 2))
            else:
                k = 2 if n <= 3 else 1
            step = 3 if not full else 5          # coprime to len(psets) = 8 (quick) / 24 (thorough)
            chosen = [psets[(rot + step * j) % len(psets)] for j in range(k)]
            rot += 1
            for ki, kw in enumerate(chosen):
                kw = dict(kw)
                first = ki == 0
                sigma = rng.choice([1, 1, 2, 3, 6])
                mots = motions(rng, n, n_frames if not big else 2)
                if n > 50:
                    mots[0] = dict(q=[1, 0, 0, 0], improper=False, t=[10.0, 3.0, -7.0], perm=None)     # pure translation
                share = {}
                for mo in mots:
                    case = frame_case(mol, fname, freqs, kw, mo, sigma)
                    case["linear"] = mol["linear"]
                    res = guarded(fails, "calculate_thermo_cont", eval_frame, dict(case, _share=share, _base=share.get("_base")))
                    ctx.count("impl-frame-invariance", (mol["name"], fname, repr(kw), repr(mo), sigma), nontrivial=True,
                              sample=dict(molecule=mol["name"], n_atoms=n, freq_set=fname, kw=kw, motion=mo, sigma=sigma))
                    ctx.hist("impl-frame-invariance", f"atoms:{size_class(n)}")
                    ctx.hist("impl-frame-invariance", f"method:{kw['lfm_method']}")
                    if res is None:
                        continue
                    fl, inf = res
                    for key, what in fl:
                        fails.add(key, what, case)
                    if mo is mots[0] and len(samples) < (400 if full else 70) and \
                            sum(1 for c, _ in samples if c["molecule"] == mol["name"]) < (6 if full else 2):
                        samples.append((case, inf))
                # identities and units on the base structure
                icase = dict(case, kind="identities", motion=None)
                if full or (first and (n <= 5 or mol["name"] in QUICK_IDENTITIES)):
                    icase["light"] = (n > 5 or fi > 0) if not full else (n > 8 and not first)
                    fl = guarded(fails, "calculate_thermo_cont", eval_identities, icase)
                    ctx.count("impl-identities", (mol["name"], fname, repr(kw), sigma), nontrivial=True,
                              sample=dict(molecule=mol["name"], freq_set=fname, kw=kw, sigma=sigma))
                    for key, what in (fl or []):
                        fails.add(key, what, icase)
                if not big and first and (full or (fi == 0 and mol["name"] in QUICK_UNITS)):
                    ucase = dict(case, kind="units", motion=None)
                    fl = guarded(fails, "calculate_thermo_cont", eval_units, ucase)
                    ctx.count("impl-number-vs-unit", (mol["name"], fname, repr(kw)), nontrivial=True, sample=dict(molecule=mol["name"], kw=kw))
                    for key, what in (fl or []):
                        fails.add(key, what, ucase)
    ctx.log(f"explicit-sigma streams done: {fails.n} failures")
    # default symmetry number (the symmetry search is an ORACLE: its own frame / order dependence is reported under its own keys)
    observed = set()
    for mol in mols:
        n = len(mol["symbols"])
        if n == 1 or n > 50 and not full:
            continue
        if not (mol["symmetric"] or mol["name"] in ("rand3", "rand5", "rand8", "cluster51", "cluster64")):
            continue
        fsets = freq_sets(rng, mol, full)
        freqs = fsets["mixed"]
        kw = dict(temp=298.15, ss="1M", lfm_method="grimme")
        reps = 1 if not full else 5
        mlist = [("rigid", m) for m in motions(rng, n, reps, with_perm=False)]
        for _ in range(reps):
            p = list(range(n))
            rng.shuffle(p)
            mlist.append(("perm", dict(q=[1, 0, 0, 0], improper=False, t=[0.0, 0.0, 0.0], perm=p)))
        mlist += [("rigid+perm", m) for m in motions(rng, n, reps) if m["perm"] is not None]
        for cls, mo in mlist:
            if cls == "rigid":
                mo["improper"] = False
            case = frame_case(mol, "mixed", freqs, kw, mo, None)
            case["linear"] = mol["linear"]
            res = guarded(fails, "calculate_thermo_cont", eval_frame, case)
            ctx.count("impl-frame-invariance-default-sn", (mol["name"], repr(mo)), nontrivial=True,
                      sample=dict(molecule=mol["name"], motion=mo, cls=cls))
            ctx.hist("impl-frame-invariance-default-sn", cls)
            if res is None:
                continue
            for key, what in res[0]:
                observed.add(key)
                fails.add(key, what, case)
    # atom order of exact small molecules: exhaustive for n <= 4, sampled above
    import itertools
    by_name = {m["name"]: m for m in mols}
    for name in ORDER_INDEPENDENT:
        mol = by_name.get(name)
        if mol is None:
            continue
        n = len(mol["symbols"])
        if n <= 3 or (full and n <= 5):
            perms = [list(p) for p in itertools.permutations(range(n))][1:]
        else:
            perms = [list(range(k, n)) + list(range(k)) for k in range(1, n)]              # every atom first once
            while len(perms) < ((n + 2) if not full else 40):
                p = list(range(n))
                rng.shuffle(p)
                perms.append(p)
        freqs = freq_sets(rng, mol, full)["mixed"]
        for p in perms:
            case = dict(kind="sn-order", molecule=name, symbols=mol["symbols"], coords=mol["coords"], perm=p, freqs=freqs, linear=mol["linear"])
            fl = guarded(fails, "Species.sn", eval_sn_order, case)
            ctx.count("impl-symmetry-number-atom-order", (name, tuple(p)), nontrivial=True, sample=dict(molecule=name, perm=p))
            for key, what in (fl or []):
                observed.add(key)
                fails.add(key, what, case)
    # run-time Config changes act like the keywords; a re-used species follows its geometry
    for name, fname in (("H2O", "lowmodes"), ("Ar", "none")) + (() if not full else (("CO2", "lowmodes"), ("rand5", "lowmodes"))) + \
            ((("C6H6", "mixed"), ("rand12", "lowmodes"), ("cluster51", "mixed")) if full else ()):
        mol = by_name.get(name)
        if mol is None:
            continue
        fs = freq_sets(rng, mol, full)
        case = dict(kind="config", molecule=name, symbols=mol["symbols"], coords=mol["coords"], freq_set=fname, freqs=fs.get(fname, fs.get("mixed")),
                    kw=dict(temp=rng.choice([200.0, 298.15, 550.0])), sigma=rng.choice([1, 2]), linear=mol["linear"])
        fl = guarded(fails, "calculate_thermo_cont", eval_config, case)
        ctx.count("impl-config-at-run-time", (name, fname, case["kw"]["temp"]), nontrivial=True, sample=dict(molecule=name, T=case["kw"]["temp"]))
        for key, what in (fl or []):
            fails.add(key, what, case)
    # near-linear triatomics: the linear / non-linear decision and the 5-or-6 split of the frequencies in every atom order
    for sym3, d1, d2 in ((["O", "C", "O"], 1.125, 1.125), (["H", "C", "N"], 1.0625, 1.1875)):
        for delta in (0.5, 1.5, 2.5):
            case = dict(kind="near-linear", molecule="".join(sym3), symbols=sym3, coords=bent_triatomic(sym3, delta, d1, d2), delta=delta,
                        freqs=[0.0] * 5 + [12.0, 667.0, 1388.0, 2349.0], sigma=1, kw=dict(temp=298.15, ss="1M", lfm_method=rng.choice(METHODS)))
            fl = guarded(fails, "calculate_thermo_cont", eval_near_linear, case)
            ctx.count("impl-near-linear-atom-order", ("".join(sym3), delta), nontrivial=True, sample=dict(symbols=sym3, delta=delta))
            for key, what in (fl or []):
                fails.add(key, what, case)
    # a species carrying a Hessian, re-ordered in place with non-involutive permutations
    rsets = [(["C", "N", "O", "H", "F"], [[0, 0, 0], [1.25, 0.125, 0], [0.25, 1.375, 0.25], [-0.625, -0.5, 0.875], [1.875, 1.125, -0.75]]),
             (["O", "H", "F", "Cl"], [[0, 0, 0.125], [0.75, 0, -0.5], [-1.25, 0.25, 0.375], [0.375, 1.625, 0.25]]),
             (["O", "C", "S"], bent_triatomic(["O", "C", "S"], 1.5, 1.125, 1.5625)),          # within the near-linear band
             (["H", "C", "N"], bent_triatomic(["H", "C", "N"], 1.25, 1.0625, 1.1875)),     # (a model Hessian of a structure the oracle calls
                                                                                            #  linear has a zero mode among its vibrations: not used)
             (["F", "C", "N"], bent_triatomic(["F", "C", "N"], 2.5, 1.25, 1.1875))]
    for sym_r, co_r in rsets:
        n = len(sym_r)
        cyc = [{i: (i + 1) % n for i in range(n)}, {i: (i + 2) % n for i in range(n)},
               {**{i: i for i in range(n)}, 0: 1, 1: 2, 2: 0}, {**{i: i for i in range(n)}, 0: 1, 1: 0}]
        while len(cyc) < ((6 if n > 3 else 5) if not full else (16 if n > 3 else 6)):
            p = list(range(n))
            rng.shuffle(p)
            cyc.append({i: p[i] for i in range(n)})
        for mp in cyc:
            case = dict(kind="reorder", molecule="".join(sym_r), symbols=sym_r, coords=co_r, mapping={str(k): v for k, v in mp.items()},
                        kw=dict(temp=rng.choice([298.15, 350.0]), ss="1M", lfm_method=rng.choice(METHODS), sn=1))
            fl = guarded(fails, "Species.reorder_atoms", eval_reorder, case)
            involutive = all(mp[mp[i]] == i for i in mp)
            ctx.count("impl-reorder-with-hessian", ("".join(sym_r), tuple(sorted(mp.items()))), nontrivial=not involutive, sample=dict(symbols=sym_r, mapping=mp))
            ctx.hist("impl-reorder-with-hessian", "involutive" if involutive else "non-involutive")
            for key, what in (fl or []):
                fails.add(key, what, case)
    # failing calls leave the stored pair untouched
    for name in ("H2O", "Ar", "CO2"):
        mol = by_name[name]
        fr = freq_sets(rng, mol, full).get("mixed")
        for bad_kw in (dict(temp=350.0, ss="1 atm", lfm_method="igm"), dict(temp=350.0, ss="1bar", lfm_method="grimme"),
                       dict(temp=350.0, ss="1M", lfm_method="grimme", w0=7000.0), dict(temp=350.0, ss="1M", lfm_method="nonsense")):
            case = dict(kind="failed-call", molecule=name, symbols=mol["symbols"], coords=mol["coords"], freqs=fr,
                        kw=dict(temp=298.15, ss="1M", lfm_method="grimme", sn=1), bad_kw=dict(bad_kw, sn=1))
            fl = guarded(fails, "calculate_thermo_cont", eval_failed_call, case)
            ctx.count("impl-failed-call", (name, repr(bad_kw)), nontrivial=True, sample=dict(molecule=name, bad_kw=bad_kw))
            for key, what in (fl or []):
                fails.add(key, what, case)
    for seq in sequences(mols):
        for kw in (dict(temp=298.15, ss="1M", lfm_method="grimme"), dict(temp=500.0, ss="1atm", lfm_method="igm"))[:2 if full else 1]:
            mol = by_name[seq["molecule"]]
            case = dict(seq, kw=kw, freqs=freq_sets(rng, mol, full)["mixed"])
            fl = guarded(fails, "calculate_thermo_cont", eval_sequence, case)
            ctx.count("impl-geometry-change-sequence", (seq["molecule"], repr(kw)), nontrivial=True, sample=dict(molecule=seq["molecule"], kw=kw))
            for key, what in (fl or []):
                fails.add(key, what, case)
    ctx.check_known_still_fail(observed)
    ctx.log(f"implementation oracles: {fails.n} failures ({len(fails.per_key)} distinct keys)")
    ctx.cov["oracle_failures"] = {k: v for k, v in fails.per_key.items()}
    # 4. correspondence: the generated formulas evaluated by Coq vs the implementation
    corr_bad, corr_err = [], None
    if corr_built:
        try:
            corr_bad, corr_err = correspondence(ctx, samples, full)
        except Exception as e:  # noqa  (internal API of igm.py changed: the tie cannot be evaluated)
            import traceback
            corr_err = f"correspondence could not be evaluated: {type(e).__name__}: {e}\n{traceback.format_exc()[-1200:]}"
        ctx.log(f"correspondence: {len(corr_bad)} disagreements" + (f"; coq error {corr_err[:400]}" if corr_err else ""))
        ctx.cov["disagreements"] = len(corr_bad)
    # 5. decide
    if gen_text is not None and open(gen_path).read() != gen_text:
        ctx.violation("coq/gen/C12_Gen.v was rewritten by a concurrent run (another VERIF_REPO) while this check was running: the proofs / "
                      "correspondence of this run are not about this repository; re-run", {"kind": "concurrent-run"}, found_input=False)
    unknown = len(ctx.violations)
    if not translated:
        if unknown == 0:
            ctx.violation("the formulas of igm.py / atoms.py are no longer translatable (model cannot be regenerated): " + out.strip()[:300],
                          {"kind": "untranslatable", "translator_output": (out0 + out)[-1500:]}, found_input=False)
    elif not proofs_ok:
        ctx.proof_failure(info, found_any_input=(unknown > 0))
    if pins_changed and len(ctx.violations) == 0 and not (corr_bad or corr_err):
        ctx.violation("hand model no longer pinned to the source: " + ", ".join(pins_changed),
                      {"kind": "source-pin", "changed": pins_changed}, found_input=False)
    if corr_bad or corr_err:
        if unknown == 0 and len(ctx.violations) == 0:
            ctx.violation("generated model and implementation disagree (stream model-vs-impl) and no property-level oracle failed",
                          {"kind": "correspondence", "first": [d for d, _ in corr_bad[:6]], "coq_terms": [t[:1500] for _, t in corr_bad[:2]],
                           "coq_error": corr_err}, found_input=False)
        else:
            ctx.log("correspondence disagreements accompany the implementation-level findings above:", [d for d, _ in corr_bad[:4]])


def replay(ctx, obj):
    sys.path.insert(0, REPO)
    np.seterr(all="ignore")
    warnings.filterwarnings("ignore")
    case = obj.get("replay", {})
    kind = case.get("kind")
    if kind not in EVAL:
        print("replay: nothing to re-run for", kind, "-", obj.get("what"))
        return 1
    try:
        fl = EVAL[kind](case)
    except Exception as e:  # noqa
        print(f"replay: implementation raised {type(e).__name__}: {e}")
        return 1
    for key, what in fl:
        print("replay:", key, "-", what)
    print("replay:", "property violated" if fl else "no violation on this input", "; stored:", obj.get("what"))
    return 1 if fl else 0


MANIFEST = {
    "technique": ("Coq proof over formulas regenerated from source (ast translator of igm.py / Atoms.moi,com) + Coq evaluation of the "
                  "rational-closed parts against the implementation + property identities and invariances checked on the implementation"),
    "level_text": ("Machine-checked theorems (coq/C12/Props.v) over the translated formulas: H = U + k_B T and G = H - T S as assembled by "
                   "calculate_thermo_cont; sigma enters G only as +k_B T ln(sigma) for both rotor branches; 1atm -> 1M shifts G by "
                   "k_B T ln(V_1atm/V_1M); a single atom has translational terms only; Truhlar = igm exactly when no frequency is below the "
                   "shift; Grimme/Minenkov (PARTIAL): exact gap sum (1-w_i)(s_r-s_v) [(u_r-u_v)], 0 <= 1-w_i <= (w0/f_i)^alpha and a "
                   "(1/K)^alpha * sum|s_r-s_v| bound when all f_i >= K w0 - a bound, not the limit 'coincides when all frequencies are high'; "
                   "the inertia tensor about the centre of mass of ANY number of atoms is translation invariant and transforms by conjugation "
                   "under every orthogonal frame change and atom permutation, trace and determinant invariant (any field; R and Qc), q_rot a "
                   "closed form in the determinant; frame / atom-order independence of H, G, S, U (PARTIAL, thermo_frame_independent_partial): "
                   "proved for all molecule classes (atom, linear, non-linear) for the arithmetic BETWEEN the oracles, under the premises that "
                   "is_linear answers alike in both frames, sigma is the same and the eigenvalue oracle is valid where consulted; "
                   "is_linear_atom_order_independent proves (hand model of the repaired Atoms.are_linear, tied by pin + correspondence) that the "
                   "first premise holds for every atom re-ordering; re-centring/rigid motions preserve all distances; plain numbers and "
                   "unit-carrying temperature/frequency arguments coincide (C06 conv at the same unit)."),
    "level_note": ("Trusted: Coq kernel (+ standard real-number axioms for the ln/exp/sqrt theorems, listed by Print Assumptions); the translator "
                   "(validated each run: Coq evaluates the generated moi/com/weight/_moi_about_com, linear q_rot, q_rot^2, q_trans^2, effective "
                   "volumes, zpe, rational part of U, Grimme weights, the H/G assembly and the hand model of are_linear at Qc against the "
                   "implementation); the reading of numpy functions as real functions; 27 source pins for the hand-written parts. "
                   "NOT proved, only exercised on the implementation: values of the transcendental entropy/energy terms (identities only; the "
                   "generated ln/exp terms are never compared by value); invariance of the oracles (is_linear under rigid motions; symmetry-number search: key "
                   "symmetry_number|atom-order-dependent for benzene-type molecules); the high-frequency limit; Species.calc_thermo / "
                   "calc_g_cont / calc_h_cont entry points, run-time Config, re-used and re-ordered (reorder_atoms with a Hessian) species, failed "
                   "calls. H_is_U_plus_kT / G_is_H_minus_TS / thermo_leaves_geometry / numbers_equal_unit_values are about short (generated or "
                   "hand-written) definitions: their content is that unit factors cancel / a translation preserves distances. "
                   "Imaginary frequencies, |f| or |w0| >= 6000 cm-1 (assert), negative alpha, T <= 0 and non-default coordinate units are outside "
                   "the model. The generated files in coq/gen are shared by concurrent runs: a run whose C12_Gen.v was rewritten meanwhile "
                   "reports itself as inconclusive."),
}
