"""C18 — values read from program outputs and xyz files are the values in the file (DESIGN 6/C18).

Tie (hand model + correspondence): coq/C18/Model.v models the numeric layouts (column-block wrapped
matrices, ORCA/Q-Chem/NWChem reassembly rules, Gaussian lower triangle, per-atom tables, last step
wins, xyz frames with the StringDict title); coq/C18/Props.v proves round trips / size recovery /
truncation for every size.  On every run
  * the line layouts used by the synthesisers are validated against the real outputs in /repo/tests,
  * whole outputs are synthesised per program (1..40 atoms, multi-step, wrapped blocks) and parsed by
    the real wrappers through Calculation.set_output_filename; every line-level truncation is replayed,
  * xyz files are written by the real writer and read by both readers,
  * the Coq models are run on the same token lines / titles as the implementation (coq_bad_indices).
"""
import ast
import contextlib
import io
import re
import math
import os
import shutil
import sys
import traceback
import zipfile

import numpy as np

from common import REPO, VERIF, source_pins, coq_list, coq_nat, coq_z, coq_bool, qc, qc_list, qc_mat, frac

TRUSTED_BASE = [
    "Coq 8.16.1 kernel + coqc; vm_compute only in Examples / _refuted witnesses and in the correspondence shards (no native_compute)",
    "Print Assumptions: every C18 theorem is closed under the global context (lists, nat, Z; no axioms)",
    "hand model coq/C18/Model.v of the parsers' reassembly rules (quoted file:line), tied to /repo by the correspondence streams",
    "output synthesisers harness/c18.py (layouts validated on every run against the real outputs in /repo/tests/test_wrappers/data: token-exact, >=90% byte-exact)",
    "Python float()/str.split()/format(): a printed token stands for the double float(token); decimals modelled as round-half-even of x*10^d",
    "unit factors are taken from autode.constants at run time (their correctness is C06's subject)",
    "IEEE-754 sqrt correctly rounded (size recovery by the float formula, stated range < 2^53)",
]
ASSUMPTIONS = [
    "Theorems are about token lines (Python's split) and abstract values; float<->text conversion and the per-program keyword/regex scanning around the numeric blocks are covered by the correspondence streams only (partial)",
    "Truncation = a prefix of the output cut at a line boundary",
    "ValueError/IndexError/TypeError escaping a parser on a truncated output are counted as the package's own parse-failure family (executors.py:174, utils.no_exceptions, G09.hessian_from docstring) and histogrammed; any other exception class is a finding",
]
RULE = ("programs {ORCA,G09,NWChem,QChem,XTB,MOPAC} x atom counts (quick 1..12, thorough 1..40 incl. every residue of the block "
        "widths 5/6/10) x {1,3} steps x calculation kind {opt,grad,hess} x coordinate-source variants; every line-level "
        "truncation point for small outputs and a strided + block-boundary set for large ones; character-level cuts (after the label, after the sign, mid-number, last exponent digit missing) inside the value lines of the last step; xyz: species 1..40 atoms x "
        "charge x mult x solvent x energy x {1..4} frames, every implicit solvent name of the library, malformed mutants; one Calculation object re-reading a completed / replaced / truncated file;  a case is non-trivial when a block wraps, "
        "several steps are present, the output is truncated or an error is expected; distinct by (program, n, steps, kind, variant, cut)")

# every function the hand model (coq/C18/Model.v) and the synthesisers / independent readers were written from
# (no translator for C18), including the property setters the parsed values pass through.
def _w(mod, cls, names):
    return [(f"autode/wrappers/{mod}.py", f"{cls}.{n}") for n in names]


PINS = (
    _w("ORCA", "ORCA", ["_energy_from", "coordinates_from", "partial_charges_from", "gradient_from", "_start_line_hessian",
                        "hessian_from", "terminated_normally_in"])
    + _w("G09", "G09", ["_energy_from", "coordinates_from", "partial_charges_from", "gradient_from", "hessian_from",
                        "terminated_normally_in"])
    + [("autode/wrappers/G09.py", "_calc_uses_external_method"), ("autode/wrappers/G09.py", "_freq_in_keywords")]
    + _w("NWChem", "NWChem", ["_energy_from", "coordinates_from", "partial_charges_from", "gradient_from",
                              "_atom_masses_from_hessian", "hessian_from", "terminated_normally_in"])
    + _w("QChem", "QChem", ["_energy_from", "coordinates_from", "gradient_from", "hessian_from", "_raw_opt_gradient",
                            "_raw_scf_grad", "_extract_atomic_masses", "_extract_mass_weighted_hessian",
                            "terminated_normally_in"])
    + _w("XTB", "XTB", ["_energy_from", "_get_final_coords_6_2_above", "_get_final_coords_old", "coordinates_from",
                        "partial_charges_from", "gradient_from", "terminated_normally_in"])
    + _w("MOPAC", "MOPAC", ["_energy_from", "coordinates_from", "gradient_from", "terminated_normally_in"])
    + [("autode/wrappers/methods.py", "ExternalMethod.energy_from"), ("autode/wrappers/methods.py", "ExternalMethod.atoms_from"),
       ("autode/geom.py", "symm_matrix_from_ltril"),
       ("autode/input_output.py", "xyz_file_to_atoms"), ("autode/input_output.py", "atoms_to_xyz_file"),
       ("autode/input_output.py", "xyz_file_to_molecules"), ("autode/input_output.py", "attrs_from_xyz_title_line"),
       ("autode/input_output.py", "_check_xyz_file_exists"), ("autode/input_output.py", "_set_attr_from_title_line"),
       ("autode/input_output.py", "_n_atoms_from_first_xyz_line"),
       ("autode/utils.py", "StringDict"), ("autode/utils.py", "NumericStringDict"), ("autode/utils.py", "no_exceptions"),
       ("autode/utils.py", "requires_output_to_exist"),
       ("autode/calculations/output.py", "CalculationOutput"),
       ("autode/calculations/executors.py", "CalculationExecutor.set_properties"),
       ("autode/calculations/executors.py", "CalculationExecutor._no_except_set_gradient"),
       ("autode/calculations/executors.py", "CalculationExecutor._no_except_set_hessian"),
       ("autode/calculations/executors.py", "CalculationExecutor.terminated_normally"),
       ("autode/calculations/calculation.py", "Calculation.set_output_filename"),
       ("autode/calculations/calculation.py", "Calculation._check_properties_exist"),
       ("autode/species/species.py", "Species.print_xyz_file"), ("autode/species/molecule.py", "Molecule._init_xyz_file"),
       ("autode/atoms.py", "Atom.__init__"),
       # the setters the parsed values go through (getter + setter are hashed together)
       ("autode/atoms.py", "Atoms.coordinates"), ("autode/species/species.py", "Species.coordinates"),
       ("autode/species/species.py", "Species.gradient"), ("autode/species/species.py", "Species.hessian"),
       ("autode/species/species.py", "Species.energy"), ("autode/species/species.py", "Species.partial_charges"),
       ("autode/species/species.py", "Species.charge"), ("autode/species/species.py", "Species.mult"),
       ("autode/species/species.py", "Species.solvent_name"), ("autode/species/species.py", "Species._reset_properties_for"),
       ("autode/solvent/solvents.py", "get_solvent")])

SLICE = ["lib/Sums.v", "lib/QcInst.v", "C18/Model.v", "C18/Lemmas.v", "C18/Props.v", "C18/Corr.v"]
PRE = ("From Coq Require Import ZArith QArith Qcanon List String Ascii Bool.\nFrom AV.lib Require Import QcInst.\n"
       "From AV.C18 Require Import Model Corr.\nImport ListNotations.\nOpen Scope list_scope.\n")



# ============================================================================ line layouts
# C18 helper: output-file layouts of the six wrapped programs (line formatters + independent readers).
# 
# Every block has  fmt(values...) -> list of lines  and  read(lines, i, ...) -> values  written
# independently of autodE.  `validate_against_real_files` checks, on the real outputs shipped in
# /repo/tests, that fmt(read(real block)) reproduces the real block (token-exact everywhere,
# byte-exact where the program version uses the same column widths), so that the synthesised outputs
# have the layout the wrappers were written for.  Ground truth for a synthesised file is always
# float(<the printed token>): "the numbers printed there".
# ------------------------------------------------------------------------------------ helpers
def fE(x, w, d):
    return f"{x:{w}.{d}E}"


def fD(x, w, d):
    return f"{x:{w}.{d}E}".replace("E", "D")


def toks(line):
    return line.split()


def same_tokens(a, b):
    return a.split() == b.split()


# ------------------------------------------------------------------------------------ ORCA
class ORCA:
    name = "orca"
    W = 5          # .hess column-block width

    @staticmethod
    def energy(e):
        return [f"FINAL SINGLE POINT ENERGY {e:22.12f}"]

    @staticmethod
    def coords(symbols, xyz):
        out = ["---------------------------------", "CARTESIAN COORDINATES (ANGSTROEM)",
               "---------------------------------"]
        for s, (x, y, z) in zip(symbols, xyz):
            out.append(f"  {s:<2s} {x:12.6f}{y:12.6f}{z:12.6f}")
        out.append("")
        return out

    @staticmethod
    def read_coords(lines, i, n):        # i = index of the title line
        return [[float(v) for v in lines[j].split()[1:4]] for j in range(i + 2, i + 2 + n)]

    @staticmethod
    def gradient(symbols, g):
        out = ["------------------", "CARTESIAN GRADIENT", "------------------", ""]
        for k, (s, (x, y, z)) in enumerate(zip(symbols, g)):
            out.append(f"{k + 1:4d}   {s:<4s}:{x:15.9f}{y:15.9f}{z:15.9f}")
        out += ["", "Difference to translation invariance:",
                "           :   -0.0009018496    0.0013076208    0.0003023584", "",
                "Norm of the cartesian gradient     ...    0.0137801567"]
        return out

    @staticmethod
    def read_gradient(lines, i, n):      # i = index of "CARTESIAN GRADIENT"
        return [[float(v) for v in lines[j].split()[-3:]] for j in range(i + 3, i + 3 + n)]

    @staticmethod
    def charges(symbols, q):
        out = ["------------------", "HIRSHFELD ANALYSIS", "------------------", "",
               "Total integrated alpha density =      4.999999940",
               "Total integrated beta density  =      4.999999940", "",
               "  ATOM     CHARGE      SPIN    "]
        for k, (s, c) in enumerate(zip(symbols, q)):
            out.append(f"{k:4d} {s:<2s}{c:11.6f}{0.0:12.6f}")
        out += ["", f"  TOTAL{sum(q):11.6f}    0.000000", ""]
        return out

    @staticmethod
    def read_charges(lines, i, n):       # i = index of "HIRSHFELD ANALYSIS"
        return [float(lines[j].split()[-2]) for j in range(i + 7, i + 7 + n)]

    @staticmethod
    def hess_matrix(H):
        """the $hessian section body (after the dimension line): header + rows per block of 5"""
        n = len(H)
        out = []
        for c0 in range(0, n, ORCA.W):
            cols = range(c0, min(c0 + ORCA.W, n))
            out.append(" " * 10 + "".join(f"{c:11d}" + " " * 8 for c in cols))
            for r in range(n):
                out.append(f"{r:5d}   " + "".join(fE(H[r][c], 19, 10) for c in cols))
        return out

    @staticmethod
    def read_hess_matrix(lines, i):      # i = index of "$hessian"
        n = int(lines[i + 1].split()[0])
        H = [[None] * n for _ in range(n)]
        j = i + 2
        while any(v is None for row in H for v in row):
            cols = [int(t) for t in lines[j].split()]
            for r in range(n):
                t = lines[j + 1 + r].split()
                assert int(t[0]) == r
                for c, v in zip(cols, t[1:]):
                    H[r][c] = float(v)
            j += n + 1
        return H, j

    @staticmethod
    def hess_file(symbols, xyz_bohr, H, masses=None):
        n = len(H)
        out = ["", "$orca_hessian_file", "", "$act_atom", "  0", "", "$act_coord", "  0", "",
               "$act_energy", "        0.000000", "", "$hessian", str(n)]
        out += ORCA.hess_matrix(H)
        out += ["", "$vibrational_frequencies", str(n)]
        out += [f"{k:5d}{0.0:16.6f}" for k in range(n)]
        out += ["", "$atoms", str(len(symbols))]
        for s, (x, y, z) in zip(symbols, xyz_bohr):
            out.append(f" {s:<2s} {12.011:12.5f} {x:19.12f}{y:19.12f}{z:19.12f}")
        out += ["", "$actual_temperature", "  0.000000", "", "$frequency_scale_factor", "  1.000000", "",
                "$end", ""]
        return out

    @staticmethod
    def termination():
        return ["Timings for individual modules:", "",
                "Sum of individual times         ...       36.082 sec (=   0.601 min)",
                "GTO integral calculation        ...        2.396 sec (=   0.040 min)   6.6 %",
                "                             ****ORCA TERMINATED NORMALLY****",
                "TOTAL RUN TIME: 0 days 0 hours 0 minutes 38 seconds 82 msec"]


# ------------------------------------------------------------------------------------ Gaussian
class G09:
    name = "g09"
    ATNUM = {"H": 1, "C": 6, "N": 7, "O": 8, "F": 9, "Cl": 17, "Br": 35, "S": 16, "P": 15, "Si": 14,
             "Pd": 46, "Li": 3, "B": 5, "Na": 11}

    @staticmethod
    def energy(e):
        return [f" SCF Done:  E(RPBE1PBE) = {e:15.9f}     A.U. after     9 cycles"]

    @staticmethod
    def coords(symbols, xyz):
        out = ["                          Input orientation:                          ",
               " ---------------------------------------------------------------------",
               " Center     Atomic      Atomic             Coordinates (Angstroms)",
               " Number     Number       Type             X           Y           Z",
               " ---------------------------------------------------------------------"]
        for k, (s, (x, y, z)) in enumerate(zip(symbols, xyz)):
            out.append(f"{k + 1:7d}{G09.ATNUM.get(s, 1):11d}{0:12d}    {x:12.6f}{y:12.6f}{z:12.6f}")
        out.append(" ---------------------------------------------------------------------")
        return out

    @staticmethod
    def read_coords(lines, i, n):
        return [[float(v) for v in lines[j].split()[3:6]] for j in range(i + 5, i + 5 + n)]

    @staticmethod
    def forces(symbols, f):
        out = [" -------------------------------------------------------------------",
               " Center     Atomic                   Forces (Hartrees/Bohr)",
               " Number     Number              X              Y              Z",
               " -------------------------------------------------------------------"]
        for k, (s, (x, y, z)) in enumerate(zip(symbols, f)):
            out.append(f"{k + 1:7d}{G09.ATNUM.get(s, 1):9d}{' ' * 7}{x:15.9f}{y:15.9f}{z:15.9f}")
        out += [" -------------------------------------------------------------------",
                " Cartesian Forces:  Max     0.000062560 RMS     0.000015283"]
        return out

    @staticmethod
    def read_forces(lines, i, n):        # i = index of the line with "Forces (Hartrees/Bohr)"
        return [[float(v) for v in lines[j].split()[2:5]] for j in range(i + 3, i + 3 + n)]

    @staticmethod
    def charges(symbols, q):
        out = [" Mulliken charges:", "               1"]
        for k, (s, c) in enumerate(zip(symbols, q)):
            out.append(f"{k + 1:6d}  {s:<2s}{c:11.6f}")
        out.append(f" Sum of Mulliken charges ={sum(q):10.5f}")
        return out

    @staticmethod
    def read_charges(lines, i, n):       # i = index of "Sum of Mulliken charges"
        return [float(lines[j].split()[2]) for j in range(i - n, i)]

    @staticmethod
    def archive(symbols, xyz, H, forces):
        """the final archive entry, wrapped at 70 characters as Gaussian does"""
        n = len(H)
        ltril = [H[i][j] for i in range(n) for j in range(i + 1)]
        geom = "\\".join(f"{s},{x:.6f},{y:.6f},{z:.6f}" for s, (x, y, z) in zip(symbols, xyz))
        s = ("1\\1\\GINC-COMP0805\\Freq\\RPBE1PBE\\def2SVP\\X\\USER\\01-Jan-2020\\0\\\\#P PBE1PBE/def2SVP "
             "Freq\\\\title\\\\0,1\\" + geom + "\\\\Version=EM64L-G09RevD.01\\HF=-13.129738\\RMSD=0.000e+00"
             "\\RMSF=9.898e-05\\PG=C01 [X(C1H3)]\\NImag=0\\\\" +
             ",".join(f"{v:.8f}" for v in ltril) + "\\\\" +
             ",".join(f"{v:.8f}" for row in forces for v in row) + "\\\\\\@")
        return [" " + s[k:k + 70] for k in range(0, len(s), 70)]

    @staticmethod
    def read_archive_ltril(lines):
        """independent reader: join the archive, take the field after NImag=..\\\\"""
        # the archive entry is wrapped at 70 characters, so "NImag" itself may be split over two
        # lines: join from the start of the last archive entry before searching
        j = max(k for k, l in enumerate(lines) if l.startswith(" 1\\1\\"))
        txt = "".join(l[1:].rstrip("\n") for l in lines[j:])
        txt = txt[txt.rindex("NImag"):]
        field = txt.split("\\\\")[1]
        return [float(v) for v in field.split(",")]

    @staticmethod
    def termination():
        return [" Job cpu time:       0 days  0 hours  0 minutes 13.0 seconds.",
                " File lengths (MBytes):  RWF=     13 Int=      0 D2E=      0 Chk=      2 Scr=      1",
                " Normal termination of Gaussian 09 at Mon Dec 16 12:50:56 2019."]


# ------------------------------------------------------------------------------------ NWChem
class NWChem:
    name = "nwchem"
    W = 10

    @staticmethod
    def energy(e):
        return [f"         Total DFT energy ={e:20.12f}"]

    @staticmethod
    def coords(symbols, xyz):
        out = [" Output coordinates in angstroms (scale by  1.889725989 to convert to a.u.)", "",
               "  No.       Tag          Charge          X              Y              Z",
               " ---- ---------------- ---------- -------------- -------------- --------------"]
        for k, (s, (x, y, z)) in enumerate(zip(symbols, xyz)):
            out.append(f"{k + 1:5d} {s:<16s} {float(G09.ATNUM.get(s, 1)):10.4f} {x:14.8f} {y:14.8f} {z:14.8f}")
        out += ["", "      Atomic Mass ", "      ----------- ", ""]
        return out

    @staticmethod
    def read_coords(lines, i, n):
        return [[float(v) for v in lines[j].split()[3:6]] for j in range(i + 4, i + 4 + n)]

    @staticmethod
    def gradient(symbols, xyz_bohr, g):
        out = ["                         DFT ENERGY GRADIENTS", "",
               "    atom               coordinates                        gradient",
               "                 x          y          z           x          y          z"]
        for k, (s, c, gg) in enumerate(zip(symbols, xyz_bohr, g)):
            out.append(f"{k + 1:4d} {s:<4s} " + "".join(f"{v:11.6f}" for v in c) + " " +
                       "".join(f"{v:11.6f}" for v in gg))
        out.append("")
        return out

    @staticmethod
    def read_gradient(lines, i, n):
        return [[float(v) for v in lines[j].split()[5:8]] for j in range(i + 4, i + 4 + n)]

    @staticmethod
    def charges(symbols, xyz, q):
        out = ["    Atom              Coordinates                           Charge", "",
               "                                                  ESP  ", "", " "]
        for k, (s, c, qq) in enumerate(zip(symbols, xyz, q)):
            out.append(f"{k + 1:5d} {s:<2s}" + "".join(f"{v / 10.0:12.6f}" for v in c) + f"{qq:12.6f}")
        out += ["                                            ------------",
                f"                                            {sum(q):12.6f}"]
        return out

    @staticmethod
    def read_charges(lines, i, n):
        return [float(lines[j].split()[-1]) for j in range(i + 5, i + 5 + n)]

    @staticmethod
    def atom_info(symbols, xyz_bohr, masses):
        out = [" ---------------------------- Atom information ----------------------------",
               "     atom    #        X              Y              Z            mass",
               " --------------------------------------------------------------------------"]
        for k, (s, c, m) in enumerate(zip(symbols, xyz_bohr, masses)):
            out.append(f"    {s:<2s}{k + 1:8d}" + "".join(fD(v, 15, 7) for v in c) + fD(m, 15, 7))
        out += [" --------------------------------------------------------------------------", "", "", ""]
        return out

    @staticmethod
    def read_masses(lines, i, n):
        return [float(lines[j].split()[-1].replace("D", "E")) for j in range(i + 3, i + 3 + n)]

    @staticmethod
    def hessian(Hmw):
        """lower triangle of the mass-weighted Hessian in column blocks of 10"""
        n = len(Hmw)
        out = ["          ----------------------------------------------------",
               "          MASS-WEIGHTED NUCLEAR HESSIAN (Hartree/Bohr/Bohr/Kamu)",
               "          ----------------------------------------------------", "", ""]
        for c0 in range(0, n, NWChem.W):
            cols = range(c0, min(c0 + NWChem.W, n))
            out.append("        " + "".join(f"{c + 1:13d}" for c in cols)[5:])
            out.append("   ----- ----- ----- ----- -----")
            for r in range(c0, n):
                out.append(f"{r + 1:5d}  " + "".join(fD(Hmw[r][c], 13, 5) for c in cols if c <= r))
            out += ["", ""]
        out += ["", "          -------------------------------------------------",
                "          NORMAL MODE EIGENVECTORS IN CARTESIAN COORDINATES",
                "          -------------------------------------------------",
                "                 (Frequencies expressed in cm-1)", ""]
        return out

    @staticmethod
    def read_hessian(lines, i, n):       # i = index of the title; returns lower-triangular rows
        rows = [[] for _ in range(n)]
        j = i + 4
        while sum(len(r) for r in rows) < n * (n + 1) // 2:
            t = lines[j].replace("D", "E").split()
            if len(t) >= 2 and "E" in t[1]:
                rows[int(t[0]) - 1] += [float(v) for v in t[1:]]
            j += 1
        return rows

    @staticmethod
    def termination():
        return ["                                     CITATION", "                                     --------",
                "                Please cite the following reference when publishing",
                " Total times  cpu:       13.9s     wall:       14.8s"]


# ------------------------------------------------------------------------------------ Q-Chem
class QChem:
    name = "qchem"
    W = 6

    @staticmethod
    def begins():
        return [" Q-Chem begins on Sun Jan  2 13:53:35 2022  ", ""]

    @staticmethod
    def energy(e):
        return [f" Total energy in the final basis set = {e:19.10f}"]

    @staticmethod
    def std_orientation(symbols, xyz):
        out = ["             Standard Nuclear Orientation (Angstroms)",
               "    I     Atom           X                Y                Z",
               " ----------------------------------------------------------------"]
        for k, (s, (x, y, z)) in enumerate(zip(symbols, xyz)):
            out.append(f"{k + 1:5d}      {s:<2s}{x:18.10f}{y:17.10f}{z:17.10f}")
        out.append(" ----------------------------------------------------------------")
        return out

    @staticmethod
    def opt_coords(symbols, xyz):
        out = ["                       Coordinates (Angstroms)",
               "     ATOM                X               Y               Z"]
        for k, (s, (x, y, z)) in enumerate(zip(symbols, xyz)):
            out.append(f"{k + 1:7d}  {s:<2s}{x:20.10f}{y:16.10f}{z:16.10f}")
        out.append("   Point Group: c1    Number of degrees of freedom:     3")
        return out

    @staticmethod
    def read_coords(lines, i, n, skip):
        return [[float(v) for v in lines[j].split()[2:5]] for j in range(i + skip, i + skip + n)]

    @staticmethod
    def opt_gradient(symbols, g):
        out = ["                       Cartesian Gradient (au)",
               "     ATOM              X           Y           Z"]
        for k, (s, (x, y, z)) in enumerate(zip(symbols, g)):
            out.append(f"{k + 1:5d}  {s:<2s}{x:18.6f}{y:12.6f}{z:12.6f}")
        out.append("")
        return out

    @staticmethod
    def read_opt_gradient(lines, i, n):
        return [[float(v) for v in lines[j].split()[2:5]] for j in range(i + 2, i + 2 + n)]

    @staticmethod
    def scf_gradient(g):
        n = len(g)
        out = [" Calculating analytic gradient of the SCF energy", " Gradient of SCF Energy"]
        for c0 in range(0, n, 6):
            cols = range(c0, min(c0 + 6, n))
            out.append("    " + "".join(f"{c + 1:12d}" for c in cols)[3:])
            for k in range(3):
                out.append(f"{k + 1:5d}" + "".join(f"{g[c][k]:12.7f}" for c in cols))
        out += [" Max gradient component =       3.681E-02", " RMS gradient           =       1.015E-02",
                " Gradient time:  CPU 1.27 s  wall 0.32 s"]
        return out

    @staticmethod
    def read_scf_gradient(lines, i, n):  # i = index of "Gradient of SCF Energy"
        g = [[None] * 3 for _ in range(n)]
        j = i + 1
        while any(v is None for r in g for v in r):
            cols = [int(t) - 1 for t in lines[j].split()]
            for k in range(3):
                t = lines[j + 1 + k].split()
                for c, v in zip(cols, t[1:]):
                    g[c][k] = float(v)
            j += 4
        return g

    @staticmethod
    def hessian(Hmw, title=" Mass-Weighted Hessian Matrix:"):
        n = len(Hmw)
        out = [title, "", ""]
        for c0 in range(0, n, QChem.W):
            cols = range(c0, min(c0 + QChem.W, n))
            for r in range(n):
                out.append(" " + "".join(f"{Hmw[r][c]:12.6f}" for c in cols))
            out += ["", ""]
        return out[:-1]

    @staticmethod
    def read_hessian(lines, i, n):
        H = [[] for _ in range(n)]
        j = i + 3
        while len(H[0]) < n:
            for r in range(n):
                H[r] += [float(v) for v in lines[j + r].split()]
            j += n + 2
        return H

    @staticmethod
    def masses(symbols, m):
        return [f"   Atom {k + 1:4d} Element {s:<2s} Has Mass {x:10.5f}" for k, (s, x) in enumerate(zip(symbols, m))]

    @staticmethod
    def termination():
        return [" Total job time:  1.36s(wall), 5.22s(cpu) ", " Mon Jan  3 11:09:26 2022", "",
                "        *************************************************************",
                "        *                                                           *",
                "        *  Thank you very much for using Q-Chem.  Have a nice day.  *",
                "        *                                                           *",
                "        *************************************************************", "", ""]


# ------------------------------------------------------------------------------------ xTB
class XTB:
    name = "xtb"

    @staticmethod
    def header(version="6.3.2"):
        out = ["      -----------------------------------------------------------      ",
               "     |                   =====================                   |     ",
               "     |                           x T B                           |     ",
               "     |                   =====================                   |     ",
               "     |                         S. Grimme                         |     ",
               "     |          Mulliken Center for Theoretical Chemistry        |     ",
               "     |                    University of Bonn                     |     ",
               "      -----------------------------------------------------------      ", "",
               f"   * xtb version {version} (954f15c) compiled by 'conda@5a45a0871d67' on 2020-07-02", ""]
        return out

    @staticmethod
    def energy(e):
        return ["         :::::::::::::::::::::::::::::::::::::::::::::::::::::",
                f"         :: total energy        {e:18.12f} Eh    ::",
                "         :::::::::::::::::::::::::::::::::::::::::::::::::::::", "",
                "           -------------------------------------------------",
                f"          | TOTAL ENERGY       {e:23.12f} Eh   |",
                "          | GRADIENT NORM               0.000520770306 Eh/α |",
                "           -------------------------------------------------"]

    @staticmethod
    def final_structure(symbols, xyz):
        out = ["================", " final structure:", "================", str(len(symbols)),
               " xtb: 6.3.2 (954f15c)"]
        for s, (x, y, z) in zip(symbols, xyz):
            out.append(f"{s:<2s}{x:24.14f}{y:20.14f}{z:20.14f}")
        out += ["", " Bond Distances (Angstroems)"]
        return out

    @staticmethod
    def read_final_structure(lines, i, n):
        return [[float(v) for v in lines[j].split()[1:4]] for j in range(i + 4, i + 4 + n)]

    @staticmethod
    def charges(symbols, q):
        out = ["     #   Z          covCN         q      C6AA      α(0)"]
        for k, (s, c) in enumerate(zip(symbols, q)):
            out.append(f"{k + 1:6d}{G09.ATNUM.get(s, 1):4d} {s:<2s}{0.925:12.3f}{c:10.3f}{1.829:10.3f}{2.115:10.3f}")
        out += ["", " Mol. C6AA /au·bohr⁶  :        362.000375"]
        return out

    @staticmethod
    def read_charges(lines, i, n):
        return [float(lines[j].split()[4]) for j in range(i + 1, i + 1 + n)]

    @staticmethod
    def tm_gradient(symbols, xyz_bohr, g, e):
        """the `gradient` file xtb writes (turbomole format), kept by autodE as <name>_OLD.grad"""
        out = ["$gradient", f"  cycle =      1    SCF energy = {e:18.11f}   |dE/dxyz| =  0.027866"]
        for s, (x, y, z) in zip(symbols, xyz_bohr):
            out.append(f"{x:16.14f}     {y:17.14f}     {z:17.14f}      {s} ")
        for (x, y, z) in g:
            out.append(f"{x:22.13E}{y:22.13E}{z:22.13E}")
        out.append("$end")
        return out

    @staticmethod
    def read_tm_gradient(lines, n):
        return [[float(v) for v in lines[2 + n + k].split()] for k in range(n)]

    @staticmethod
    def termination():
        return ["------------------------------------------------------------------------",
                " * finished run on 2020/08/25 at 11:46:30.000     ",
                "------------------------------------------------------------------------",
                " total:", " * wall-time:     0 d,  0 h,  0 min,  0.119 sec",
                " *  cpu-time:     0 d,  0 h,  0 min,  0.733 sec", " * ratio c/w:     6.163 speedup"] + \
               [" SCF:", " * wall-time:     0 d,  0 h,  0 min,  0.018 sec",
                " *  cpu-time:     0 d,  0 h,  0 min,  0.120 sec", " * ratio c/w:     6.600 speedup"] * 5


# ------------------------------------------------------------------------------------ MOPAC
class MOPAC:
    name = "mopac"

    @staticmethod
    def energy(e_ev):
        return [f"          TOTAL ENERGY            = {e_ev:16.5f} EV"]

    @staticmethod
    def coords(symbols, xyz):
        out = ["                             CARTESIAN COORDINATES", ""]
        for k, (s, (x, y, z)) in enumerate(zip(symbols, xyz)):
            out.append(f"{k + 1:4d}    {s:<2s}{x:18.9f}{y:16.9f}{z:16.9f}")
        out += ["", "", "           Empirical Formula: X  =     2 atoms", "", ""]
        return out

    @staticmethod
    def read_coords(lines, i, n):
        return [[float(v) for v in lines[j].split()[2:5]] for j in range(i + 2, i + 2 + n)]

    @staticmethod
    def gradient(symbols, xyz, g):
        out = ["       FINAL  POINT  AND  DERIVATIVES", "",
               "   PARAMETER     ATOM    TYPE            VALUE       GRADIENT"]
        p = 1
        for k, (s, c, gg) in enumerate(zip(symbols, xyz, g)):
            for ax, v, gv in zip("XYZ", c, gg):
                out.append(f"{p:7d}{k + 1:11d}  {s:<2s}   CARTESIAN {ax}{v:13.6f}{gv:13.6f}  KCAL/ANGSTROM")
                p += 1
        out += ["", "", "", "", "   ATOM   CHEMICAL          X               Y               Z",
                "  NUMBER   SYMBOL      (ANGSTROMS)     (ANGSTROMS)     (ANGSTROMS)", " "]
        return out

    @staticmethod
    def read_gradient(lines, i, n):
        return [float(lines[j].split()[6]) for j in range(i + 3, i + 3 + 3 * n)]

    @staticmethod
    def termination():
        return ["", " TOTAL JOB TIME:             0.04 SECONDS", "", " == MOPAC DONE =="]


# ------------------------------------------------------------------------------------ validation
def _find(lines, pat, start=0):
    for k in range(start, len(lines)):
        if pat in lines[k]:
            return k
    return -1


def _find_all(lines, pat):
    return [k for k, l in enumerate(lines) if pat in l]


def _cmp(stats, real, mine, what):
    """token-exact required; byte-exact (modulo trailing blanks) counted"""
    for r, m in zip(real, mine):
        stats["lines"] += 1
        if not same_tokens(r, m):
            stats["bad"].append(f"{what}: real {r!r} vs synthesised {m!r}")
        elif r.rstrip() == m.rstrip():
            stats["byte_exact"] += 1
    if len(real) != len(mine):
        stats["bad"].append(f"{what}: {len(real)} real lines vs {len(mine)} synthesised")


def validate_against_real_files(d):
    """d: directory holding the unzipped tests/test_wrappers/data archives. -> stats dict"""
    import os
    st = {"lines": 0, "byte_exact": 0, "bad": [], "blocks": 0}

    def rd(*p):
        return open(os.path.join(d, *p), errors="ignore").read().split("\n")

    def syms(lines, i0, n, col):
        return [lines[j].split()[col] for j in range(i0, i0 + n)]

    # ---------------- ORCA
    for fn, n in (("opt_orca.out", 5), ("h2o_orca_v5_charges.out", 3), ("numerical_orca.out", 6)):
        L = rd("orca", fn)
        for i in _find_all(L, "CARTESIAN COORDINATES (ANGSTROEM)"):
            s = syms(L, i + 2, n, 0)
            _cmp(st, L[i + 2:i + 2 + n], ORCA.coords(s, ORCA.read_coords(L, i, n))[3:3 + n], f"orca coords {fn}")
            st["blocks"] += 1
        for i in _find_all(L, "CARTESIAN GRADIENT"):
            if "NUMERICAL" in L[i]:
                continue
            s = syms(L, i + 3, n, 1)
            _cmp(st, L[i + 3:i + 3 + n], ORCA.gradient(s, ORCA.read_gradient(L, i, n))[4:4 + n], f"orca grad {fn}")
            st["blocks"] += 1
        for i in _find_all(L, "HIRSHFELD ANALYSIS"):
            s = syms(L, i + 7, n, 1)
            _cmp(st, L[i + 7:i + 7 + n], ORCA.charges(s, ORCA.read_charges(L, i, n))[8:8 + n], f"orca charges {fn}")
            st["blocks"] += 1
        for i in _find_all(L, "FINAL SINGLE POINT ENERGY"):
            _cmp(st, [L[i]], ORCA.energy(float(L[i].split()[4])), f"orca energy {fn}")
    for fn in ("H2O_hess_orca.hess", "test_ts_reopt_optts_orca.hess"):
        L = rd("orca", fn)
        i = _find(L, "$hessian")
        H, j = ORCA.read_hess_matrix(L, i)
        _cmp(st, L[i + 2:j], ORCA.hess_matrix(H), f"orca hess {fn}")
        st["blocks"] += 1
    # ---------------- Gaussian
    for fn, n in (("opt_g09.log", 5), ("ester_opt_g09.log", 11)):
        L = rd("g09", fn)
        for i in _find_all(L, "Input orientation"):
            xyz = G09.read_coords(L, i, n)
            an = [int(L[j].split()[1]) for j in range(i + 5, i + 5 + n)]
            inv = {v: k for k, v in G09.ATNUM.items()}
            s = [inv[a] for a in an]
            _cmp(st, L[i + 5:i + 5 + n], G09.coords(s, xyz)[5:5 + n], f"g09 coords {fn}")
            st["blocks"] += 1
        for i in _find_all(L, "Forces (Hartrees/Bohr)"):
            an = [int(L[j].split()[1]) for j in range(i + 3, i + 3 + n)]
            inv = {v: k for k, v in G09.ATNUM.items()}
            _cmp(st, L[i + 3:i + 3 + n], G09.forces([inv[a] for a in an], G09.read_forces(L, i, n))[4:4 + n],
                 f"g09 forces {fn}")
            st["blocks"] += 1
        for i in _find_all(L, "Sum of Mulliken charges"):
            s = syms(L, i - n, n, 1)
            _cmp(st, L[i - n:i], G09.charges(s, G09.read_charges(L, i, n))[2:2 + n], f"g09 charges {fn}")
            st["blocks"] += 1
        for i in _find_all(L, "SCF Done"):
            _cmp(st, [L[i]], [G09.energy(float(L[i].split()[4]))[0].replace("     9 cycles", L[i][-12:])],
                 f"g09 energy {fn}")
    L = rd("g09", "tmp_g09_hess.log")
    ltril = G09.read_archive_ltril(L)
    real_field = "".join(l[1:] for l in L if l.startswith(" "))
    mine = ",".join(f"{v:.8f}" for v in ltril)
    st["lines"] += 1
    if mine not in "".join(l[1:].rstrip("\n") for l in L):
        st["bad"].append("g09 archive: reformatted lower triangle is not a substring of the real archive entry")
    else:
        st["byte_exact"] += 1
    st["blocks"] += 1
    # ---------------- NWChem
    for fn, n in (("opt_nwchem.out", 5), ("sn2_hess_nwchem.out", 6), ("butane_hess_nwchem.out", 14)):
        L = rd("nwchem", fn)
        for i in _find_all(L, "Output coordinates in angstroms"):
            s = syms(L, i + 4, n, 1)
            _cmp(st, L[i + 4:i + 4 + n], NWChem.coords(s, NWChem.read_coords(L, i, n))[4:4 + n], f"nwchem coords {fn}")
            st["blocks"] += 1
        for i in _find_all(L, "DFT ENERGY GRADIENTS"):
            s = syms(L, i + 4, n, 1)
            xb = [[float(v) for v in L[j].split()[2:5]] for j in range(i + 4, i + 4 + n)]
            _cmp(st, L[i + 4:i + 4 + n], NWChem.gradient(s, xb, NWChem.read_gradient(L, i, n))[4:4 + n],
                 f"nwchem grad {fn}")
            st["blocks"] += 1
        for i in _find_all(L, "Total DFT energy"):
            _cmp(st, [L[i]], NWChem.energy(float(L[i].split()[4])), f"nwchem energy {fn}")
        for i in _find_all(L, "MASS-WEIGHTED NUCLEAR HESSIAN"):
            rows = NWChem.read_hessian(L, i, 3 * n)
            full = [[rows[max(r, c)][min(r, c)] for c in range(3 * n)] for r in range(3 * n)]
            mine = NWChem.hessian(full)
            j = _find(L, "NORMAL MODE EIGENVECTORS", i)
            real = [l for l in L[i + 4:j - 1] if l.strip()]
            _cmp(st, real, [l for l in mine[5:-6] if l.strip()], f"nwchem hessian {fn}")
            st["blocks"] += 1
        for i in _find_all(L, "Atom information"):
            s = syms(L, i + 3, n, 0)
            xb = [[float(v.replace("D", "E")) for v in L[j].split()[2:5]] for j in range(i + 3, i + 3 + n)]
            _cmp(st, L[i + 3:i + 3 + n], NWChem.atom_info(s, xb, NWChem.read_masses(L, i, n))[3:3 + n],
                 f"nwchem atom info {fn}")
            st["blocks"] += 1
    # ---------------- Q-Chem
    for fn, n in (("H2O_opt_qchem.out", 3), ("H2O_hess_qchem.out", 3), ("C4H10_sp_qchem.out", 14)):
        L = rd("qchem", fn)
        for i in _find_all(L, "Standard Nuclear Orientation (Angstroms)"):
            s = syms(L, i + 3, n, 1)
            _cmp(st, L[i + 3:i + 3 + n], QChem.std_orientation(s, QChem.read_coords(L, i, n, 3))[3:3 + n],
                 f"qchem std orientation {fn}")
            st["blocks"] += 1
        for i in _find_all(L, "Coordinates (Angstroms)"):
            if "Standard" in L[i]:
                continue
            s = syms(L, i + 2, n, 1)
            _cmp(st, L[i + 2:i + 2 + n], QChem.opt_coords(s, QChem.read_coords(L, i, n, 2))[2:2 + n],
                 f"qchem opt coords {fn}")
            st["blocks"] += 1
        for i in _find_all(L, "Cartesian Gradient"):
            s = syms(L, i + 2, n, 1)
            _cmp(st, L[i + 2:i + 2 + n], QChem.opt_gradient(s, QChem.read_opt_gradient(L, i, n))[2:2 + n],
                 f"qchem opt gradient {fn}")
            st["blocks"] += 1
        for i in _find_all(L, "Gradient of SCF Energy"):
            g = QChem.read_scf_gradient(L, i, n)
            mine = QChem.scf_gradient(g)
            k = 4 * ((n + 5) // 6)
            _cmp(st, L[i + 1:i + 1 + k], mine[2:2 + k], f"qchem scf gradient {fn}")
            st["blocks"] += 1
        for i in _find_all(L, "Mass-Weighted Hessian Matrix"):
            H = QChem.read_hessian(L, i, 3 * n)
            mine = QChem.hessian(H)
            k = len(mine) - 3
            _cmp(st, [l for l in L[i + 3:i + 3 + k]], mine[3:], f"qchem hessian {fn}")
            st["blocks"] += 1
        for i in _find_all(L, "Total energy in the final basis set"):
            _cmp(st, [L[i]], QChem.energy(float(L[i].split()[-1])), f"qchem energy {fn}")
        ms = _find_all(L, "Has Mass")
        if ms:
            s = [L[j].split()[3] for j in ms]
            _cmp(st, [L[j] for j in ms], QChem.masses(s, [float(L[j].split()[-1]) for j in ms]), f"qchem masses {fn}")
    # ---------------- xTB
    L = rd("xtb", "xtb_6_3_2_opt.out")
    n = 5
    i = _find(L, "final structure")
    s = syms(L, i + 4, n, 0)
    _cmp(st, L[i + 4:i + 4 + n], XTB.final_structure(s, XTB.read_final_structure(L, i, n))[5:5 + n], "xtb final structure")
    i = _find(L, "covCN")
    s = syms(L, i + 1, n, 2)
    mine = XTB.charges(s, XTB.read_charges(L, i, n))
    for r, m in zip(L[i + 1:i + 1 + n], mine[1:1 + n]):     # only Z, symbol and q are reproduced
        st["lines"] += 1
        if r.split()[:3] != m.split()[:3] or r.split()[4] != m.split()[4]:
            st["bad"].append(f"xtb charges: {r!r} vs {m!r}")
    i = _find(L, "TOTAL ENERGY")
    _cmp(st, [L[i]], [XTB.energy(float(L[i].split()[-3]))[5]], "xtb energy")
    st["blocks"] += 3
    L = rd("xtb", "gradient")
    n = 5
    g = XTB.read_tm_gradient(L, n)
    xb = [[float(v) for v in L[2 + k].split()[:3]] for k in range(n)]
    s = [L[2 + k].split()[3] for k in range(n)]
    _cmp(st, L[2:2 + 2 * n], XTB.tm_gradient(s, xb, g, -4.17404780397)[2:2 + 2 * n], "xtb gradient file")
    st["blocks"] += 1
    # ---------------- MOPAC
    for fn, n in (("h2_grad_mopac.out", 2), ("methane_opt_mopac.out", 5)):
        L = rd("mopac", fn)
        for i in _find_all(L, "CARTESIAN COORDINATES"):
            if len(L[i + 3].split()) != 5 or len(L[i + 2].split()) != 5:
                continue
            s = syms(L, i + 2, n, 1)
            _cmp(st, L[i + 2:i + 2 + n], MOPAC.coords(s, MOPAC.read_coords(L, i, n))[2:2 + n], f"mopac coords {fn}")
            st["blocks"] += 1
        for i in _find_all(L, "FINAL  POINT  AND  DERIVATIVES"):
            g = MOPAC.read_gradient(L, i, n)
            s = [L[i + 3 + 3 * k].split()[2] for k in range(n)]
            xyz = [[float(L[i + 3 + 3 * k + a].split()[5]) for a in range(3)] for k in range(n)]
            gg = [g[3 * k:3 * k + 3] for k in range(n)]
            _cmp(st, L[i + 3:i + 3 + 3 * n], MOPAC.gradient(s, xyz, gg)[3:3 + 3 * n], f"mopac gradient {fn}")
            st["blocks"] += 1
        for i in _find_all(L, "TOTAL ENERGY"):
            _cmp(st, [L[i]], MOPAC.energy(float(L[i].split()[3])), f"mopac energy {fn}")
    return st


# ============================================================================ whole-output synthesisers
# C18 helper: whole-output synthesisers (one per program) built from the validated line layouts.
# 
# synth(prog, case) -> Synth(files={name: [lines]}, main=<output file name>, truth={...}, blocks={...})
# `truth` holds the numbers PRINTED in the final step (float of the formatted token), in the
# program's own units; `expected()` converts them with the declared constants.
SYMBOLS = ["H", "C", "N", "O", "F", "Cl", "Br", "S", "P", "Si", "Li", "B", "Na"]
MASS = {"H": 1.00783, "C": 12.0, "N": 14.00307, "O": 15.99491, "F": 18.9984, "Cl": 34.96885, "Br": 78.91834,
        "S": 31.97207, "P": 30.97376, "Si": 27.97693, "Li": 7.016, "B": 11.00931, "Na": 22.98977}
PROGRAMS = ["orca", "g09", "nwchem", "qchem", "xtb", "mopac"]


def rt(fmt, x):
    """value as printed with format fmt and read back (the number in the file)"""
    return float(fmt.format(x).replace("D", "E"))


class Case:
    """random ground truth before printing"""

    def __init__(self, rng, n, nsteps, exotic=True):
        self.n, self.nsteps = n, nsteps
        self.symbols = [rng.choice(SYMBOLS) for _ in range(n)]
        nel = sum(G09.ATNUM[s] for s in self.symbols)
        self.mult = 1 if nel % 2 == 0 else 2

        def val(lo, hi):
            m = 10 ** rng.uniform(lo, hi)
            return m if rng.random() < 0.5 else -m

        self.steps = []
        for _ in range(nsteps):
            xyz = [[rng.uniform(-9, 9) if rng.random() < 0.9 else val(-6, 1.6) for _ in range(3)] for _ in range(n)]
            g = [[val(-7, 0.5) if rng.random() < 0.85 else 0.0 for _ in range(3)] for _ in range(n)]
            e = -(10 ** rng.uniform(-0.3, 3.6))
            q = [rng.uniform(-1.5, 1.5) for _ in range(n)]
            self.steps.append({"xyz": xyz, "g": g, "e": e, "q": q})
        m = 3 * n
        H = [[0.0] * m for _ in range(m)]
        for i in range(m):
            for j in range(i + 1):
                v = val(-9, 1.5) if exotic else rng.randint(-64, 64) / 16.0
                H[i][j] = H[j][i] = v
        self.H = H
        # a second, different symmetric matrix (Q-Chem prints the projected Hessian as well)
        self.H2 = [[(H[i][j] * 0.5 + (1.0 if i == j else 0.25)) for j in range(m)] for i in range(m)]
        self.masses = [MASS[s] for s in self.symbols]


class Synth:
    def __init__(self):
        self.files, self.main, self.truth, self.marks = {}, None, {}, {}


def _filler(rng, k=3):
    pool = ["", " ----------------------------------------", " Iteration    Energy        Delta-E",
            "   1   -40.123456789   -1.2E-03   0.000123", " Number of electrons =   10   alpha =    5",
            " Timing: 0.12 s", " basis functions ... 24", "", " Convergence reached after 9 cycles"]
    return [rng.choice(pool) for _ in range(k)]


def synth(prog, case, rng, variant=None, a0=0.529177):
    """-> Synth.  variant: program-specific option (ORCA coordinate source, Q-Chem gradient kind ...)"""
    S = Synth()
    n, sym = case.n, case.symbols
    T = S.truth
    T["n_steps"] = case.nsteps
    T["all_e"], T["all_xyz"], T["all_g"] = [], [], []
    if prog == "orca":
        L = ["                                 *****************", "                                 * O   R   C   A *",
             "                                 *****************", "                         Program Version 4.2.1 -  RELEASE  -", ""]
        for st in case.steps:
            L += _filler(rng)
            S.marks.setdefault("coords", []).append(len(L) + 1)
            L += ORCA.coords(sym, st["xyz"])
            L += ["----------------------------", "CARTESIAN COORDINATES (A.U.)", "----------------------------",
                  "  NO LB      ZA    FRAG     MASS         X           Y           Z"]
            L += [f"{k:4d} {s:<2s}{6.0:10.4f}{0:5d}{12.011:10.3f}" + "".join(f"{v / a0:12.6f}" for v in c)
                  for k, (s, c) in enumerate(zip(sym, st["xyz"]))] + [""]
            L += _filler(rng)
            L += ORCA.energy(st["e"]) + [""]
            S.marks.setdefault("grad", []).append(len(L) + 1)
            L += ORCA.gradient(sym, st["g"])
            L += ORCA.charges(sym, st["q"])
            T["all_e"].append(rt("{:22.12f}", st["e"]))
            T["all_xyz"].append([[rt("{:12.6f}", v) for v in c] for c in st["xyz"]])
            T["all_g"].append([[rt("{:15.9f}", v) for v in c] for c in st["g"]])
        L += ORCA.termination()
        S.files["c.out"] = L
        S.main = "c.out"
        last = case.steps[-1]
        T["energy"] = T["all_e"][-1]
        T["coords"] = T["all_xyz"][-1]
        T["grad_raw"] = T["all_g"][-1]
        T["charges"] = [rt("{:11.6f}", v) for v in last["q"]]
        T["hess_raw"] = [[rt("{:19.10E}", v) for v in row] for row in case.H]
        xb = [[v / a0 for v in c] for c in last["xyz"]]
        S.files["c.hess"] = ORCA.hess_file(sym, xb, case.H)
        T["hess_coords_bohr"] = [[rt("{:19.12f}", v) for v in c] for c in xb]
    elif prog == "g09":
        L = [" Entering Gaussian System, Link 0=g09", " ******************************************",
             " Gaussian 09:  EM64L-G09RevD.01 24-Apr-2013", ""]
        for st in case.steps:
            L += _filler(rng)
            L += G09.coords(sym, st["xyz"])
            L += _filler(rng)
            L += G09.energy(st["e"])
            L += G09.charges(sym, st["q"])
            L += [" Mulliken charges with hydrogens summed into heavy atoms:", "               1"]
            L += _filler(rng, 2)
            f = [[-v for v in c] for c in st["g"]]
            L += G09.forces(sym, f)
            T["all_e"].append(rt("{:15.9f}", st["e"]))
            T["all_xyz"].append([[rt("{:12.6f}", v) for v in c] for c in st["xyz"]])
            T["all_g"].append([[-rt("{:15.9f}", v) for v in c] for c in f])      # gradient = -force
        last = case.steps[-1]
        f = [[-v for v in c] for c in last["g"]]
        S.marks["archive"] = len(L)
        L += G09.archive(sym, last["xyz"], case.H, f)
        L += ["", ""] + G09.termination()
        S.files["c.log"] = L
        S.main = "c.log"
        T["energy"], T["coords"], T["grad_raw"] = T["all_e"][-1], T["all_xyz"][-1], T["all_g"][-1]
        T["charges"] = [rt("{:11.6f}", v) for v in last["q"]]
        T["hess_raw"] = [[rt("{:.8f}", v) for v in row] for row in case.H]
    elif prog == "nwchem":
        L = ["              Northwest Computational Chemistry Package (NWChem) 6.6", ""]
        for st in case.steps:
            L += _filler(rng)
            L += NWChem.coords(sym, st["xyz"])
            L += [f"      {s:<2s}              {MASS[s]:12.6f}" for s in sorted(set(sym))] + [""]
            L += _filler(rng)
            L += NWChem.energy(st["e"])
            L += _filler(rng)
            xb = [[v / a0 for v in c] for c in st["xyz"]]
            L += NWChem.gradient(sym, xb, st["g"])
            T["all_e"].append(rt("{:20.12f}", st["e"]))
            T["all_xyz"].append([[rt("{:14.8f}", v) for v in c] for c in st["xyz"]])
            T["all_g"].append([[rt("{:11.6f}", v) for v in c] for c in st["g"]])
        last = case.steps[-1]
        L += NWChem.charges(sym, last["xyz"], last["q"])
        xb = [[v / a0 for v in c] for c in last["xyz"]]
        L += NWChem.atom_info(sym, xb, case.masses)
        S.marks["hess"] = len(L)
        L += NWChem.hessian(case.H)
        L += _filler(rng) + NWChem.termination()
        S.files["c.out"] = L
        S.main = "c.out"
        T["energy"], T["coords"], T["grad_raw"] = T["all_e"][-1], T["all_xyz"][-1], T["all_g"][-1]
        T["charges"] = [rt("{:12.6f}", v) for v in last["q"]]
        pm = [rt("{:15.7E}", m) for m in case.masses]
        T["masses"] = pm
        m3 = [pm[i // 3] for i in range(3 * n)]
        T["hess_raw"] = [[rt("{:13.5E}", case.H[max(i, j)][min(i, j)]) * math.sqrt(m3[i] * 1e-3 * m3[j] * 1e-3)
                          for j in range(3 * n)] for i in range(3 * n)]
    elif prog == "qchem":
        L = ["                  Welcome to Q-Chem", " Q-Chem 5.4.1 for Intel X86 EM64T Linux", ""] + QChem.begins()
        kind = variant or "opt"
        T["kind"] = kind
        for k, st in enumerate(case.steps):
            L += _filler(rng)
            L += QChem.std_orientation(sym, st["xyz"])
            L += _filler(rng)
            L += QChem.energy(st["e"])
            L += QChem.scf_gradient(st["g"])
            if kind == "opt":
                L += ["", f"   Optimization Cycle: {k + 1:3d}", ""]
                L += QChem.opt_coords(sym, st["xyz"])
                L += ["", "", f"   Energy is {st['e']:16.9f}", ""]
                L += QChem.opt_gradient(sym, st["g"])
            T["all_e"].append(rt("{:19.10f}", st["e"]))
            T["all_xyz"].append([[rt("{:18.10f}", v) for v in c] for c in st["xyz"]])
            T["all_g"].append([[rt("{:12.6f}" if kind == "opt" else "{:12.7f}", v) for v in c] for c in st["g"]])
        last = case.steps[-1]
        if kind == "opt":
            L += ["", "   ******************************", "   **  OPTIMIZATION CONVERGED  **",
                  "   ******************************", ""] + QChem.opt_coords(sym, last["xyz"])[:-1] + [""]
        L += _filler(rng)
        S.marks["hess"] = len(L)
        L += QChem.hessian(case.H) + ["", " Translations and Rotations Projected Out of Hessian", ""]
        L += QChem.hessian(case.H2, title=" Projected Mass-Weighted Hessian Matrix:")
        L += ["", " Vibrational Frequencies in atomic units", "    -0.0000000000   -0.0000000000    0.0000000000"]
        L += _filler(rng)
        L += QChem.masses(sym, case.masses)
        L += QChem.termination()
        S.files["c.out"] = L
        S.main = "c.out"
        T["energy"], T["coords"], T["grad_raw"] = T["all_e"][-1], T["all_xyz"][-1], T["all_g"][-1]
        pm = [rt("{:10.5f}", m) for m in case.masses]
        m3 = [pm[i // 3] for i in range(3 * n)]
        T["hess_raw"] = [[rt("{:12.6f}", case.H[i][j]) * math.sqrt(m3[i] * m3[j]) for j in range(3 * n)]
                         for i in range(3 * n)]
        T["hess_raw_projected"] = [[rt("{:12.6f}", case.H2[i][j]) * math.sqrt(m3[i] * m3[j]) for j in range(3 * n)]
                                   for i in range(3 * n)]
    elif prog == "xtb":
        L = XTB.header()
        L += [""] * 45           # version line must be within the first 50 lines; body follows
        for k, st in enumerate(case.steps):
            L += [f"........................................................................",
                  f".............................. CYCLE {k + 1:4d} ..............................",
                  f"........................................................................",
                  f" * total energy  : {st['e']:14.7f} Eh     change       -0.3483692E-03 Eh"]
            L += _filler(rng)
        last = case.steps[-1]
        L += ["   *** GEOMETRY OPTIMIZATION CONVERGED AFTER 4 ITERATIONS ***", ""]
        L += XTB.final_structure(sym, last["xyz"])
        L += _filler(rng)
        L += XTB.charges(sym, last["q"])
        L += _filler(rng)
        L += XTB.energy(last["e"])
        L += XTB.termination()
        S.files["c.out"] = L
        S.main = "c.out"
        xb = [[v / a0 for v in c] for c in last["xyz"]]
        S.files["c_xtb_OLD.grad"] = XTB.tm_gradient(sym, xb, last["g"], last["e"])
        T["energy"] = rt("{:23.12f}", last["e"])
        T["coords"] = [[rt("{:20.14f}", v) for v in c] for c in last["xyz"]]
        T["grad_raw"] = [[rt("{:22.13E}", v) for v in c] for c in last["g"]]
        T["charges"] = [rt("{:10.3f}", v) for v in last["q"]]
        T["all_e"] = [T["energy"]]
        T["all_xyz"], T["all_g"] = [T["coords"]], [T["grad_raw"]]
    elif prog == "mopac":
        last = case.steps[-1]
        L = [" *******************************************************************************",
             " **                                MOPAC2016                                  **",
             " *******************************************************************************", ""]
        L += ["          CARTESIAN COORDINATES ", "", "    NO.       ATOM           X           Y           Z", ""]
        L += [f"{k + 1:6d}{s:>10s}{c[0]:16.4f}{c[1]:12.4f}{c[2]:12.4f}" for k, (s, c) in
              enumerate(zip(sym, case.steps[0]["xyz"]))] + [""]
        L += _filler(rng)
        e_ev = last["e"] * 27.2114
        L += ["          FINAL HEAT OF FORMATION =        -13.02534 KCAL/MOL =     -54.49801 KJ/MOL", "", ""]
        L += MOPAC.energy(e_ev)
        L += ["          ELECTRONIC ENERGY       =       -383.46404 EV", ""]
        g = [[v * 627.5 for v in c] for c in last["g"]]
        L += MOPAC.gradient(sym, last["xyz"], g)
        L += [f"{k + 1:6d}{s:>8s}" + "".join(f"{v:20.8f}  *" for v in c) for k, (s, c) in
              enumerate(zip(sym, last["xyz"]))] + [""]
        L += MOPAC.coords(sym, last["xyz"])
        L += _filler(rng) + MOPAC.termination()
        S.files["c.out"] = L
        S.main = "c.out"
        T["energy_ev"] = rt("{:16.5f}", e_ev)
        T["coords"] = [[rt("{:18.9f}", v) for v in c] for c in last["xyz"]]
        T["grad_kcal"] = [[rt("{:13.6f}", v) for v in c] for c in g]
        T["all_e"], T["all_xyz"], T["all_g"] = [T["energy_ev"]], [T["coords"]], [T["grad_kcal"]]
    else:
        raise ValueError(prog)
    return S


# ============================================================================ implementation side
def _imports():
    sys.path.insert(0, REPO)
    import autode  # noqa
    from autode.wrappers.ORCA import ORCA
    from autode.wrappers.G09 import G09
    from autode.wrappers.NWChem import NWChem
    from autode.wrappers.QChem import QChem
    from autode.wrappers.XTB import XTB
    from autode.wrappers.MOPAC import MOPAC
    return {"orca": ORCA, "g09": G09, "nwchem": NWChem, "qchem": QChem, "xtb": XTB, "mopac": MOPAC}


KINDS = {"orca": ["opt", "grad", "hess"], "g09": ["opt", "grad", "hess"], "nwchem": ["grad", "hess"],
         "qchem": ["opt", "grad", "hess"], "xtb": ["opt", "grad"], "mopac": ["opt", "grad"]}
PNAME = {"orca": "ORCA", "g09": "G09", "nwchem": "NWChem", "qchem": "QChem", "xtb": "XTB", "mopac": "MOPAC"}
HAS_HESS = {"orca", "g09", "nwchem", "qchem"}
HAS_CHARGES = {"orca", "g09", "nwchem", "xtb"}


def family(e):
    from autode.exceptions import AutodeException, XYZfileWrongFormat
    if isinstance(e, XYZfileWrongFormat):
        return 3
    if isinstance(e, AutodeException):
        return 1
    if isinstance(e, (ValueError, IndexError, TypeError)):
        return 2
    return 4


def write_files(files):
    for fn, lines in files.items():
        with open(fn, "w") as f:
            f.write("\n".join(lines) + "\n")


def clean_dir():
    for f in os.listdir("."):
        try:
            os.remove(f)
        except OSError:
            pass


def make_calc(meths, prog, kind, case, xyz0, name="c"):
    from autode.species.species import Species
    from autode.atoms import Atom
    from autode.calculations import Calculation
    import autode.wrappers.keywords as kws
    kwc = {"opt": kws.OptKeywords, "grad": kws.GradientKeywords, "hess": kws.HessianKeywords,
           "sp": kws.SinglePointKeywords}[kind]
    sp = Species("c", [Atom(s, *c) for s, c in zip(case.symbols, xyz0)], charge=0, mult=case.mult)
    calc = Calculation(name=name, molecule=sp, method=meths[prog](), keywords=kwc(["PBE"]))
    return sp, calc


def apply_calc(sp, calc, main):
    """Calculation.set_output_filename(main) on an EXISTING calculation; -> dict of what the species holds"""
    r = {"ok": False, "exc": None, "family": 0}
    try:
        calc.set_output_filename(main)
        r["ok"] = True
    except Exception as e:  # noqa
        r["exc"] = f"{type(e).__name__}: {str(e)[:120]}"
        r["exc_type"] = type(e).__name__
        r["family"] = family(e)
    r["energy"] = None if sp.energy is None else float(sp.energy.to("Ha"))
    r["coords"] = np.array(sp.coordinates, dtype=float)
    r["grad"] = None if sp.gradient is None else np.array(sp.gradient.to("Ha Å^-1"), dtype=float)
    r["hess"] = None if sp.hessian is None else np.array(sp.hessian.to("Ha Å^-2"), dtype=float)
    try:
        ch = sp.partial_charges
        r["charges"] = None if any(c is None for c in ch) else [float(c) for c in ch]
    except Exception:  # noqa
        r["charges"] = None
    return r


def run_calc(meths, prog, kind, case, main, xyz0, name="c"):
    """a fresh Calculation, set_output_filename on `main`; -> dict"""
    sp, calc = make_calc(meths, prog, kind, case, xyz0, name=name)
    return apply_calc(sp, calc, main)


def expected(prog, T, n):
    from autode.constants import Constants as C
    a0 = C.a0_to_ang
    E = {}
    if prog == "mopac":
        E["energy"] = T["energy_ev"] / C.ha_to_eV
        E["grad"] = np.array(T["grad_kcal"]) / C.ha_to_kcalmol
        E["all_e"] = [E["energy"]]
        E["all_g"] = [E["grad"]]
    else:
        E["energy"] = T["energy"]
        E["grad"] = np.array(T["grad_raw"]) / a0
        E["all_e"] = list(T["all_e"])
        E["all_g"] = [np.array(g) / a0 for g in T["all_g"]]
    E["coords"] = np.array(T["coords"])
    E["all_xyz"] = [np.array(x) for x in T["all_xyz"]]
    if "hess_raw" in T:
        E["hess"] = np.array(T["hess_raw"]) / a0 ** 2
    if "hess_raw_projected" in T:
        E["hess_projected"] = np.array(T["hess_raw_projected"]) / a0 ** 2
    if "charges" in T:
        E["charges"] = list(T["charges"])
    return E


def close(a, b, rtol=1e-9, atol=1e-12):
    if a is None or b is None:
        return False
    a, b = np.asarray(a, dtype=float), np.asarray(b, dtype=float)
    if a.shape != b.shape:
        return False
    return bool(np.all(np.abs(a - b) <= atol + rtol * np.maximum(np.abs(a), np.abs(b))))


def describe_mismatch(got, want, others=()):
    if got is None:
        return "value was not set (None)"
    got = np.asarray(got, dtype=float)
    want = np.asarray(want, dtype=float)
    if got.shape != want.shape:
        return f"shape {got.shape}, the file holds {want.shape}"
    for k, o in enumerate(others):
        if close(got, o):
            return f"equals step {k + 1} of {len(others)}, not the final step"
    if got.ndim == 2 and close(got.T, want):
        return "transposed"
    if got.ndim >= 1 and close(np.sort(got.flatten()), np.sort(want.flatten())):
        idx = np.argwhere(~np.isclose(got, want, rtol=1e-9, atol=1e-12))[0].tolist()
        return f"same numbers in a different order (first difference at index {idx})"
    with np.errstate(divide="ignore", invalid="ignore"):
        ratio = got.flatten() / want.flatten()
    ratio = ratio[np.isfinite(ratio) & (np.abs(want.flatten()) > 1e-14)]
    if ratio.size and np.allclose(ratio, ratio[0], rtol=1e-8):
        return f"every entry is the expected value times {ratio[0]:.9g}"
    idx = np.argwhere(~np.isclose(got, want, rtol=1e-9, atol=1e-12))
    i0 = tuple(idx[0].tolist()) if len(idx) else ()
    return f"{len(idx)} entries differ, first at {i0}: read {got[i0]!r}, the file says {want[i0]!r}"


# ============================================================================ bookkeeping
class Findings:
    """one ctx.finding per identifying key; counts all occurrences"""

    def __init__(self, ctx):
        self.ctx, self.seen, self.count = ctx, {}, 0

    def add(self, key, what, replay):
        self.count += 1
        self.seen[key] = self.seen.get(key, 0) + 1
        if self.seen[key] == 1:
            self.ctx.finding(key, what, replay)


def case_rng(ctx, *key):
    import random
    return random.Random(f"{ctx.seed}|" + "|".join(str(k) for k in key))


def build_case(ctx, prog, n, nsteps, variant, exotic=True):
    SY = sys.modules[__name__]
    from autode.constants import Constants as C
    rng = case_rng(ctx, "case", prog, n, nsteps, variant, exotic)
    case = SY.Case(rng, n, nsteps, exotic=exotic)
    S = SY.synth(prog, case, rng, variant=("opt" if variant == "opt" else "sp") if prog == "qchem" else variant,
                 a0=C.a0_to_ang)
    return case, S


def materialise(prog, variant, case, S):
    """write the files of a synthesised case into the cwd"""
    from autode.input_output import atoms_to_xyz_file
    from autode.atoms import Atom
    files = dict(S.files)
    if prog == "orca":
        if variant == "out":
            files.pop("c.hess", None)
    clean_dir()
    write_files(files)
    if prog == "orca" and variant == "xyz":
        last = case.steps[-1]["xyz"]
        atoms_to_xyz_file([Atom(s, *c) for s, c in zip(case.symbols, last)], "c.xyz", title_line="final")
    return files


def expected_coords(prog, variant, kind, case, S, E, xyz0):
    from autode.constants import Constants as C
    if kind != "opt" or (prog == "qchem" and case.n == 1):     # QChem.py:167-169: single atom unchanged
        return np.array(xyz0)
    if prog == "orca" and variant == "hess":
        return np.array(S.truth["hess_coords_bohr"]) * C.a0_to_ang
    if prog == "orca" and variant == "xyz":
        return np.array([[float(f"{v:10.5f}") for v in c] for c in case.steps[-1]["xyz"]])
    return E["coords"]


def inject_non_utf8(fn):
    """a latin-1 comment line (0xC5 = A-ring, 0xFC = u-umlaut) after the first line of an output file"""
    b = open(fn, "rb").read()
    k = b.index(b"\n") + 1
    with open(fn, "wb") as f:
        f.write(b[:k] + b" comment: r(C-H) = 1.09 \xc5 ; host m\xfcnchen ; \xb5Eh\n" + b[k:])


def variants_for(prog):
    if prog == "orca":
        return ["out", "hess", "xyz"]
    if prog == "qchem":
        return ["opt", "sp"]
    return ["std"]


def kinds_for(prog, variant):
    if prog == "qchem":
        return ["opt"] if variant == "opt" else ["grad", "hess"]
    if prog == "orca" and variant == "out":
        return ["opt", "grad"]
    return KINDS[prog]


# ============================================================================ complete outputs
def check_complete(F, prog, kind, variant, case, S, r, E, xyz0, rep):
    """property-level oracle on a complete output. -> number of failures"""
    n0 = F.count
    P = PNAME[prog]
    if not r["ok"]:
        if prog == "qchem" and kind in ("grad", "hess") and case.n % 6 == 0 and "ValueError" in (r["exc"] or ""):
            F.add("QChem._raw_scf_grad|natoms-multiple-of-6",
                  f"Q-Chem SCF-gradient block of a {case.n}-atom molecule (a multiple of the 6-column block width): "
                  f"(n//6+1)*4 lines are sliced, one block too many, and the text after the block is parsed -> {r['exc']}", rep)
            return F.count - n0
        if prog == "mopac" and case.n == 1 and kind == "opt":
            F.add("MOPAC.coordinates_from|single-atom-output-rejected",
                  "MOPAC optimisation output of a single atom: the 'CARTESIAN COORDINATES' block is recognised by the "
                  f"line 3 below the title having 5 fields, which is no atom line for one atom -> no coordinates -> {r['exc']}", rep)
            return F.count - n0
        F.add(f"{P}.set_output_filename|complete-output-rejected",
              f"{prog} {kind} ({variant}) complete {case.n}-atom output with {case.nsteps} step(s) was rejected: {r['exc']}", rep)
        return F.count - n0
    if not close(r["energy"], E["energy"]):
        F.add(f"{P}.energy|wrong-value", f"{prog} {kind}: energy read {r['energy']!r}, the file's final energy is {E['energy']!r} Ha "
              f"({describe_mismatch(r['energy'], E['energy'], E['all_e'][:-1])})", rep)
    ec = expected_coords(prog, variant, kind, case, S, E, xyz0)
    if not close(r["coords"], ec, rtol=1e-9, atol=1e-10):
        F.add(f"{P}.coordinates|wrong-value", f"{prog} {kind} ({variant}): coordinates {describe_mismatch(r['coords'], ec, E['all_xyz'][:-1])}", rep)
    if not close(r["grad"], E["grad"]):
        from autode.constants import Constants as C
        if prog == "qchem" and variant == "sp" and case.n % 6 == 0 and r["grad"] is None:
            F.add("QChem._raw_scf_grad|natoms-multiple-of-6",
                  f"Q-Chem SCF-gradient block of a {case.n}-atom molecule: one block too many is sliced, the ValueError is "
                  "swallowed by the no-exception gradient path and the gradient stays unset", rep)
        elif prog == "g09" and close(r["grad"], E["grad"] / C.a0_to_ang):
            F.add("G09.gradient_from|double-unit-conversion",
                  "Gaussian forces (Hartree/Bohr) are divided by a0_to_ang, labelled 'Ha a0^-1' and converted to Ha/Angstrom "
                  f"again: every gradient entry is 1/{C.a0_to_ang} = {1 / C.a0_to_ang:.6f} times too large", rep)
        else:
            F.add(f"{P}.gradient|wrong-value", f"{prog} {kind}: gradient {describe_mismatch(r['grad'], E['grad'], E['all_g'][:-1])}", rep)
    if prog in HAS_HESS and not (prog == "orca" and variant == "out"):
        if not close(r["hess"], E["hess"]):
            if prog == "qchem" and close(r["hess"], E["hess_projected"]):
                F.add("QChem.hessian_from|projected-hessian-returned",
                      "both 'Mass-Weighted Hessian Matrix' and 'Projected Mass-Weighted Hessian Matrix' match the marker; the last "
                      "one wins, so the translation/rotation-projected matrix is returned although the method documents the "
                      "non-projected one", rep)
            else:
                F.add(f"{P}.hessian|wrong-value", f"{prog} {kind}: Hessian {describe_mismatch(r['hess'], E['hess'])}", rep)
    if prog in HAS_CHARGES:
        if not close(r["charges"], E["charges"]):
            F.add(f"{P}.partial_charges|wrong-value", f"{prog} {kind}: partial charges {describe_mismatch(r['charges'], E['charges'])}", rep)
    return F.count - n0


def stream_complete(ctx, meths, F, sizes, step_counts):
    SY = sys.modules[__name__]
    for prog in SY.PROGRAMS:
        for variant in variants_for(prog):
            for n in sizes:
                for nsteps in step_counts:
                    if prog in ("xtb", "mopac") and nsteps > 1 and n > 3:
                        continue       # their outputs carry one final block; steps only vary filler
                    case, S = build_case(ctx, prog, n, nsteps, variant)
                    materialise(prog, variant, case, S)
                    if nsteps > 1 or n % 4 == 0:
                        # program outputs echo titles / paths / host names: bytes that are not valid UTF-8 must not matter
                        inject_non_utf8(S.main)
                    E = expected(prog, S.truth, n)
                    xyz0 = case.steps[0]["xyz"]
                    for kind in kinds_for(prog, variant):
                        if prog == "xtb":
                            for f in os.listdir("."):
                                if f.endswith("_xtb.grad"):
                                    os.remove(f)
                            write_files({"c_xtb_OLD.grad": S.files["c_xtb_OLD.grad"]})
                        rep = {"stream": "synth-complete", "prog": prog, "n": n, "nsteps": nsteps, "variant": variant,
                               "kind": kind}
                        r = run_calc(meths, prog, kind, case, S.main, xyz0)
                        wraps = (3 * n > 5)
                        ctx.count("synth-complete", (prog, variant, n, nsteps, kind), nontrivial=(wraps or nsteps > 1),
                                  sample=rep)
                        ctx.hist("synth-complete", f"{prog}:n={n}")
                        check_complete(F, prog, kind, variant, case, S, r, E, xyz0, rep)
                        if prog == "xtb" and kind == "grad" and os.path.exists("c_xtb_xtb.grad"):
                            # XTB.py:368-373: the converted <name>_xtb.grad (8 decimals) is read on every later call
                            r2 = run_calc(meths, prog, kind, case, S.main, xyz0)
                            ctx.count("synth-complete", (prog, "converted-grad", n, nsteps), nontrivial=True)
                            want = np.array([[float(f"{v:^12.8f}") for v in c] for c in S.truth["grad_raw"]]) / _a0()
                            if not r2["ok"] or not close(r2["grad"], want):
                                F.add("XTB.gradient|wrong-value", "xtb gradient re-read from the converted c_xtb_xtb.grad file: " +
                                      (r2["exc"] or describe_mismatch(r2["grad"], want)), dict(rep, second_read=True))
    clean_dir()


# ============================================================================ truncated outputs
MARKERS = {"orca": ["CARTESIAN COORDINATES (ANGSTROEM)", "FINAL SINGLE POINT", "CARTESIAN GRADIENT", "HIRSHFELD", "TERMINATED"],
           "g09": ["Input orientation", "SCF Done", "Forces (Hartrees", "Mulliken", "NImag", "Normal termination"],
           "nwchem": ["Output coordinates", "Total DFT", "ENERGY GRADIENTS", "Atom information", "MASS-WEIGHTED", "NORMAL MODE", "CITATION"],
           "qchem": ["Standard Nuclear", "Total energy", "Gradient of SCF", "Coordinates (Ang", "Cartesian Gradient",
                     "Mass-Weighted", "Has Mass", "Thank you"],
           "xtb": ["final structure", "covCN", "TOTAL ENERGY", "finished run"],
           "mopac": ["TOTAL ENERGY", "FINAL  POINT", "CARTESIAN COORDINATES", "MOPAC DONE"]}
TERMINATION = {"orca": ["ORCA TERMINATED NORMALLY"], "g09": ["Normal termination of Gaussian"], "nwchem": ["CITATION"],
               "qchem": ["Thank you very much for using Q-Chem"], "xtb": ["finished run"], "mopac": ["MOPAC DONE"]}


def cut_points(lines, prog, limit):
    N = len(lines)
    if N <= limit:
        return list(range(N))
    ks = set(range(0, N, max(1, N // limit)))
    for i, l in enumerate(lines):
        if any(m in l for m in MARKERS[prog]):
            ks.update(range(max(0, i - 2), min(N, i + 4)))
    ks.update(range(max(0, N - 12), N))
    return sorted(ks)


def value_class(got, want, earlier, char_cut):
    """how a value read from an ACCEPTED truncated output relates to the file: final / unset / earlier-step /
    number-cut-short (right shape, the file ends inside a number) / wrong"""
    if close(got, want):
        return "final"
    if got is None:
        return "unset"
    if any(close(got, o) for o in earlier):
        return "earlier-step"
    g, w = np.asarray(got, dtype=float), np.asarray(want, dtype=float)
    if char_cut and g.shape == w.shape:
        return "number-cut-short"      # the file ends inside a number (of this property or of a mass it is scaled with)
    return "wrong"


def check_truncated(F, ctx, prog, kind, variant, case, S, r, E, xyz0, rep, cut, target, term_line):
    """`target` file cut to its first `cut` lines."""
    P = PNAME[prog]
    ctx.hist("synth-truncated", f"{prog}:{'ok' if r['ok'] else r.get('exc_type')}")
    whole = (target == S.main and cut > term_line)      # everything up to the termination marker is there
    if whole:                                            # a complete output: same oracle as for complete outputs
        check_complete(F, prog, kind, variant, case, S, r, E, xyz0, rep)
        return
    ec = expected_coords(prog, variant, kind, case, S, E, xyz0)
    if not r["ok"]:
        if r["family"] == 4 and r.get("exc_type") == "AssertionError" and kind == "opt":
            F.add("Calculation.set_properties|truncated-coordinates-block-AssertionError",
                  f"{prog} optimisation output truncated after {cut} lines (before / inside the final coordinates block): the short "
                  "coordinate list reaches Atoms.coordinates (atoms.py:641 `assert value.shape == (len(self), 3)`) and a bare "
                  "AssertionError escapes instead of AtomsNotFound / CouldNotGetProperty", rep)
        elif r["family"] == 4:
            F.add(f"{P}.set_output_filename|truncated-output-undocumented-exception:{r.get('exc_type')}",
                  f"{prog} {kind} ({variant}) output truncated after {cut} lines of {target}: {r['exc']} escapes "
                  "(neither a CalculationException nor the package's ValueError/IndexError parse-failure family)", rep)
        # the error was reported - but which numbers does the caller's species hold now?  Only nothing (unchanged) or the
        # complete final values are "not partial"
        left = []
        for name, got, fin, earlier in (("energy", r["energy"], E["energy"], E["all_e"][:-1]),
                                        ("gradient", r["grad"], E["grad"], E["all_g"][:-1]),
                                        ("Hessian", r["hess"], E.get("hess"), [])):
            if got is None or fin is None or close(got, fin) or (name == "Hessian" and close(got, E.get("hess_projected"))):
                continue
            left.append(f"{name} ({describe_mismatch(got, fin, earlier)})")
        if not (close(r["coords"], np.array(xyz0), atol=1e-10) or close(r["coords"], ec, atol=1e-10)):
            left.append(f"coordinates ({describe_mismatch(r['coords'], ec, E['all_xyz'][:-1])})")
        if left and prog in ("qchem", "xtb", "mopac"):
            # these programs' termination tests do not notice the truncation (known), so properties are set before a
            # later parser fails: same root cause, its own input class
            F.add(f"{P}.terminated_normally_in|truncated-output-accepted:error-raised-after-values-set",
                  f"{prog} {kind} ({variant}) output truncated after {cut} lines of {target} passes the termination test; "
                  f"{r['exc']} is raised by a later parser but the species already holds: " + "; ".join(left), rep)
        elif left:
            F.add("Calculation.set_output_filename|rejected-output-leaves-non-final-values-on-species",
                  f"{prog} {kind} ({variant}) output truncated after {cut} lines of {target}: {r['exc']} is raised, but the species "
                  "passed in has been modified (set_properties runs before the termination test) and now holds values that are "
                  "not the final ones of the file: " + "; ".join(left), rep)
        return
    # accepted: only the complete final values are acceptable
    cc = bool(rep.get("cut_line_text") is not None)
    classes = {"energy": value_class(r["energy"], E["energy"], E["all_e"][:-1], cc)}
    if kind == "opt":
        classes["coordinates"] = value_class(r["coords"], ec, E["all_xyz"][:-1], cc)
    if kind == "grad":
        g = r["grad"]
        if prog == "g09" and g is not None and close(g * _a0(), E["grad"]):
            g = g * _a0()
        classes["gradient"] = value_class(g, E["grad"], E["all_g"][:-1], cc)
    if kind == "hess":
        h = E["hess"] if (prog == "qchem" and close(r["hess"], E.get("hess_projected"))) else r["hess"]
        classes["Hessian"] = value_class(h, E["hess"], [], cc)
    worst = next((c for c in ("wrong", "number-cut-short", "earlier-step", "unset") if c in classes.values()), "final")
    detail = "; ".join(f"{k}: {v}" for k, v in classes.items())
    if target == S.main:
        F.add(f"{P}.terminated_normally_in|truncated-output-accepted:{worst}-values",
              f"{prog} {kind} ({variant}) output of {len(S.files[S.main])} lines truncated after line {cut} (termination "
              f"marker at line {term_line + 1} missing) is reported as terminated normally; values read: {detail}", rep)
    elif worst != "final":
        F.add(f"{P}.set_output_filename|truncated-auxiliary-file-accepted",
              f"{prog} {kind}: {target} truncated after {cut} lines"
              + (f" and the text {rep['cut_line_text'][-30:]!r} (a number cut short, e.g. its exponent)" if rep.get("cut_line_text") else "")
              + f" while {S.main} is complete: accepted without any error: {detail}", rep)


def _a0():
    from autode.constants import Constants as C
    return C.a0_to_ang


TRUNC_PLAN = {"orca": [("hess", "opt", "c.out"), ("hess", "hess", "c.hess"), ("hess", "hess", "c.out"), ("out", "grad", "c.out")],
            "g09": [("std", "opt", "c.log"), ("std", "hess", "c.log")],
            "nwchem": [("std", "grad", "c.out"), ("std", "hess", "c.out")],
            "qchem": [("opt", "opt", "c.out"), ("sp", "hess", "c.out"), ("sp", "grad", "c.out")],
            "xtb": [("std", "opt", "c.out"), ("std", "grad", "c_xtb_OLD.grad")],
            "mopac": [("std", "opt", "c.out"), ("std", "grad", "c.out")]}


def stream_truncated(ctx, meths, F, sizes, limit):
    SY = sys.modules[__name__]
    for prog in SY.PROGRAMS:
        for n in sizes:
            for variant, kind, target in TRUNC_PLAN[prog]:
                nsteps = 2 if prog not in ("xtb", "mopac") else 1
                case, S = build_case(ctx, prog, n, nsteps, variant)
                E = expected(prog, S.truth, n)
                xyz0 = case.steps[0]["xyz"]
                full = S.files[target]
                term_line = max([i for i, l in enumerate(S.files[S.main]) if any(t in l for t in TERMINATION[prog])] or [10 ** 9])
                for cut in cut_points(full, prog, limit):
                    files = materialise(prog, variant, case, S)
                    write_files({target: full[:cut]})
                    if cut == 0:
                        open(target, "w").close()
                    if prog == "xtb" and target != "c_xtb_OLD.grad":
                        write_files({"c_xtb_OLD.grad": S.files["c_xtb_OLD.grad"]})
                    rep = {"stream": "synth-truncated", "prog": prog, "n": n, "nsteps": nsteps, "variant": variant,
                           "kind": kind, "target": target, "cut": cut}
                    r = run_calc(meths, prog, kind, case, S.main, xyz0)
                    ctx.count("synth-truncated", (prog, variant, n, kind, target, cut), nontrivial=True,
                              sample=rep if cut == len(full) // 2 else None)
                    check_truncated(F, ctx, prog, kind, variant, case, S, r, E, xyz0, rep, cut, target, term_line)
    clean_dir()


# ============================================================================ real output files
def unpack_real(ctx):
    d = os.path.join(ctx.work, "real")
    os.makedirs(d, exist_ok=True)
    src = os.path.join(REPO, "tests", "test_wrappers", "data")
    for prog in ("orca", "g09", "nwchem", "qchem", "xtb", "mopac"):
        with zipfile.ZipFile(os.path.join(src, prog + ".zip")) as z:
            for m in z.namelist():
                if m.startswith(prog + "/") and not m.endswith("/") and "/." not in m:
                    tgt = os.path.join(d, prog, os.path.basename(m))
                    os.makedirs(os.path.dirname(tgt), exist_ok=True)
                    with z.open(m) as fsrc, open(tgt, "wb") as fdst:
                        shutil.copyfileobj(fsrc, fdst)
    return d


REAL_CASES = [  # program, file, symbols, kind; parsed by autodE and by the independent readers of the layouts
    ("orca", "opt_orca.out", ["C", "Cl", "H", "H", "H"], "grad"),
    ("orca", "H2O_hess_orca.out", ["O", "H", "H"], "hess"),
    ("g09", "opt_g09.log", ["C", "Cl", "H", "H", "H"], "opt"),
    ("g09", "ester_opt_g09.log", ["C", "C", "O", "C", "O", "H", "H", "H", "H", "H", "H"], "opt"),
    ("nwchem", "opt_nwchem.out", ["C", "H", "H", "H", "H"], "grad"),
    ("nwchem", "sn2_hess_nwchem.out", ["F", "Cl", "C", "H", "H", "H"], "hess"),
    ("nwchem", "butane_hess_nwchem.out", ["C"] * 4 + ["H"] * 10, "hess"),
    ("qchem", "H2O_opt_qchem.out", ["O", "H", "H"], "opt"),
    ("qchem", "H2O_hess_qchem.out", ["O", "H", "H"], "hess"),
    ("qchem", "C4H10_sp_qchem.out", ["C"] * 4 + ["H"] * 10, "grad"),
    ("xtb", "xtb_6_3_2_opt.out", ["Cl", "C", "H", "H", "H"], "opt"),
    ("mopac", "methane_opt_mopac.out", ["C", "H", "H", "H", "H"], "opt"),
    ("mopac", "h2_grad_mopac.out", ["H", "H"], "grad"),
    # branches no synthesiser prints
    ("orca", "numerical_orca.out", ["C", "Cl", "H", "H", "H", "Cl"], "grad"),        # CARTESIAN GRADIENT (NUMERICAL): i+2
    ("orca", "tmp_orca.out", ["C", "Cl", "H", "H", "H", "Cl"], "grad"),              # The final MP2 gradient: i+1
    ("orca", "h2o_orca_v5_charges.out", ["O", "H", "H"], "sp"),                      # ORCA 5 Hirshfeld table
    ("g09", "tmp_g09_hess_alt.log", ["F", "Cl", "C", "H", "H", "H"], "hess"),        # " Energy= ... NIter=" (external)
    ("nwchem", "H_sp_nwchem.out", ["H"], "sp"),                                      # Total SCF energy
    ("xtb", "xtb_6_1_opt.out", ["C", "H", "H", "H", "H"], "opt"),                    # $coord block (bohr), "total E"
    ("xtb", "xtb_no_version_opt.out", ["C", "H", "H", "H", "H"], "opt"),
    ("xtb", "h2_grad_xtb.out", ["H", "H"], "grad"),                                  # 3-column <name>_xtb.grad
    ("mopac", "H2O_mopac_new.out", ["O", "H", "H"], "sp"),                           # ETOT (EONE + ETWO)
]


def stream_real(ctx, meths, F, real_dir):
    """the real wrappers on the real files vs the independent block readers (last block wins)"""
    LY = sys.modules[__name__]
    from autode.constants import Constants as C

    class _C:  # minimal stand-in for Case
        pass
    a0 = C.a0_to_ang
    for prog, fn, symbols, kind in REAL_CASES:
        path = os.path.join(real_dir, prog, fn)
        L = open(path, errors="ignore").read().split("\n")
        n = len(symbols)
        case = _C()
        case.symbols, case.n = symbols, n
        nel = sum(LY.G09.ATNUM[s] for s in symbols)
        case.mult = 1 if nel % 2 == 0 else 2
        xyz0 = [[0.1 * k, 0.0, 0.0] for k in range(n)]
        clean_dir()
        for f in os.listdir(os.path.dirname(path)):
            if f.startswith(fn.rsplit(".", 1)[0]):
                shutil.copy(os.path.join(os.path.dirname(path), f), f)
        r = run_calc(meths, prog, kind, case, fn, xyz0, name=fn[:-8] if fn == "h2_grad_xtb.out" else "c")
        rep = {"stream": "real-files", "prog": prog, "file": fn, "kind": kind}
        ctx.count("real-files", (prog, fn), nontrivial=True, sample=rep)
        P = PNAME[prog]
        if not r["ok"]:
            F.add(f"{P}.set_output_filename|real-output-rejected", f"{fn}: {r['exc']}", rep)
            continue
        want = {}
        fa = lambda pat: [k for k, l in enumerate(L) if pat in l]   # noqa
        if prog == "orca":
            want["energy"] = float(L[fa("FINAL SINGLE POINT ENERGY")[-1]].split()[4])
            g = fa("CARTESIAN GRADIENT")
            mp2 = fa("The final MP2 gradient")
            if mp2 and (not g or mp2[-1] > g[-1]):      # rows "  k:  gx gy gz" directly below the title
                want["grad"] = np.array([[float(v) for v in L[mp2[-1] + 1 + k].split()[-3:]] for k in range(n)]) / a0
            elif g and "NUMERICAL" in L[g[-1]]:          # title, dashes, rows
                want["grad"] = np.array([[float(v) for v in L[g[-1] + 2 + k].split()[-3:]] for k in range(n)]) / a0
            elif g:
                want["grad"] = np.array(LY.ORCA.read_gradient(L, g[-1], n)) / a0
            hs = fa("HIRSHFELD ANALYSIS")
            if hs:
                want["charges"] = LY.ORCA.read_charges(L, hs[-1], n)
            if kind == "hess":
                LH = open(path.replace(".out", ".hess")).read().split("\n")
                H, _ = LY.ORCA.read_hess_matrix(LH, [k for k, l in enumerate(LH) if "$hessian" in l][0])
                want["hess"] = np.array(H) / a0 ** 2
        elif prog == "g09" and fn == "tmp_g09_hess_alt.log":
            el = [k for k in fa(" Energy=") if "NIter=" in L[k]]
            want["energy"] = float(L[el[-1]].split()[1])
            flat = LY.G09.read_archive_ltril(L)
            m = 3 * n
            Hm = np.zeros((m, m))
            Hm[np.tril_indices(m)] = flat
            want["hess"] = (Hm + Hm.T - np.diag(np.diag(Hm))) / a0 ** 2
        elif prog == "g09":
            want["energy"] = float(L[fa("SCF Done")[-1]].split()[4])
            want["coords"] = np.array(LY.G09.read_coords(L, fa("Input orientation")[-1], n))
            want["grad"] = -np.array(LY.G09.read_forces(L, fa("Forces (Hartrees/Bohr)")[-1], n)) / a0
            want["charges"] = LY.G09.read_charges(L, fa("Sum of Mulliken charges")[-1], n)
        elif prog == "nwchem":
            want["energy"] = float(L[(fa("Total DFT energy") or fa("Total SCF energy"))[-1]].split()[4])
            g = fa("DFT ENERGY GRADIENTS")
            if g:
                want["grad"] = np.array(LY.NWChem.read_gradient(L, g[-1], n)) / a0
            if kind == "hess":
                rows = LY.NWChem.read_hessian(L, fa("MASS-WEIGHTED NUCLEAR HESSIAN")[0], 3 * n)
                ms = LY.NWChem.read_masses(L, fa("Atom information")[-1], n)
                m3 = [ms[i // 3] * 1e-3 for i in range(3 * n)]
                want["hess"] = np.array([[rows[max(i, j)][min(i, j)] * math.sqrt(m3[i] * m3[j]) for j in range(3 * n)]
                                         for i in range(3 * n)]) / a0 ** 2
        elif prog == "qchem":
            want["energy"] = float(L[fa("Total energy in the final basis set")[-1]].split()[-1])
            if kind == "opt":
                want["coords"] = np.array(LY.QChem.read_coords(L, [k for k in fa("Coordinates (Angstroms)")][-1], n, 2))
                want["grad"] = np.array(LY.QChem.read_opt_gradient(L, fa("Cartesian Gradient")[-1], n)) / a0
            if kind == "grad":
                want["grad"] = np.array(LY.QChem.read_scf_gradient(L, fa("Gradient of SCF Energy")[-1], n)) / a0
            if kind == "hess":
                hs = fa("Mass-Weighted Hessian Matrix")
                ms = [float(L[k].split()[-1]) for k in fa("Has Mass")][-n:]
                m3 = [ms[i // 3] for i in range(3 * n)]
                mk = lambda i0: np.array([[v * math.sqrt(m3[i] * m3[j]) for j, v in enumerate(row)]   # noqa
                                          for i, row in enumerate(LY.QChem.read_hessian(L, i0, 3 * n))]) / a0 ** 2
                want["hess"] = mk(hs[0])
                want["hess_projected"] = mk(hs[-1])
        elif prog == "xtb" and fn == "h2_grad_xtb.out":
            want["energy"] = float(L[fa("TOTAL ENERGY")[-1]].split()[-3])
            want["grad"] = np.array([[float(v) for v in l.split()] for l in open("h2_grad_xtb_xtb.grad") if l.split()]) / a0
        elif prog == "xtb" and fa("$coord"):             # xtb 6.1 / 6.2.2 / no version line: $coord block in bohr
            want["energy"] = float(L[fa("total E")[-1]].split()[-1])
            c0 = fa("$coord")[-1]
            want["coords"] = np.array([[float(v) for v in L[c0 + 1 + k].split()[:3]] for k in range(n)]) * a0
        elif prog == "xtb":
            want["energy"] = float(L[fa("TOTAL ENERGY")[-1]].split()[-3])
            want["coords"] = np.array(LY.XTB.read_final_structure(L, fa("final structure")[0], n))
            want["charges"] = LY.XTB.read_charges(L, fa("covCN")[-1], n)
        elif prog == "mopac" and fa("ETOT (EONE + ETWO)"):
            want["energy"] = float(L[fa("ETOT (EONE + ETWO)")[0]].split()[-2]) / C.ha_to_eV
        elif prog == "mopac":
            want["energy"] = float(L[fa("TOTAL ENERGY")[0]].split()[3]) / C.ha_to_eV
            if kind == "grad":
                want["grad"] = np.array(LY.MOPAC.read_gradient(L, fa("FINAL  POINT  AND  DERIVATIVES")[0], n)).reshape(n, 3) / C.ha_to_kcalmol
        for k, w in want.items():
            if k == "hess_projected":
                continue
            got = r.get(k)
            if k == "coords" and kind != "opt":
                continue
            if close(got, w, rtol=1e-9, atol=1e-10 if k == "coords" else 1e-12):
                continue
            if k == "grad" and prog == "g09" and close(np.array(got) * a0, w):
                F.add("G09.gradient_from|double-unit-conversion",
                      f"{fn}: every gradient entry is 1/{a0} times the force printed in the file converted to Ha/Angstrom", rep)
            elif k == "hess" and prog == "qchem" and close(got, want.get("hess_projected")):
                F.add("QChem.hessian_from|projected-hessian-returned",
                      f"{fn}: the projected mass-weighted Hessian block is returned, not the 'Mass-Weighted Hessian Matrix' block", rep)
            else:
                F.add(f"{P}.{k}|wrong-value-real-file", f"{fn}: {k} {describe_mismatch(got, w)}", rep)
    clean_dir()


# ============================================================================ character-level truncation
FLOAT_RE = re.compile(r"[-+]?\d+\.\d+(?:[EeDd][-+]?\d+)?")
STEP_START = {"orca": "CARTESIAN COORDINATES (ANGSTROEM)", "g09": "Input orientation", "nwchem": "Output coordinates",
              "qchem": "Standard Nuclear Orientation", "xtb": None, "mopac": None}


PROP_MARK = {"orca": {"energy": ["FINAL SINGLE POINT ENERGY"], "coordinates": ["CARTESIAN COORDINATES (ANGSTROEM)"], "gradient": ["CARTESIAN GRADIENT"]},
             "g09": {"energy": ["SCF Done"], "coordinates": ["Input orientation"], "gradient": ["Forces (Hartrees/Bohr)"]},
             "nwchem": {"energy": ["Total DFT energy"], "coordinates": ["Output coordinates in angstroms"], "gradient": ["DFT ENERGY GRADIENTS"]},
             "qchem": {"energy": ["Total energy in the final basis set"], "coordinates": ["Coordinates (Angstroms)"],
                       "gradient": ["Cartesian Gradient"]},
             "xtb": {"energy": ["TOTAL ENERGY"], "coordinates": ["final structure"], "gradient": []},
             "mopac": {"energy": ["TOTAL ENERGY"], "coordinates": ["CARTESIAN COORDINATES"], "gradient": ["FINAL  POINT  AND  DERIVATIVES"]}}


def line_property(lines, j, prog, n):
    """which property's FINAL value line is line j (None if it is not the last step's energy line / a row of the last
    coordinates or gradient block)"""
    for prop, marks in PROP_MARK[prog].items():
        occ = [i for i, l in enumerate(lines) if any(m in l for m in marks)]
        if not occ:
            continue
        last = occ[-1]
        if prop == "energy":
            if j == last:
                return prop
        elif last < j <= last + n + 6:
            return prop
    return None


def char_cuts(lines, prog, is_main, max_lines, n_atoms=0):
    """(line index, column) pairs: inside the value-carrying lines of the last step - before the first number (after the
    label), after its sign / first character, in the middle of a number, with the last digit (of the exponent) missing"""
    N = len(lines)
    start = 0
    if is_main and STEP_START[prog]:
        occ = [i for i, l in enumerate(lines) if STEP_START[prog] in l]
        start = occ[-1] if occ else 0
    end = N
    if is_main:
        term = [i for i, l in enumerate(lines) if any(t in l for t in TERMINATION[prog])]
        end = term[-1] if term else N
    isf = [bool(FLOAT_RE.search(l)) for l in lines]
    cand = [j for j in range(start, end) if isf[j] and (j == 0 or not isf[j - 1] or j + 1 >= N or not isf[j + 1]
                                                         or any(m in lines[j] for m in MARKERS[prog]))]
    if len(cand) > max_lines:
        st = len(cand) / max_lines
        keep = {j for j in cand if n_atoms and line_property(lines, j, prog, n_atoms)}     # never sampled away
        cand = sorted({cand[int(k * st)] for k in range(max_lines)} | {cand[-1]} | keep)
    out = []
    for j in cand:
        toks = list(FLOAT_RE.finditer(lines[j]))
        cols = set()
        for m in (toks[0], toks[-1]):
            a, b = m.span()
            cols.update({a, a + 1, a + 2, (a + b) // 2, b - 1})     # a+2: a digit is kept also after a sign
        out += [(j, c) for c in sorted(cols) if 0 <= c < len(lines[j])]
    return out


def stream_char_truncated(ctx, meths, F, sizes, max_lines):
    """the output ends in the MIDDLE of a line of the last step (no newline)"""
    SY = sys.modules[__name__]
    for prog in SY.PROGRAMS:
        for n in sizes:
            for variant, kind, target in TRUNC_PLAN[prog]:
                nsteps = 2 if prog not in ("xtb", "mopac") else 1
                case, S = build_case(ctx, prog, n, nsteps, variant)
                E = expected(prog, S.truth, n)
                xyz0 = case.steps[0]["xyz"]
                full = S.files[target]
                term_line = max([i for i, l in enumerate(S.files[S.main]) if any(t in l for t in TERMINATION[prog])] or [10 ** 9])
                P = PNAME[prog]
                for j, c in char_cuts(full, prog, target == S.main, max_lines, n if target == S.main else 0):
                    materialise(prog, variant, case, S)
                    with open(target, "w") as f:
                        f.write("\n".join(full[:j] + [full[j][:c]]))
                    if prog == "xtb" and target != "c_xtb_OLD.grad":
                        write_files({"c_xtb_OLD.grad": S.files["c_xtb_OLD.grad"]})
                    rep = {"stream": "synth-char-truncated", "prog": prog, "n": n, "nsteps": nsteps, "variant": variant,
                           "kind": kind, "target": target, "line": j, "column": c, "cut_line_text": full[j][:c]}
                    r = run_calc(meths, prog, kind, case, S.main, xyz0)
                    ctx.count("synth-char-truncated", (prog, variant, n, kind, target, j, c), nontrivial=True,
                              sample=rep if c and c % 7 == 0 else None)
                    fell_back = None
                    prop = line_property(full, j, prog, n) if target == S.main else None
                    if r["ok"] and nsteps > 1 and prop is not None:
                        got, fin, earlier = {"energy": (r["energy"], E["energy"], E["all_e"][:-1]),
                                             "coordinates": (r["coords"] if kind == "opt" else None,
                                                             expected_coords(prog, variant, kind, case, S, E, xyz0), E["all_xyz"][:-1]),
                                             "gradient": (r["grad"], E["grad"], E["all_g"][:-1])}[prop]
                        if got is not None and not close(got, fin) and any(close(got, o) for o in earlier):
                            fell_back = prop
                    if fell_back:
                        F.add(f"{P}.{fell_back}|cut-inside-final-value-line-returns-earlier-step",
                              f"{prog} {kind} ({variant}) output ending inside line {j + 1} of {target} ({full[j][:c].strip()[-40:]!r}, cut "
                              f"after column {c} of the last step's value line): no error is raised and the {fell_back} of an EARLIER "
                              f"step is returned ({describe_mismatch(r[{'energy': 'energy', 'coordinates': 'coords', 'gradient': 'grad'}[fell_back]], {'energy': E['energy'], 'coordinates': E['coords'], 'gradient': E['grad']}[fell_back], {'energy': E['all_e'], 'coordinates': E['all_xyz'], 'gradient': E['all_g']}[fell_back][:-1])})",
                              rep)
                        continue
                    check_truncated(F, ctx, prog, kind, variant, case, S, r, E, xyz0, rep, j, target, term_line)
    clean_dir()


# ============================================================================ abnormally terminated outputs
# every spelling of an error message the wrapper tests for (alternatives), as the program prints it at the end of a run
ERROR_MARKS = {"orca": [["ORCA finished by error termination in SCF", "Calling Command: mpirun orca_scf_mpi"]],
               "g09": [[" Error termination via Lnk1e in /usr/local/g09/l502.exe at Mon Dec 16 12:50:56 2019."]],
               "nwchem": [[" MPI_ABORT was invoked on rank 0 in communicator MPI_COMM_WORLD with errorcode 911."]],
               "qchem": [[" Q-Chem fatal error occurred in module libdft/dftcodes.C, line 804:", "", " SCF failed to converge"],
                         [" Error: the input file has failed the Q-Chem input checks", ""]],
               "xtb": [["#ERROR! SCF not converged, aborting run", "abnormal termination of xtb"],                 # xtb < 6.3
                       ["[ERROR] Program stopped due to fatal error", "-1- scf: Self consistent charge iterator did not converge",
                        "abnormal termination of xtb"]],                                                           # xtb >= 6.3
               "mopac": [[" Error and normal termination messages reported in this calculation"],
                         [" EXCESS NUMBER OF OPTIMIZATION CYCLES", " Error: job stopped"]]}
ERROR_MARK = {k: v[0] for k, v in ERROR_MARKS.items()}
LIMIT_MARK = {"orca": ["    The optimization did not converge but reached the maximum number of", "    optimization cycles."],
              "g09": [" Optimization stopped.", "    -- Number of steps exceeded,  NStep=  3"],
              "nwchem": [" Failed to converge in maximum number of steps or available time"],
              "qchem": [" **  MAXIMUM OPTIMIZATION CYCLES REACHED  **", " Q-Chem fatal error occurred in module geomopt, line 34:"]}


def stream_abnormal(ctx, meths, F, sizes):
    """(a) outputs that contain the program's error message are reported (never their numbers); (b) outputs that stop at
    the optimisation-cycle limit count as terminated (documented behaviour) and give the values of their last step"""
    SY = sys.modules[__name__]
    for prog in SY.PROGRAMS:
        variant = {"orca": "hess", "qchem": "opt"}.get(prog, "std")
        kind = "opt" if "opt" in kinds_for(prog, variant) else "grad"
        P = PNAME[prog]
        for n in sizes:
            case, S = build_case(ctx, prog, n, 2 if prog not in ("xtb", "mopac") else 1, variant)
            E = expected(prog, S.truth, n)
            xyz0 = case.steps[0]["xyz"]
            L = S.files[S.main]
            term = max(i for i, l in enumerate(L) if any(t in l for t in TERMINATION[prog]))
            # the program stops at its error: nothing follows the message
            # (L[:term] holds every block of the last step, incl. the final energy: the message comes after it)
            scen = {("error-ends-output" if k == 0 else f"error-ends-output:spelling-{k + 1}"): L[:term] + mk
                    for k, mk in enumerate(ERROR_MARKS[prog])}
            if prog == "qchem":
                # a batch job: the first job dies early, Q-Chem carries on with the next jobs (hundreds of lines later)
                mid = len(L) // 3
                scen["error-in-first-job-of-batch"] = (L[:mid] + ERROR_MARK[prog] + ["", "", " Job 2 of 3 "] + L[5:] +
                                                       ["", " Job 3 of 3 "] + L[5:])
            for name, lines in scen.items():
                materialise(prog, variant, case, S)
                write_files({S.main: lines})
                rep = {"stream": "abnormal", "prog": prog, "n": n, "variant": variant, "kind": kind, "scenario": name}
                with contextlib.redirect_stdout(io.StringIO()):      # Q-Chem prints the last lines of a failed output
                    r = run_calc(meths, prog, kind, case, S.main, xyz0)
                ctx.count("abnormal", (prog, n, name), nontrivial=True, sample=rep)
                if r["ok"]:
                    F.add(f"{P}.terminated_normally_in|abnormal-termination-accepted:{name}",
                          f"{prog} {kind} output ({len(lines)} lines) containing the program's error message "
                          f"{next((x for x in lines[term:] if x.strip()), ERROR_MARK[prog][0]).strip()!r} ({name}) is reported as terminated normally and energy "
                          f"{r['energy']} is set", rep)
            if prog in LIMIT_MARK and kind in ("opt", "grad"):
                lines = L[:term] + LIMIT_MARK[prog] + [l for l in L[term + 1:] if not any(t in l for t in TERMINATION[prog])]
                materialise(prog, variant, case, S)
                write_files({S.main: lines})
                rep = {"stream": "abnormal", "prog": prog, "n": n, "variant": variant, "kind": kind, "scenario": "cycle-limit"}
                r = run_calc(meths, prog, kind, case, S.main, xyz0)
                ctx.count("abnormal", (prog, n, "cycle-limit"), nontrivial=True)
                if not r["ok"]:
                    F.add(f"{P}.terminated_normally_in|cycle-limit-output-rejected",
                          f"{prog} {kind} output that stops at the optimisation cycle limit ({LIMIT_MARK[prog][-1].strip()!r}) is "
                          f"documented to count as terminated, but was rejected: {r['exc']}", rep)
                else:
                    check_complete(F, prog, kind, variant, case, S, r, E, xyz0, rep)
    clean_dir()


# ============================================================================ one calculation, file rewritten
class _Collect:
    def __init__(self):
        self.count, self.items = 0, []

    def add(self, key, what, rep):
        self.count += 1
        self.items.append((key, what))


def stream_reuse(ctx, meths, F, sizes):
    """ONE Calculation object per case; the output file is completed / replaced on disk under the same
    name and set_output_filename is called again: the values must be those of the file as it is now."""
    SY = sys.modules[__name__]
    for prog in SY.PROGRAMS:
        variant = {"orca": "hess", "qchem": "opt"}.get(prog, "std")
        kind = "opt" if "opt" in kinds_for(prog, variant) else "grad"
        for n in sizes:
            caseA, SA = build_case(ctx, prog, n, 2 if prog not in ("xtb", "mopac") else 1, variant)
            caseB, SB = build_case(ctx, prog, n, 1, variant, exotic=False)
            EA, EB = expected(prog, SA.truth, n), expected(prog, SB.truth, n)
            xyz0 = caseA.steps[0]["xyz"]
            term = max(i for i, l in enumerate(SA.files[SA.main]) if any(t in l for t in TERMINATION[prog]))

            def put(case, S, cut=None):
                materialise(prog, variant, case, S)
                if cut is not None:
                    write_files({S.main: S.files[S.main][:cut]})

            def judge(tag, case, S, E, r, rep):
                col = _Collect()
                check_complete(col, prog, kind, variant, case, S, r, E, xyz0 if kind != "opt" else xyz0, rep)
                col.items = [(k, w) for k, w in col.items if k not in ctx.known_keys()]
                if col.items:
                    F.add("CalculationOutput.filename|stale-output-after-rewrite",
                          f"{prog} {kind}: {tag}: the second set_output_filename with the same name does not return the "
                          f"values of the file now on disk: {col.items[0][1]}", rep)
            # (a) truncated -> completed
            rep = {"stream": "reuse", "prog": prog, "n": n, "variant": variant, "kind": kind, "scenario": "truncated-then-complete"}
            ctx.count("reuse", (prog, n, "a"), nontrivial=True, sample=rep)
            put(caseA, SA, cut=term)
            sp, calc = make_calc(meths, prog, kind, caseA, xyz0)
            apply_calc(sp, calc, SA.main)
            put(caseA, SA)
            judge("output read while truncated, then completed on disk", caseA, SA, EA, apply_calc(sp, calc, SA.main), rep)
            # (b) complete A -> replaced by B -> truncated B
            rep = {"stream": "reuse", "prog": prog, "n": n, "variant": variant, "kind": kind, "scenario": "replaced"}
            ctx.count("reuse", (prog, n, "b"), nontrivial=True, sample=rep)
            put(caseA, SA)
            sp, calc = make_calc(meths, prog, kind, caseA, xyz0)
            r1 = apply_calc(sp, calc, SA.main)
            put(caseB, SB)
            r2 = apply_calc(sp, calc, SB.main)
            if r1["ok"]:
                judge("complete output replaced by a different output under the same name", caseB, SB, EB, r2, rep)
            if prog in ("orca", "g09", "nwchem"):        # the programs whose termination marker is checked
                termB = max(i for i, l in enumerate(SB.files[SB.main]) if any(t in l for t in TERMINATION[prog]))
                put(caseB, SB, cut=termB)
                r3 = apply_calc(sp, calc, SB.main)
                ctx.count("reuse", (prog, n, "c"), nontrivial=True)
                if r3["ok"]:
                    F.add("CalculationOutput.filename|stale-output-after-rewrite",
                          f"{prog} {kind}: a complete output was replaced by a truncated one under the same name (termination "
                          "line missing) and the second set_output_filename still reports normal termination",
                          dict(rep, scenario="complete-then-truncated"))
            if prog == "xtb":
                # a re-run in the same directory: new c.out + new gradient (c_xtb_OLD.grad) while the converted
                # c_xtb_xtb.grad of the FIRST run is still there (XTB.py:368-375 looks at it first)
                rep = {"stream": "reuse", "prog": prog, "n": n, "variant": variant, "kind": "grad", "scenario": "xtb-rerun-same-directory"}
                ctx.count("reuse", (prog, n, "xtb-rerun"), nontrivial=True, sample=rep)
                put(caseA, SA)
                rA = run_calc(meths, prog, "grad", caseA, SA.main, xyz0)
                write_files({k: v for k, v in SB.files.items()})          # nothing is removed
                rB = run_calc(meths, prog, "grad", caseB, SB.main, xyz0)
                if rA["ok"] and not (rB["ok"] and close(rB["grad"], EB["grad"])):
                    F.add("XTB.gradient_from|stale-converted-gradient-file",
                          "xtb gradient calculation re-run in the same directory: the new c.out and new turbomole gradient file are "
                          "on disk, but gradient_from returns the gradient of the PREVIOUS run from the converted c_xtb_xtb.grad "
                          f"(energy read is the new one: {close(rB['energy'], EB['energy'])}; gradient: "
                          f"{describe_mismatch(rB['grad'], EB['grad'], [EA['grad']]) if rB['ok'] else rB['exc']})", rep)
    clean_dir()


# ============================================================================ xyz files
XYZ_SYMS = ["H", "C", "N", "O", "F", "Cl", "Br", "S", "P", "Si", "Pd", "Li"]


def xyz_species(ctx, idx, n, solvent, with_energy):
    from autode.species.species import Species
    from autode.atoms import Atom
    LY = sys.modules[__name__]
    rng = case_rng(ctx, "xyz", idx, n)
    syms = [rng.choice(XYZ_SYMS) for _ in range(n)]

    def coord():
        u = rng.random()
        if u < 0.7:
            return rng.uniform(-12, 12)
        if u < 0.8:
            return rng.choice([-1, 1]) * 10 ** rng.uniform(-7, -4)      # rounds to +-0.00000 / 0.00001
        if u < 0.9:
            return rng.choice([-1, 1]) * (rng.randint(0, 99999) + 0.5) * 1e-5   # near ties
        return rng.choice([-1, 1]) * 10 ** rng.uniform(1, 2.9)
    atoms = [Atom(s, coord(), coord(), coord()) for s in syms]
    nel = sum(a.atomic_number for a in atoms)
    charge = rng.choice([-3, -2, -1, 1, 2, 3])
    mult = rng.choice([2, 4]) if (nel - charge) % 2 == 1 else rng.choice([3, 5])
    sp = Species("x", atoms, charge=charge, mult=mult, solvent_name=solvent)
    if with_energy:
        sp.energy = -10 ** rng.uniform(-1, 3.5) if rng.random() < 0.9 else 10 ** rng.uniform(-6, 0)
    return sp


def read_back_frame(m, sp, F, reader, rep, check_energy=True):
    """m: molecule read back; sp: species written"""
    want_xyz = np.array([[float(f"{v:10.5f}") for v in a.coord] for a in sp.atoms])
    want_lbl = [a.label for a in sp.atoms]
    if [a.label for a in m.atoms] != want_lbl or not np.array_equal(np.array(m.coordinates, dtype=float), want_xyz):
        F.add(f"{reader}|atoms-differ", f"{reader}: atoms read back differ from the {len(want_lbl)} atoms written "
              f"({describe_mismatch(np.array(m.coordinates, dtype=float), want_xyz)})", rep)
    if m.charge != sp.charge or m.mult != sp.mult:
        F.add(f"{reader}|charge-mult-differ", f"{reader}: wrote charge = {sp.charge} mult = {sp.mult}, read {m.charge}, {m.mult}", rep)
    if m.solvent_name != sp.solvent_name:
        F.add(f"{reader}|solvent-differs", f"{reader}: wrote solvent_name = {sp.solvent_name}, read {m.solvent_name}", rep)
    if check_energy:
        we = None if sp.energy is None else float(f"{float(sp.energy):.6f}")
        ge = None if m.energy is None else float(m.energy)
        if we != ge:
            key = f"{reader}|title-energy-ignored" if ge is None else f"{reader}|energy-differs"
            F.add(key, f"{reader}: title line carries E = {we} Ha, the species read back has energy {ge}", rep)


def stream_xyz(ctx, F, sizes, n_per):
    from autode.input_output import xyz_file_to_atoms, xyz_file_to_molecules
    from autode.species.molecule import Molecule
    from autode.solvent.solvents import solvents
    from autode.exceptions import XYZfileWrongFormat, AutodeException
    names = sorted(s.name for s in solvents if s.is_implicit)
    plain = [s for s in names if " " not in s and "=" not in s]
    blank = [s for s in names if " " in s]
    idx = 0
    for n in sizes:
        for rep_i in range(n_per):
            idx += 1
            rng = case_rng(ctx, "xyzopt", idx)
            solvent = rng.choice([None, rng.choice(plain), rng.choice(plain)])
            nframes = rng.choice([1, 1, 2, 3, 4])
            frames = [xyz_species(ctx, f"{idx}.{k}", n, solvent, with_energy=rng.random() < 0.8) for k in range(nframes)]
            clean_dir()
            for k, sp in enumerate(frames):
                sp.print_xyz_file(filename="w.xyz", append=(k > 0))
            rep = {"stream": "xyz", "n": n, "idx": idx, "frames": nframes, "solvent": solvent}
            ctx.count("xyz", (n, idx, nframes, solvent), nontrivial=(nframes > 1 or solvent is not None), sample=rep)
            ctx.hist("xyz", f"frames={nframes}")
            # reader 1: atoms of the first frame
            try:
                atoms = xyz_file_to_atoms("w.xyz")
                want = np.array([[float(f"{v:10.5f}") for v in a.coord] for a in frames[0].atoms])
                if [a.label for a in atoms] != [a.label for a in frames[0].atoms] or \
                        not np.array_equal(np.array(atoms.coordinates, dtype=float), want):
                    F.add("xyz_file_to_atoms|atoms-differ", "first frame read back differs: " +
                          describe_mismatch(np.array(atoms.coordinates, dtype=float), want), rep)
            except Exception as e:  # noqa
                F.add("xyz_file_to_atoms|valid-file-rejected", f"{type(e).__name__}: {e}", rep)
            # reader 2: Molecule('x.xyz') (first frame, title attributes)
            try:
                m = Molecule("w.xyz")
                read_back_frame(m, frames[0], F, "Molecule(xyz)", rep, check_energy=True)
            except Exception as e:  # noqa
                F.add("Molecule(xyz)|valid-file-rejected", f"{type(e).__name__}: {str(e)[:100]}", rep)
            # reader 3: all frames
            try:
                ms = xyz_file_to_molecules("w.xyz")
                if len(ms) != nframes:
                    F.add("xyz_file_to_molecules|frame-count", f"wrote {nframes} frames, read {len(ms)}", rep)
                for m, sp in zip(ms, frames):
                    read_back_frame(m, sp, F, "xyz_file_to_molecules", rep)
            except Exception as e:  # noqa
                F.add("xyz_file_to_molecules|valid-file-rejected", f"{type(e).__name__}: {str(e)[:100]}", rep)
    # ---- xyz files of other programs (stream "xyz-foreign"): 14 decimals, exponents, extra columns, tabs - outside the
    #      5-decimal token model, checked against float(token) directly
    rngf = case_rng(ctx, "xyz-foreign")
    for k in range(6):
        n = rngf.choice([1, 2, 5, 9])
        syms = [rngf.choice(XYZ_SYMS) for _ in range(n)]
        toks = [[rngf.choice(["{:.14f}", "{:.8E}", "{:.3f}", "{:.0f}"]).format(rngf.uniform(-9, 9)) for _ in range(3)]
                for _ in range(n)]
        lines = [f"  {n}  ", f" energy: {rngf.uniform(-99, 0):.12f} xtb: 6.3.2"] + \
                [f"{s_:<2s}\t" + "   ".join(row) + ("  0.5" if k % 2 else "") for s_, row in zip(syms, toks)]
        clean_dir()
        open("f.xyz", "w").write("\n".join(lines) + "\n")
        want = np.array([[float(t) for t in row] for row in toks])
        rep = {"stream": "xyz-foreign", "lines": lines}
        ctx.count("xyz-foreign", (k, n), nontrivial=True, sample=rep)
        for reader, fun in (("xyz_file_to_atoms", lambda: xyz_file_to_atoms("f.xyz")), ("xyz_file_to_molecules", lambda: xyz_file_to_molecules("f.xyz")[0].atoms)):
            try:
                atoms = fun()
                got = np.array([a.coord for a in atoms], dtype=float)
                if [a.label for a in atoms] != syms or not np.array_equal(got, want):
                    F.add(f"{reader}|foreign-xyz-values-differ", f"{reader}: {describe_mismatch(got, want)}", rep)
            except Exception as e:  # noqa
                F.add(f"{reader}|valid-file-rejected", f"{reader} rejects a high-precision xyz file: {type(e).__name__}: {e}", rep)
    # ---- EVERY implicit solvent of the library whose name is one token (commas, digits, '=', brackets ...):
    #      written by the real writer, read back by both readers
    for solvent in plain:
        sp = xyz_species(ctx, "solv-" + solvent, 2, solvent, True)
        clean_dir()
        sp.print_xyz_file(filename="s.xyz")
        rep = {"stream": "xyz", "quirk": "solvent-sweep", "solvent": solvent}
        ctx.count("xyz", ("solvent-sweep", solvent), nontrivial=True, sample=rep if "," in solvent else None)
        for reader, fun in (("Molecule(xyz)", lambda: Molecule("s.xyz")), ("xyz_file_to_molecules", lambda: xyz_file_to_molecules("s.xyz")[0])):
            try:
                m = fun()
                read_back_frame(m, sp, F, reader, rep)
            except Exception as e:  # noqa
                F.add(f"{reader}|solvent-differs", f"{reader}: species written with 'solvent_name = {solvent}' is not read back: "
                      f"{type(e).__name__}: {str(e)[:80]}", rep)
    # ---- every implicit solvent whose library name contains a blank: the title value is cut at the blank
    failing = []
    for solvent in blank:
        sp = xyz_species(ctx, "blank-" + solvent, 2, solvent, True)
        clean_dir()
        sp.print_xyz_file(filename="b.xyz")
        ctx.count("xyz", ("blank-solvent", solvent), nontrivial=True)
        for reader, fun in (("Molecule(xyz)", lambda: Molecule("b.xyz")), ("xyz_file_to_molecules", lambda: xyz_file_to_molecules("b.xyz")[0])):
            try:
                got = fun().solvent_name
                if got != solvent:
                    failing.append((solvent, reader, f"read {got}"))
            except Exception as e:  # noqa
                failing.append((solvent, reader, f"{type(e).__name__}: {str(e)[:60]}"))
    if failing:
        F.add("xyz-title|solvent-name-with-blank",
              f"{len({f[0] for f in failing})} of {len(blank)} implicit solvents whose name contains a blank are not read back from the "
              f"title the writer emits ('solvent_name = {failing[0][0]} ...' -> only the first word is looked up): e.g. "
              f"{failing[0][1]} -> {failing[0][2]}", {"stream": "xyz", "quirk": "blank-solvent", "failing": failing[:10]})
    # ---- StringDict quirks through the real readers (title chosen by the caller of print_xyz_file)
    sp = xyz_species(ctx, "quirk", 3, None, True)
    clean_dir()
    sp.print_xyz_file(filename="q.xyz", title_line=f"xmult = 5 maxE = 3.0 charge = {sp.charge} mult = {sp.mult} E = -1.500000 Ha")
    ctx.count("xyz", ("quirk", "suffix-key"), nontrivial=True)
    try:
        m = xyz_file_to_molecules("q.xyz")[0]
        if m.mult != sp.mult or float(m.energy) != -1.5:
            F.add("StringDict.__getitem__|key-matches-inside-other-token",
                  f"title 'xmult = 5 maxE = 3.0 charge = {sp.charge} mult = {sp.mult} E = -1.500000 Ha': the lookup splits on "
                  f"'mult = ' / 'E = ' wherever they occur: read mult = {m.mult}, E = {m.energy} (written mult = {sp.mult}, E = -1.5)",
                  {"stream": "xyz", "quirk": "suffix-key"})
    except Exception as e:  # noqa
        F.add("StringDict.__getitem__|key-matches-inside-other-token", f"{type(e).__name__}: {e}", {"stream": "xyz", "quirk": "suffix-key"})
    # ---- malformed files
    good = xyz_species(ctx, "mal", 4, None, True)
    clean_dir()
    good.print_xyz_file(filename="g.xyz")
    G = open("g.xyz").read().split("\n")[:-1]
    muts = {
        "truncated-last-line": (G[:-1], True), "truncated-two-lines": (G[:-2], True),
        "missing-middle-line": (G[:3] + G[4:], True), "count-too-large": ([str(len(G) - 1)] + G[1:], True),
        "count-not-a-number": (["four"] + G[1:], True), "count-two-numbers": (["4 4"] + G[1:], True),
        "count-float": (["4.0"] + G[1:], True), "missing-column": (G[:3] + [" ".join(G[3].split()[:3])] + G[4:], True),
        "junk-coordinate": (G[:3] + [G[3].replace(G[3].split()[2], "1.2.3")] + G[4:], True),
        "unknown-element": (G[:3] + ["Qq" + G[3][2:]] + G[4:], True), "empty-file": ([], True),
        "only-count": (["4"], True), "zero-atoms": (["0", ""], True),
        "two-frames-second-truncated": (G + G[:-1], True),
        "negative-count-2": (["-2"] + G[1:], True), "negative-count-5": (["-5"] + G[1:], True),
        # values in the title line that cannot be converted
        "title-charge-not-int": ([G[0], re.sub(r"charge = \S+", "charge = x", G[1])] + G[2:], True),
        "title-charge-float": ([G[0], re.sub(r"charge = \S+", "charge = 1.0", G[1])] + G[2:], True),
        "title-mult-zero": ([G[0], re.sub(r"mult = \S+", "mult = 0", G[1])] + G[2:], True),
        "title-mult-float": ([G[0], re.sub(r"mult = \S+", "mult = 2.0", G[1])] + G[2:], True),
        "title-energy-junk": ([G[0], re.sub(r"E = \S+", "E = abc", G[1])] + G[2:], True),
        "trailing-blank-line": (G + [""], False), "extra-column": (G[:2] + [G[2] + "  0.5"] + G[3:], False),
    }
    for name, (lines, malformed) in muts.items():
        open("m.xyz", "w").write("\n".join(lines) + ("\n" if lines else ""))
        readers = (("xyz_file_to_atoms", xyz_file_to_atoms), ("xyz_file_to_molecules", xyz_file_to_molecules))
        if name.startswith("title-"):          # the atom-only reader ignores the title; Molecule(file) reads it
            readers = (("Molecule(xyz)", lambda f: Molecule(f).atoms), ("xyz_file_to_molecules", xyz_file_to_molecules))
        for reader, fun in readers:
            rep = {"stream": "xyz-malformed", "mutant": name, "reader": reader, "lines": lines}
            ctx.count("xyz-malformed", (name, reader), nontrivial=True, sample=rep)
            try:
                res = fun("m.xyz")
                out = ("ok", [len(res)] if reader != "xyz_file_to_molecules" else [x.n_atoms for x in res])
            except XYZfileWrongFormat:
                out = ("format-error", None)
            except Exception as e:  # noqa
                out = (type(e).__name__, str(e)[:60])
            ctx.hist("xyz-malformed", f"{reader}:{out[0]}")
            first_frame_ok = name == "two-frames-second-truncated" and reader == "xyz_file_to_atoms"
            if malformed and not first_frame_ok:
                if out[0] == "ok" and name.startswith("negative-count"):
                    F.add("xyz_file_to_molecules|negative-atom-count",
                          f"a count line of {lines[0]} makes xyz_file_to_molecules return {out[1]} (no molecule, no error): the "
                          "frame loop has a negative step and never runs", rep)
                elif out[0] == "ok":
                    F.add(f"{reader}|malformed-file-accepted",
                          f"{reader} accepts the malformed file '{name}' ({len(lines)} lines, declared {lines[0] if lines else '-'} atoms) "
                          f"and returns {out[1]} atoms per frame", rep)
                elif out[0] != "format-error":
                    if name.startswith("title-") and reader == "Molecule(xyz)" and out[0] == "ValueError":
                        pass        # Molecule._init_xyz_file documents "Raises: (ValueError)"
                    elif name.startswith("title-"):
                        F.add("xyz-title|malformed-value-undocumented-error",
                              f"{reader}: title line {lines[1]!r} ({name[6:]}): the value cannot be converted and a bare "
                              f"{out[0]} ({out[1]}) escapes instead of XYZfileWrongFormat (_set_attr_from_title_line / "
                              "Molecule._init_xyz_file only expect IndexError)", rep)
                    elif name.startswith("negative-count"):
                        F.add("xyz_file_to_molecules|negative-atom-count",
                              f"a count line of {lines[0]} makes xyz_file_to_molecules raise {out[0]} ({out[1]}) instead of "
                              "XYZfileWrongFormat", rep)
                    elif reader == "xyz_file_to_atoms" and name == "unknown-element":
                        F.add("xyz_file_to_atoms|unknown-element-AssertionError",
                              f"an atom line with the label 'Qq' raises {out[0]} from Atom() instead of XYZfileWrongFormat", rep)
                    else:
                        F.add(f"{reader}|malformed-file-undocumented-error",
                              f"{reader} on the malformed file '{name}' raises {out[0]} ({out[1]}) instead of XYZfileWrongFormat", rep)
            elif not malformed and out[0] != "ok":
                F.add(f"{reader}|valid-file-rejected:{name}", f"{reader} rejects the valid file variant '{name}' with {out[0]} ({out[1]})", rep)
    clean_dir()


# ============================================================================ model vs implementation
def coq_str(s):
    return "(bytes_of_codes [" + "; ".join(str(c) for c in s.encode("utf-8")) + "]%nat)"


def coq_opt_str(s):
    return "None" if s is None else f"(Some {coq_str(s)})"


def num_lines(lines):
    """split lines -> token lines for the block models: integer-only lines (column numbers) become zeros,
    data lines get 0 for their leading row number when `lead` is an int"""
    out = []
    for l in lines:
        t = l.replace("D", "E").split()
        if not t:
            out.append([])
        elif all(x.lstrip("-").isdigit() for x in t):
            out.append([0.0] * len(t))
        elif t[0].lstrip("-").isdigit():
            out.append([0.0] + [float(x) for x in t[1:]])
        else:
            out.append([float(x) for x in t])
    return out


def impl_hessian(meths, prog, case, main, xyz0, n_override=None):
    """hessian_from + Species.hessian setter. -> (class, matrix in Ha/Angstrom^2 or None)"""
    SY = sys.modules[__name__]
    c2 = case
    if n_override is not None:
        class _C:
            pass
        c2 = _C()
        c2.symbols = (case.symbols + ["H", "H"])[:n_override] if n_override > case.n else case.symbols[:n_override]
        c2.n = n_override
        nel = sum(sys.modules[__name__].G09.ATNUM[s] for s in c2.symbols)
        c2.mult = 1 if nel % 2 == 0 else 2
        xyz0 = (list(xyz0) + [[9.0, 9.0, 9.0], [8.0, 8.0, 8.0]])[:n_override]
    sp, calc = make_calc(meths, prog, "hess", c2, xyz0)
    calc.output.filename = main
    try:
        H = calc.method.hessian_from(calc._executor)
        sp.hessian = H
        return 0, np.array(sp.hessian.to("Ha Å^-2"), dtype=float)
    except Exception as e:  # noqa
        return family(e), None


def stream_model(ctx, meths, F, atom_counts, trunc_limit, n_titles):
    from autode.constants import Constants as C
    from autode.utils import StringDict
    LY = sys.modules[__name__]
    a0 = C.a0_to_ang
    terms, descr = [], []

    def add(term, d, key, nontrivial=True):
        terms.append(term)
        descr.append(d)
        ctx.count("model-vs-impl", key, nontrivial, sample=d)

    def mat(M):
        return "[]" if M is None else qc_mat(M)

    # ---------------- Hessian block layouts and the code's reassembly, complete and truncated
    for prog in ("orca", "qchem", "nwchem", "g09"):
        for n in atom_counts[prog]:
            variant = {"orca": "hess", "qchem": "sp"}.get(prog, "std")
            case, S = build_case(ctx, prog, n, 1, variant, exotic=False)
            files = materialise(prog, variant, case, S)
            xyz0 = case.steps[0]["xyz"]
            T = S.truth
            R = 3 * n
            if prog == "orca":
                L = files["c.hess"]
                i = [k for k, l in enumerate(L) if "$hessian" in l][0]
                j = L.index("", i + 2)
                blk = L[i + 2:j]
                Mtok = [[float(f"{v:19.10E}") for v in row] for row in case.H]
                scale = lambda H: (H * a0 ** 2).tolist()     # noqa
                target, head = "c.hess", L[:i + 2]
            elif prog == "qchem":
                L = files["c.out"]
                marks = [k for k, l in enumerate(L) if "Mass-Weighted Hessian Matrix" in l]
                m3 = [float(f"{case.masses[k // 3]:10.5f}") for k in range(R)]
                scale = lambda H: [[H[a][b] * a0 ** 2 / math.sqrt(m3[a] * m3[b]) for b in range(R)] for a in range(R)]  # noqa
                target = "c.out"
            elif prog == "nwchem":
                L = files["c.out"]
                i = [k for k, l in enumerate(L) if "MASS-WEIGHTED NUCLEAR HESSIAN" in l][0]
                j = [k for k, l in enumerate(L) if "NORMAL MODE EIGENVECTORS" in l][0]
                m3 = [float(f"{case.masses[k // 3]:15.7E}") * 1e-3 for k in range(R)]
                scale = lambda H: [[H[a][b] * a0 ** 2 / math.sqrt(m3[a] * m3[b]) for b in range(R)] for a in range(R)]  # noqa
                target = "c.out"
            else:
                L = files["c.log"]
                scale = lambda H: (H * a0 ** 2).tolist()     # noqa
                target = "c.log"
            cls, H = impl_hessian(meths, prog, case, S.main, xyz0)
            d = {"kind": "hessian-block", "prog": prog, "n": n, "cut": None}
            if prog == "orca":
                toks = num_lines(blk)
                add(f"check_orca_layout 5%nat {qc_mat(Mtok)} {qc_mat(toks)}", dict(d, what="layout"), ("orca-layout", n))
                def tail_rows(lines):
                    # lines after the block: only "is this a line starting with $end" matters ([-1] = yes, [] = other)
                    return [[-1.0] if ln.startswith("$end") else [] for ln in lines]
                add(f"check_orca_file {R}%nat {qc_mat(toks + tail_rows(L[j:]))} {cls}%nat {mat(scale(H) if H is not None else None)}",
                    dict(d, what="parse"), ("orca-parse", n))
                # "$end" variants: indented (startswith fails), only BEFORE the block (not searched), missing
                for vname, lines2 in (("end-indented", [(" " + ln) if ln.startswith("$end") else ln for ln in L]),
                                      ("end-only-before-block", L[:i] + ["$end"] + [ln for ln in L[i:] if not ln.startswith("$end")]),
                                      ("end-missing", [ln for ln in L if not ln.startswith("$end")])):
                    write_files({target: lines2})
                    i2 = [k for k, l in enumerate(lines2) if "$hessian" in l][0]
                    c4, H4 = impl_hessian(meths, prog, case, S.main, xyz0)
                    add(f"check_orca_file {R}%nat {qc_mat(toks + tail_rows(lines2[i2 + 2 + len(blk):]))} {c4}%nat "
                        f"{mat(scale(H4) if H4 is not None else None)}", dict(d, what=vname), ("orca-end", n, vname))
                cuts = cut_list(len(blk), trunc_limit)
                for k in cuts:
                    write_files({target: head + blk[:k]})
                    c2, H2 = impl_hessian(meths, prog, case, S.main, xyz0)
                    add(f"check_orca_file {R}%nat {qc_mat(num_lines(blk[:k]))} {c2}%nat {mat(scale(H2) if H2 is not None else None)}",
                        dict(d, what="truncated", cut=k), ("orca-trunc", n, k))
                    # the same cut with the rest of the file ($vibrational_frequencies ... $end) still present: the
                    # closing line is there, so the block itself is parsed by the reassembly rule
                    write_files({target: head + blk[:k] + L[j:]})
                    c3, H3 = impl_hessian(meths, prog, case, S.main, xyz0)
                    add(f"check_orca_file {R}%nat {qc_mat(num_lines(blk[:k]) + tail_rows(L[j:]))} {c3}%nat {mat(scale(H3) if H3 is not None else None)}",
                        dict(d, what="block-lines-missing", cut=k), ("orca-missing", n, k))
            elif prog == "qchem":
                # complete: the block the implementation uses (QChem.py:349-351, commit 5fcb1eb: not the projected one)
                i = marks[0]
                nb = (R + 5) // 6
                blk = L[i + 3:i + 3 + nb * (R + 2) - 2]
                Mtok = [[float(f"{v:12.6f}") for v in row] for row in case.H]
                toks = num_lines(blk)
                add(f"check_qchem_layout 6%nat {qc_mat(Mtok)} {qc_mat(toks)}", dict(d, what="layout"), ("qchem-layout", n))
                add(f"check_qchem_parse {R}%nat {qc_mat(toks + [[], []])} {cls}%nat {mat(scale(H) if H is not None else None)}",
                    dict(d, what="parse"), ("qchem-parse", n))
                i = marks[0]
                blk = L[i + 3:i + 3 + nb * (R + 2) - 2]
                for k in cut_list(len(blk), trunc_limit):
                    write_files({target: L[:i + 3] + blk[:k]})
                    c2, H2 = impl_hessian(meths, prog, case, S.main, xyz0)
                    add(f"check_qchem_parse {R}%nat {qc_mat(num_lines(blk[:k]))} {c2}%nat {mat(scale(H2) if H2 is not None else None)}",
                        dict(d, what="truncated", cut=k), ("qchem-trunc", n, k))
            elif prog == "nwchem":
                body = L[i + 6:j]
                data_idx = [k for k, l in enumerate(body) if "D" in l]

                def ilines(lines):
                    out = []
                    for l in lines:
                        if "D" in l:
                            t = l.replace("D", "E").split()
                            out.append(f"({int(t[0]) - 1}%nat, {qc_list([float(x) for x in t[1:]])})")
                    return "[" + "; ".join(out) + "]"
                Mtok = [[float(f"{case.H[a][b]:13.5E}") for b in range(R)] for a in range(R)]
                add(f"check_nwchem_layout 10%nat {qc_mat(Mtok)} {ilines(body)}", dict(d, what="layout"), ("nwchem-layout", n))
                add(f"check_nwchem_parse {R}%nat {ilines(body)} {cls}%nat {mat(scale(H) if H is not None else None)}",
                    dict(d, what="parse"), ("nwchem-parse", n))
                for k in cut_list(len(body), trunc_limit):
                    write_files({target: L[:i + 6] + body[:k]})
                    c2, H2 = impl_hessian(meths, prog, case, S.main, xyz0)
                    add(f"check_nwchem_parse {R}%nat {ilines(body[:k])} {c2}%nat {mat(scale(H2) if H2 is not None else None)}",
                        dict(d, what="truncated", cut=k), ("nwchem-trunc", n, k))
            else:
                flat = LY.G09.read_archive_ltril(L)
                Mtok = [[float(f"{v:.8f}") for v in row] for row in case.H]
                add(f"check_g09_layout {qc_mat(Mtok)} {qc_list(flat)}", dict(d, what="layout"), ("g09-layout", n))
                add(f"check_g09_parse {R}%nat {qc_list(flat)} {cls}%nat {mat(scale(H) if H is not None else None)}",
                    dict(d, what="parse"), ("g09-parse", n))
                for n2 in (n + 1, n - 1):
                    if n2 < 1:
                        continue
                    c2, H2 = impl_hessian(meths, prog, case, S.main, xyz0, n_override=n2)
                    add(f"check_g09_parse {3 * n2}%nat {qc_list(flat)} {c2}%nat {mat(scale(H2) if H2 is not None else None)}",
                        dict(d, what="other-atom-count", n2=n2), ("g09-count", n, n2))
    clean_dir()
    # ---------------- "last marker wins" (scan) and short per-atom tables (table_parse) on multi-step outputs
    for prog, variant, kind in (("orca", "out", "opt"), ("g09", "std", "opt"), ("nwchem", "std", "grad"), ("qchem", "opt", "opt")):
        case, S = build_case(ctx, prog, 2, 3, variant, exotic=False)
        materialise(prog, variant, case, S)
        xyz0 = case.steps[0]["xyz"]
        r = run_calc(meths, prog, kind, case, S.main, xyz0)
        L = S.files[S.main]
        for propname, blocks, got in (("gradient", S.truth["all_g"], None if r["grad"] is None else (r["grad"] * a0).tolist()),
                                      ("coordinates", S.truth["all_xyz"], r["coords"].tolist() if kind == "opt" else None)):
            marks = PROP_MARK[prog][propname]
            if propname == "coordinates" and prog == "qchem":
                continue            # two kinds of coordinate blocks per step (orientation + optimiser): see README
            if got is None:
                continue
            seq, k = [], 0
            for ln in L:
                if any(m in ln for m in marks) and "(A.U.)" not in ln:
                    seq.append(f"(Mk {qc_mat(blocks[min(k, len(blocks) - 1)])})")
                    k += 1
                else:
                    seq.append("Ot")
            add(f"check_scan [{'; '.join(seq)}] {qc_mat(got)}", {"kind": "scan", "prog": prog, "prop": propname, "markers": k},
                ("scan", prog, propname))
    for prog, variant, skip, mark in (("orca", "out", 2, "CARTESIAN GRADIENT"), ("nwchem", "std", 3, "DFT ENERGY GRADIENTS")):
        case, S = build_case(ctx, prog, 3, 1, variant, exotic=False)
        xyz0 = case.steps[0]["xyz"]
        L = S.files[S.main]
        i = [k for k, l in enumerate(L) if mark in l][-1]
        for cut in range(i + 1, i + 2 + skip + case.n):
            materialise(prog, variant, case, S)
            write_files({S.main: L[:cut]})
            sp, calc = make_calc(meths, prog, "grad", case, xyz0)
            calc.output.filename = S.main
            try:
                sp.gradient = calc.method.gradient_from(calc._executor)
                cls, g = 0, (np.array(sp.gradient) * a0).tolist()
            except Exception as e:  # noqa
                cls, g = family(e), None
            rows = [[float(x) for x in ln.split()[-3:]] if len(FLOAT_RE.findall(ln)) >= 3 else [] for ln in L[i + 1:cut]]
            add(f"check_table {case.n}%nat {skip}%nat {qc_mat(rows)} {cls}%nat {mat(g)}",
                {"kind": "table", "prog": prog, "cut": cut - i - 1}, ("table", prog, cut - i))
    clean_dir()
    # ---------------- the four title lookups on titles the real writer produced (premise of Props.xyz_title_lookup)
    from autode.solvent.solvents import solvents as _solv
    punct = [x.name for x in _solv if x.is_implicit and " " not in x.name and any(ch in x.name for ch in ",;:+()=")][:8]
    for k, solvent in enumerate([None, "water", "dichloromethane"] + punct):
        sp = xyz_species(ctx, f"title-{k}", 2, solvent, with_energy=(k % 3 != 1))
        clean_dir()
        sp.print_xyz_file(filename="t.xyz")
        title = open("t.xyz").read().split("\n")[1]
        en = None if sp.energy is None else f"{float(sp.energy):.6f}"
        add(f"lookup_all {coq_str(title)} {coq_str(str(sp.charge))} {coq_str(str(sp.mult))} {coq_opt_str(solvent)} {coq_opt_str(en)}",
            {"kind": "written-title", "title": title}, ("written-title", k))
    clean_dir()
    # ---------------- size recovery: the float formula of geom.py vs the integer square root of the model
    expr = ltril_formula()
    rng = case_rng(ctx, "tri")
    Ls = list(range(0, 80)) + [k * (k + 1) // 2 + dd for k in (10, 99, 120, 1000, 4095, 65535, 10 ** 6, 4 * 10 ** 7)
                               for dd in (-1, 0, 1)] + [rng.randint(0, 10 ** 12) for _ in range(30)]
    for Lv in Ls:
        got = eval(expr, {"np": np, "array": range(Lv), "len": len, "int": int})    # noqa: the expression of geom.py
        if Lv < 3000:
            add(f"check_tri_n {Lv}%nat {int(got)}%nat", {"kind": "tri_n", "L": Lv}, ("tri", Lv), nontrivial=Lv > 3)
        add(f"check_tri_nZ ({Lv})%Z ({int(got)})%Z", {"kind": "tri_n", "L": Lv}, ("triZ", Lv), nontrivial=Lv > 3)
    # ---------------- StringDict
    titles = ["charge = 0 mult = 1", "Generated by autodE on: 2026-10-01. charge = -1 mult = 2 solvent_name = water E = -76.123457 Ha",
              "xmult = 5 mult = 1", "maxE = 3.0 E = -1.5", "charge = 1 total_charge = 1", "charge = mult = 2", "E = ", "mult =  3",
              "charge =", "solvent_name = diethyl ether E = -1.000000 Ha", "a = b  c = d", "charge = 2\tmult = 3", "  ", "",
              "E = -1.0E = -2.0", "mult = 4 mult = 5", "charge=1 mult = 2", "kcharge = 7",
              "solvent_name = 1,2-dichloroethane E = -1.000000 Ha", "charge = +1;mult = 2", "solvent_name = n,n-dimethylformamide",
              "E = -1.5,mult = 3", "solvent_name = (e)-1,2-dichloroethene charge = -1", "mult = 3: charge = 2", "E = 1e-3;",
              "solvent_name = 4=methylpyridine mult = 2", "charge = -1,", "mult = ;2", "E = ,", "charge = 1+2-3(4)5:6;7,8 mult = 9"]
    from autode.solvent.solvents import solvents as _solvents
    titles += [f"charge = 0 mult = 1 solvent_name = {s.name} E = -1.000000 Ha" for s in _solvents
               if s.is_implicit and any(ch in s.name for ch in ",;:+()=")][:12]
    alphabet = ["charge", "mult", "E", "solvent_name", " = ", " ", "=", "x", "1", "-2.5", "Ha", "water", "\t", "e", "E =",
                ",", ";", ":", "+", "(", ")", "1,2-d"]
    for _ in range(n_titles):
        titles.append("".join(rng.choice(alphabet) for _ in range(rng.randint(1, 9))))
    for t in titles:
        sd = StringDict(t)
        for key in ("charge", "mult", "E", "solvent_name", "solvent"):
            try:
                v = sd[key]
            except IndexError:
                v = None
            add(f"check_sd {coq_str(key)} {coq_str(t)} {coq_opt_str(v)} {coq_bool(key in sd)}",
                {"kind": "stringdict", "title": t, "key": key}, ("sd", t, key), nontrivial=(v is not None))
    # ---------------- fixed-point printing
    for _ in range(n_titles):
        x = rng.choice([rng.uniform(-20, 20), (rng.randint(-10 ** 6, 10 ** 6) + 0.5) * 1e-5, rng.randint(-999, 999) / 8.0,
                        10 ** rng.uniform(-8, 3), -10 ** rng.uniform(-8, 3)])
        for dg in (5, 6):
            s_ = f"{x:.{dg}f}"
            z = int(s_.replace(".", "").replace("-", "")) * (-1 if s_.startswith("-") else 1)
            fr = frac(x)
            add(f"check_fix {dg}%nat ({fr.numerator})%Z {fr.denominator}%positive ({z})%Z",
                {"kind": "fixed-point", "x": x, "digits": dg}, ("fix", x, dg))
    # ---------------- the title key of the reader is the key of the writer
    rk, wk = title_keys()
    add(f"check_same_key {coq_str(rk)} {coq_str(wk)}", {"kind": "title-key", "reader": rk, "writer": wk}, ("title-key",))
    # ---------------- xyz readers on token lines
    stream_model_xyz(ctx, add, rk)
    bad, err = ctx.coq_bad_indices(PRE, terms, per_file=100, name="c18cases", timeout=900)
    return [(descr[i], terms[i]) for i in bad], err


def cut_list(N, limit):
    if N <= limit:
        return list(range(N))
    st = max(1, N // limit)
    return sorted(set(range(0, N, st)) | {N - 1, N - 2})


def ltril_formula():
    """the expression assigned to `n` in geom.symm_matrix_from_ltril, taken from the source by ast"""
    src = open(os.path.join(REPO, "autode", "geom.py")).read()
    tree = ast.parse(src)
    for node in ast.walk(tree):
        if isinstance(node, ast.FunctionDef) and node.name == "symm_matrix_from_ltril":
            for st in ast.walk(node):
                if isinstance(st, ast.Assign) and len(st.targets) == 1 and isinstance(st.targets[0], ast.Name) \
                        and st.targets[0].id == "n":
                    return compile(ast.Expression(st.value), "geom.py:n", "eval")
    raise RuntimeError("symm_matrix_from_ltril: assignment to n not found")


def title_keys():
    """(key looked up by xyz_file_to_molecules for the solvent, key written by Species.print_xyz_file), from the source"""
    src = open(os.path.join(REPO, "autode", "input_output.py")).read()
    rk = None
    for node in ast.walk(ast.parse(src)):
        if isinstance(node, ast.FunctionDef) and node.name == "xyz_file_to_molecules":
            for c in ast.walk(node):
                if isinstance(c, ast.keyword) and c.arg == "solvent_name" and isinstance(c.value, ast.Call) \
                        and isinstance(c.value.func, ast.Attribute) and c.value.func.attr == "get" \
                        and c.value.args and isinstance(c.value.args[0], ast.Constant):
                    rk = c.value.args[0].value
    wsrc = open(os.path.join(REPO, "autode", "species", "species.py")).read()
    m = re.search(r'title_line \+= f"(\w+) = \{self\.solvent\.name\}', wsrc)
    if rk is None or m is None:
        raise RuntimeError("title keys not found in input_output.py / species.py (source changed: model not tied)")
    return rk, m.group(1)


def xline_of(line, is_title):
    if is_title:
        return f"(LTitle {coq_str(line)})"
    out = []
    for t in line.split():
        if re.fullmatch(r"[+-]?\d+", t):
            out.append(f"(TInt ({int(t)})%Z)")
        elif re.fullmatch(r"[+-]?\d+\.\d{1,5}", t):
            d = len(t.split(".")[1])
            z = int(t.replace(".", "").replace("-", "").replace("+", "")) * (-1 if t.startswith("-") else 1)
            out.append(f"(TFix {d}%nat ({z})%Z)")
        else:
            out.append(f"(TSym {coq_str(t)})")
    return "(LTok [" + "; ".join(out) + "])"


def _positive_int(v):
    if int(v) <= 0:
        raise ValueError(v)


def _solvent(v):
    from autode.solvent.solvents import get_solvent
    if get_solvent(v, kind="implicit") is None:
        raise ValueError(v)


def stream_model_xyz(ctx, add, reader_key):
    from autode.input_output import xyz_file_to_atoms, xyz_file_to_molecules
    from autode.atoms import elements
    els = "[" + "; ".join(coq_str(e) for e in elements) + "]"
    good = xyz_species(ctx, "mx1", 3, "water", True)
    good2 = xyz_species(ctx, "mx2", 3, None, True)
    one = xyz_species(ctx, "mx3", 1, None, False)
    clean_dir()
    good.print_xyz_file(filename="a.xyz")
    good2.print_xyz_file(filename="a.xyz", append=True)
    A = open("a.xyz").read().split("\n")[:-1]
    one.print_xyz_file(filename="o.xyz")
    O = open("o.xyz").read().split("\n")[:-1]
    G = A[:5]
    files = {"two-frames": A, "one-frame": G, "single-atom": O, "cut-1": G[:-1], "cut-2": G[:-2], "two-cut": A[:-1],
             "count-big": ["4"] + G[1:], "count-small": ["2"] + G[1:], "count-word": ["x"] + G[1:], "count-two": ["3 3"] + G[1:],
             "count-float": ["3.0"] + G[1:], "missing-col": G[:3] + [" ".join(G[3].split()[:3])] + G[4:],
             "junk": G[:3] + [G[3].replace(G[3].split()[2], "1.2.3")] + G[4:], "unknown-el": G[:2] + ["Qq 0.0 0.0 0.0"] + G[3:],
             "empty": [], "only-count": ["3"], "zero": ["0", ""], "trailing-blank": G + [""], "extra-col": G[:2] + [G[2] + " 7"] + G[3:],
             "numeric-label": G[:2] + ["1 0.0 0.0 0.0"] + G[3:], "unknown-el-junk": G[:2] + ["Qq 0.0 zz 0.0"] + G[3:],
             "known-el-junk": G[:2] + ["H 0.0 zz 0.0"] + G[3:], "suffix-title": ["3", "xmult = 5 mult = 3 charge = 1"] + G[2:],
             "three-frames-misaligned": A + ["3"], "neg1": ["-1"] + G[1:], "neg2": ["-2"] + G[1:], "neg5": ["-5"] + G[1:],
             "two-trailing-blanks": A + ["", "  "], "blank-only": ["", ""], "blank-title": ["3", ""] + G[2:],
             "title-charge-x": [G[0], "charge = x mult = 2"] + G[2:], "title-mult-0": [G[0], "charge = 1 mult = 0"] + G[2:],
             "title-mult-float": [G[0], "charge = 1 mult = 2.0"] + G[2:], "title-E-junk": [G[0], "charge = 1 mult = 2 E = abc"] + G[2:],
             "title-solvent-unknown": [G[0], "charge = 1 mult = 2 solvent_name = notasolvent"] + G[2:],
             "title-second-frame-bad": A[:6] + ["charge = 1.5 mult = 2"] + A[7:],
             "title-bad-and-short-frame": [G[0], "charge = x"] + G[2:-1]}
    for name, lines in files.items():
        open("m.xyz", "w").write("\n".join(lines) + ("\n" if lines else ""))
        # single-frame reader
        try:
            atoms = xyz_file_to_atoms("m.xyz")
            cls, exp = 0, "[" + "; ".join(
                f"(mkRAtom {coq_str(a.label)} ({round(a.coord[0] * 1e5)})%Z ({round(a.coord[1] * 1e5)})%Z ({round(a.coord[2] * 1e5)})%Z)"
                for a in atoms) + "]"
        except Exception as e:  # noqa
            cls, exp = family(e), "[]"
        xl = "[" + "; ".join(xline_of(l, k == 1) for k, l in enumerate(lines)) + "]"
        add(f"check_read_atoms {els} {xl} {cls}%nat {exp}", {"kind": "xyz_file_to_atoms", "file": name, "lines": lines},
            ("xyz-atoms", name))
        # multi-frame reader
        try:
            n0 = int(lines[0].split()[0])
        except Exception:  # noqa
            n0 = 0
        tidx = set(range(1, len(lines), n0 + 2)) if n0 + 2 > 0 else {1}
        try:
            ms = xyz_file_to_molecules("m.xyz")
            cls = 0
            fr = []
            for m in ms:
                at = "[" + "; ".join(
                    f"(mkRAtom {coq_str(a.label)} ({round(a.coord[0] * 1e5)})%Z ({round(a.coord[1] * 1e5)})%Z ({round(a.coord[2] * 1e5)})%Z)"
                    for a in m.atoms) + "]"
                ch = None if m.charge == 0 else str(m.charge)
                mu = None if m.mult == 1 else str(m.mult)
                en = None if m.energy is None else f"{float(m.energy):.6f}"
                fr.append(f"(mkFrame {at} {coq_opt_str(ch)} {coq_opt_str(mu)} {coq_opt_str(m.solvent_name)} {coq_opt_str(en)})")
            exp = "[" + "; ".join(fr) + "]"
        except Exception as e:  # noqa
            cls, exp = family(e), "[]"
            if cls in (1, 2):
                cls = 4          # anything but XYZfileWrongFormat is one class (undocumented) in the model
        xl = "[" + "; ".join(xline_of(l, k in tidx) for k, l in enumerate(lines)) + "]"
        toks = sorted({t for k in tidx if k < len(lines) for t in lines[k].split()})
        preds = []
        for test in (lambda v: int(v), lambda v: _positive_int(v), lambda v: float(v), lambda v: _solvent(v)):
            okl = []
            for t in toks:
                try:
                    test(t)
                    okl.append(t)
                except Exception:  # noqa
                    pass
            preds.append("[" + "; ".join(coq_str(t) for t in okl) + "]")
        add(f"check_read_molecules {els} {coq_str(reader_key)} {' '.join(preds)} {xl} {cls}%nat {exp}",
            {"kind": "xyz_file_to_molecules", "file": name, "lines": lines}, ("xyz-mols", name))
    clean_dir()


# ============================================================================ entry points
def tiers(ctx):
    if ctx.quick:
        return {"complete": [1, 2, 3, 4, 5, 6, 7, 10, 12], "steps": [1, 3], "trunc": [(1, 90), (2, 40), (3, 16)], "reuse": [2, 7], "chars": ([2], 10), "abnormal": [3],
                "xyz": ([1, 2, 3, 5, 8, 12], 3),
                "model": ({"orca": [1, 2, 3], "qchem": [1, 3], "nwchem": [2, 4], "g09": [1, 3]}, 6, 12)}
    return {"complete": list(range(1, 41)), "steps": [1, 3], "trunc": [(1, 1000), (2, 1000), (3, 600), (5, 300), (7, 200), (12, 150)],
            "reuse": [1, 2, 3, 6, 7, 12, 20], "chars": ([1, 2, 3, 5], 30), "abnormal": [1, 2, 3, 7, 12], "xyz": (list(range(1, 41)), 4),
            "model": ({p: [1, 2, 3, 4, 5] for p in ("orca", "qchem", "nwchem", "g09")}, 30, 300)}


def run(ctx):
    sys.path.insert(0, REPO)
    T = tiers(ctx)
    pins_changed = source_pins(ctx.pid, PINS)
    ctx.cov["source_pins"] = {"pinned": len(PINS), "changed": pins_changed}
    if pins_changed:
        ctx.log("source pins changed:", pins_changed)
    ok, info = ctx.proofs(SLICE, "C18/Props.v", "AV.C18.Props", extra_targets=["C18/Corr.vo"])
    ctx.log("proofs:", "ok" if ok else "BROKEN")
    ctx.cov["print_assumptions"] = info.get("assumptions", {})
    cwd = os.getcwd()
    rundir = os.path.join(ctx.work, "run")
    os.makedirs(rundir, exist_ok=True)
    os.chdir(rundir)
    corr_bad, corr_err = [], None
    try:
        meths = _imports()
        F = Findings(ctx)
        # 1. layouts of the synthesisers vs the real outputs
        LY = sys.modules[__name__]
        real_dir = unpack_real(ctx)
        st = LY.validate_against_real_files(real_dir)
        ctx.cov["layout_validation"] = {"real_lines": st["lines"], "byte_exact": st["byte_exact"], "blocks": st["blocks"],
                                        "token_mismatches": len(st["bad"])}
        ctx.log(f"layout validation on real files: {st['lines']} lines of {st['blocks']} numeric blocks, "
                f"{st['byte_exact']} byte-exact, {len(st['bad'])} token mismatches")
        if st["bad"] or st["byte_exact"] < 0.9 * st["lines"]:
            ctx.violation("the synthesisers' line layouts no longer reproduce the numeric blocks of the real output files",
                          {"kind": "layout-validation", "first": st["bad"][:5]}, found_input=False)
        # 2. real wrappers on the real files vs independent readers
        stream_real(ctx, meths, F, real_dir)
        ctx.log(f"real files: {F.count} oracle failures so far")
        # 3. synthesised complete outputs
        stream_complete(ctx, meths, F, T["complete"], T["steps"])
        ctx.log(f"complete synthesised outputs done: {F.count} oracle failures so far")
        # 4. every truncation point
        for n, limit in T["trunc"]:
            stream_truncated(ctx, meths, F, [n], limit)
        ctx.log(f"truncated outputs done: {F.count} oracle failures so far; outcome histogram "
                f"{ctx.cov['streams'].get('synth-truncated', {}).get('histogram')}")
        # 4a. the output ends in the middle of a value line of the last step
        stream_char_truncated(ctx, meths, F, *T["chars"])
        ctx.log(f"character-level truncation done: {F.count} oracle failures so far")
        # 4a'. outputs with the program's own error message / cycle-limit message
        stream_abnormal(ctx, meths, F, T["abnormal"])
        ctx.log(f"abnormal terminations done: {F.count} oracle failures so far")
        # 4b. one calculation object, output rewritten under the same name
        stream_reuse(ctx, meths, F, T["reuse"])
        ctx.log(f"re-used calculation objects done: {F.count} oracle failures so far")
        # 5. xyz files
        stream_xyz(ctx, F, *T["xyz"])
        ctx.log(f"xyz done: {F.count} oracle failures in total; keys {sorted(F.seen)}")
        ctx.cov["finding_counts"] = dict(F.seen)
        # 6. model vs implementation
        if ok:
            corr_bad, corr_err = stream_model(ctx, meths, F, *T["model"])
            ctx.log(f"correspondence: {len(corr_bad)} disagreements" + (f"; coq error {corr_err[-400:]}" if corr_err else ""))
            ctx.cov["disagreements"] = len(corr_bad)
        ctx.check_known_still_fail(set(F.seen))
    finally:
        os.chdir(cwd)
    if pins_changed and ok and not ctx.violations and not (corr_bad or corr_err):
        ctx.violation("hand model no longer pinned to the source: " + ", ".join(pins_changed),
                      {"kind": "source-pin", "changed": pins_changed}, found_input=False)
    if not ok:
        ctx.proof_failure(info, found_any_input=bool(ctx.violations))
    if corr_bad or corr_err:
        if not ctx.violations:
            if corr_bad:
                d0 = corr_bad[0][0]
                ctx.violation(f"the implementation departs from the proven model on a concrete input (stream model-vs-impl): {d0}",
                              {"kind": "correspondence", "case": d0, "all": [d for d, _ in corr_bad[:8]],
                               "coq_terms": [t[:3000] for _, t in corr_bad[:2]], "coq_error": corr_err}, found_input=True)
            else:
                ctx.violation("the correspondence shards no longer evaluate (model not tied to the implementation)",
                              {"kind": "correspondence", "coq_error": corr_err}, found_input=False)
        else:
            ctx.log("correspondence disagreements: ", [d for d, _ in corr_bad[:5]])


def replay(ctx, obj):
    """re-run exactly the stored case on the implementation (and print what the oracle says)"""
    sys.path.insert(0, REPO)
    rep = obj.get("replay", {})
    ctx.seed = obj.get("seed", ctx.seed)
    rundir = os.path.join(ctx.work, "run")
    os.makedirs(rundir, exist_ok=True)
    cwd = os.getcwd()
    os.chdir(rundir)
    hits = []
    ctx.finding = lambda key, what, r: hits.append((key, what))
    try:
        meths = _imports()
        F = Findings(ctx)
        st = rep.get("stream")
        if st in ("synth-complete", "synth-truncated", "synth-char-truncated"):
            prog, n, nsteps, variant, kind = rep["prog"], rep["n"], rep["nsteps"], rep["variant"], rep["kind"]
            case, S = build_case(ctx, prog, n, nsteps, variant)
            materialise(prog, variant, case, S)
            E = expected(prog, S.truth, n)
            xyz0 = case.steps[0]["xyz"]
            if st == "synth-truncated":
                write_files({rep["target"]: S.files[rep["target"]][:rep["cut"]]})
            if st == "synth-char-truncated":
                full = S.files[rep["target"]]
                with open(rep["target"], "w") as f:
                    f.write("\n".join(full[:rep["line"]] + [full[rep["line"]][:rep["column"]]]))
                rep = dict(rep, cut=rep["line"])
            r = run_calc(meths, prog, kind, case, S.main, xyz0)
            print("outcome:", "ok" if r["ok"] else r["exc"], "| energy", r["energy"], "expected", E["energy"])
            if st == "synth-complete":
                check_complete(F, prog, kind, variant, case, S, r, E, xyz0, rep)
            else:
                term = max([i for i, l in enumerate(S.files[S.main]) if any(t in l for t in TERMINATION[prog])] or [10 ** 9])
                check_truncated(F, ctx, prog, kind, variant, case, S, r, E, xyz0, rep, rep["cut"], rep["target"], term)
        elif st == "real-files":
            stream_real(ctx, meths, F, unpack_real(ctx))
        elif st == "reuse":
            stream_reuse(ctx, meths, F, [rep["n"]])
        elif st in ("xyz", "xyz-malformed"):
            stream_xyz(ctx, F, [1, 2, 3, 5], 2)
        else:
            print("replay: stream", st, "is re-run by the full check only")
    finally:
        os.chdir(cwd)
    for k, w in hits:
        print("replay:", k, "->", w)
    print("replay: stored:", obj.get("what"))
    return 1 if hits else 0


MANIFEST = {
    "technique": "Coq proof over a hand-written executable model of the output layouts and parser reassembly rules (pinned to the "
                 "source by 77 function hashes) + correspondence on synthesised outputs whose layouts are validated against the real "
                 "output files, + implementation oracles on real and synthesised outputs",
    "level_text": ("Machine-checked theorems (coq/C18/Props.v, 22, closed under the global context) for EVERY matrix size and block "
                   "width: column-block wrapping is lossless (w>=1 incl. w not dividing n); the code's own reassembly rules of ORCA "
                   "(.hess: skip-shorter-line + hessian[i mod 3N] += block, and the $end test computed over the lines), Q-Chem "
                   "(hess[j] += block until 3Nx3N) and NWChem (indexed lower-triangular blocks) return the printed matrix; Gaussian "
                   "lower-triangle flattening / symm_matrix_from_ltril round trip with exact size recovery and the element-count "
                   "guard; truncated blocks are rejected (Q-Chem: CouldNotGetProperty for every strict prefix; ORCA: no $end -> "
                   "CouldNotGetProperty, block rule -> complete matrix or shape error; NWChem count; short gradient tables); xyz "
                   "single/multi-frame line structure round trip with 5-decimal rounding, whole-key StringDict lookup (sound and "
                   "complete), malformed xyz files rejected with XYZfileWrongFormat by both readers whenever the title values "
                   "convert; statements false of the faithful model are *_refuted witnesses (solvent name with a blank, title value "
                   "that does not convert is XYZfileWrongFormat since f5575d0; unknown solvent = SolventNotFound)."),
    "level_note": ("PARTIAL. Theorems are about token lines (str.split) and abstract values. Named *_partial / conditional: "
                   "last_step_used_partial is about the loop shape only (which parsers have it is tied by check_scan; XTB structure, "
                   "MOPAC energy, NWChem Hessian take the first occurrence); xyz_title_lookup(_min) assume the decidable search "
                   "condition title_ok, which is evaluated on written titles but not proved for all; ltril_float_formula_range is the "
                   "integer half of the IEEE argument; no theorem covers truncated Gaussian archives, short coordinate / charge tables, "
                   "str->int/float of title values, xyz numbers beyond 5 decimals, non-ASCII whitespace. Only exercised by streams: the "
                   "keyword/regex scanning that locates blocks, float<->text, unit factors (autode.constants), termination / error "
                   "markers, exception classes, setters, byte decoding, file caching: (a) real wrappers on 22 real outputs vs "
                   "independent readers, (b) synthesised outputs (layouts validated token-exact / >=90% byte-exact on every run) for "
                   "1..40 atoms, multi-step, non-UTF-8 bytes, every line-level and character-level truncation (species state after a "
                   "reported error included), error-message and cycle-limit endings, one Calculation re-reading rewritten files, "
                   "(c) xyz files written by the real writer / third-party precision read by both readers, every library solvent, "
                   "malformed counts / atom lines / title values, (d) the Coq models run on the same token lines (vm_compute). Energy "
                   "dialects with no real output in /repo/tests (G09 E(CORR)/E(CIS), NWChem CCSD/MP2) are pinned only. Trusted: Coq "
                   "kernel + vm_compute, the synthesisers and independent readers in harness/c18.py, Python float/split/format, IEEE "
                   "sqrt. ValueError/IndexError/TypeError on truncated outputs are accepted as the package's parse-failure family."),
}
