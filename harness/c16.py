"""C16 — process-wide state is restored after every call, including failing ones (DESIGN 6/C16).

Tie: gen/C16_Gen.v is regenerated from /repo's autode/utils.py and autode/wrappers/*.py by
tr/translate_c16.py on every run (fail closed) and the theorems of coq/C16/Props.v are re-checked over
the TRANSLATED terms.  The real wrappers are then driven under systematic fault injection (every
failure point of every wrapper's own fallible steps, scripted wrapped functions that raise / chdir /
create files / set variables / edit Config, nesting depth <= 3 incl. recursion, variables and
directories pre-existing or absent) and what they do to (outcome, cwd, environment, directory tree,
Config) is compared with the big-step semantics of the translated terms evaluated in Coq, and directly
with the property (concrete replays).  `timeout` and ProcessPool workers: implementation side only.
"""
import copy
import hashlib
import itertools
import multiprocessing
import os
import pathlib
import pickle
import shutil
import sys
import tempfile
import time
import types

from common import REPO, VERIF, coq_bool, coq_list, coq_string, sh, source_pins

TRUSTED_BASE = [
    "Coq 8.16.1 kernel + coqc (vm_compute only for the finite generated program table, the concrete witnesses and the correspondence cases; no native_compute)",
    "Print Assumptions: every C16 theorem is closed under the global context (no axioms)",
    "translator tr/translate_c16.py (Python ast -> gen/C16_Gen.v; fail closed; its output is validated on every run by evaluating the translated terms against the real wrappers)",
    "the semantics of the effect language coq/C16/Effects.v (file system as sets of component paths, environment/config as finite maps, one fault tape for all fallible steps), validated by the same correspondence",
    "Python semantics assumed by the translation: try/finally, functools.wraps, contextlib.contextmanager (exception thrown at the yield), zip truncation, dict.update, copy.deepcopy copies the whole option tree",
    "harness fault injection (proxies for os.mkdir, shutil.copy/move, mkdtemp, get_total_memory inside autode.utils) and its classification of exceptions",
]
ASSUMPTIONS = [
    "os.chdir, os.rmdir (of an empty directory), shutil.rmtree and os.environ assignment do not themselves fail; logging has no effect",
    "mkdtemp returns a fresh directory (used only as the explicit premise 'destination not inside the scratch directory')",
    "timeout (fork + kill) and worker-process Config inheritance are observed on the implementation only, not modelled",
    "the wrapped function does not delete its own work_in / scratch directory (outcome-only infidelity: the finally block would raise)",
    "file names passed to work_in_tmp_dir are bare str names in the calling directory (other kinds: oracle-only variants)",
]
RULE = ("systematic: every wrapper variant (work_in on absent/empty/non-empty dir, work_in_tmp_dir with/without inputs incl. "
        "_mol.in and a missing input, ll_tmp_dir unset/existing/missing, run_in_tmp_environment on present/absent variables "
        "incl. a change between decoration and call, temporary_config, check_sufficient_memory) x every scripted wrapped "
        "function (returns / raises each of 6 exception types / chdir / files / variables / Config edits) x the fault-free run "
        "and one run per fallible step failing (thorough: also pairs); seeded random stacks of depth 2-3 incl. recursion; the "
        "six execute closures with a fake executable outside PATH (every keyword type, plain and rich calculation, memory check "
        "failing); oracle-only: full Calculation.run per program, ORCA._get_version_no_output, conf_gen, timeout (returns / times "
        "out / wrapped function raises / nested with work_in_tmp_dir), two submissions to one ProcessPool; a case is non-trivial when a fault is injected, the wrapped function "
        "raises or changes state, or the stack is nested; distinct by (stack, pre-state, script, fault plan)")

# Functions the HAND-WRITTEN parts (coq/C16/Effects.v semantics, Model.v program semantics, the harness's
# scripted external program and Config tree) were written from and that tr/translate_c16.py does NOT already
# translate or pin structurally (it translates work_in, work_in_tmp_dir, run_in_tmp_environment,
# temporary_config, check_sufficient_memory in full, pins the decorators of run_external*, the six execute
# methods incl. everything before the closure, XTB._remove_xtbopt_xyz_file and the POSIX module tail).
PINS = [
    # Model.v exec_bstmt/BExternal + harness program_term: the runner opens the output file, THEN starts the
    # program, touches no cwd/env/Config itself (utils.py:146-221)
    ("autode/utils.py", "run_external"),
    ("autode/utils.py", "run_external_monitored"),
    # MemoryCheck is an oracle step; the harness replaces this function to inject it (utils.py:84-89)
    ("autode/utils.py", "get_total_memory"),
    # observed only (level_note): fork, join(timeout), kill, return_value; worker initialiser (utils.py:540-592, 69-81)
    ("autode/utils.py", "_timeout_default"),
    ("autode/utils.py", "_copy_into_current_config"),
    # Effects.v SaveConfig/RestoreConfig and the harness Config tree assume Config.__dict__ holds EVERY option as an
    # instance attribute, nested sections being instances (config.py:399-459)
    ("autode/config.py", "_instantiate_config_opts"),
    ("autode/config.py", "_ConfigClass.__setattr__"),
    # the fake calculation of the execute-closure streams deep-copies the keywords as the real input does (input.py:12-40)
    ("autode/calculations/input.py", "CalculationInput.__init__"),
    # read (as a property) by XTB.execute before the closure; the translator only sees the attribute access
    ("autode/wrappers/XTB.py", "XTB._electronic_temp_str"),
    # a second work_in_tmp_dir + run_external user in an anchored file, exercised by the library-calls stream
    ("autode/wrappers/ORCA.py", "ORCA._get_version_no_output"),
    # the only other in-tree writer of os.environ (finding conf_gen.get_simanl_atoms|env-OMP_NUM_THREADS-not-restored)
    ("autode/conformers/conf_gen.py", "_get_coords_energy"),
    ("autode/conformers/conf_gen.py", "_get_v"),
]

SLICE = ["C16/Effects.v", "C16/Model.v", "C16/Lemmas.v", "C16/Props.v", "C16/Corr.v", "gen/C16_Gen.v"]
PRE = ("From Coq Require Import List String Bool Arith.\nFrom AV.lib Require Import QcInst.\n"
       "From AV.C16 Require Import Effects Model Corr.\nFrom AV.gen Require Import C16_Gen.\nImport ListNotations.\n"
       "Open Scope string_scope.\nOpen Scope list_scope.\n")

TRACK = ["C16_A", "C16_B", "C16_Z", "OMP_NUM_THREADS", "GFORTRAN_UNBUFFERED_ALL"]
EXC_NAMES = ["ValueError", "RuntimeError", "OSError", "KeyError", "KeyboardInterrupt", "CalculationException",
             "SystemExit", "GeneratorExit"]
BASE_EXC = (4, 6, 7)     # BaseException subclasses that are not Exception: `except Exception` does not see them
EXE_MISSING_CODE = 99


def exc_types():
    from autode.exceptions import CalculationException
    return [ValueError, RuntimeError, OSError, KeyError, KeyboardInterrupt, CalculationException, SystemExit, GeneratorExit]


# ------------------------------------------------------------------------------------ Coq literals
def cpath(comps):
    return coq_list([coq_string(c) for c in comps])


def cpaths(ps):
    return coq_list([cpath(p) for p in sorted(ps)])


def cstrs(xs):
    return coq_list([coq_string(x) for x in xs])


def ctree(t):
    """python tree -> cval.  ('leaf', s) | ('path', comps) | ('node', [(k, tree)...])"""
    if t[0] == "leaf":
        return f"(CLeaf {coq_string(t[1])})"
    if t[0] == "path":
        return f"(CPathV {cpath(t[1])})"
    return "(CNode " + coq_list([f"({coq_string(k)}, {ctree(v)})" for k, v in t[1]]) + ")"


def ccfg(pairs):
    return coq_list([f"({coq_string(k)}, {ctree(v)})" for k, v in pairs])


# ------------------------------------------------------------------------------------ Config -> tree
def canon(o, depth=0):
    if depth > 12:
        return "<deep>"
    if o is None or isinstance(o, (bool, int, str)):
        return repr(o)
    if isinstance(o, float):
        u = getattr(o, "units", None)
        return repr(float(o)) + ("@" + str(getattr(u, "name", u)) if u is not None else "")
    if isinstance(o, (list, tuple)):
        return "[" + ",".join(canon(x, depth + 1) for x in o) + "]"
    if isinstance(o, dict):
        return "{" + ",".join(f"{k!r}:{canon(v, depth + 1)}" for k, v in sorted(o.items(), key=lambda kv: repr(kv[0]))) + "}"
    if hasattr(o, "__dict__"):
        return type(o).__name__ + canon(vars(o), depth + 1)
    return repr(o)


def digest(o):
    return hashlib.sha1(canon(o).encode()).hexdigest()[:10]


# ------------------------------------------------------------------------------------ fault injection
class Proxy:
    """Stands for a module inside autode.utils: every attribute is the real one except the overrides."""

    def __init__(self, real, overrides):
        self.__dict__["_real"] = real
        self.__dict__["_ov"] = overrides

    def __getattr__(self, k):
        ov = self.__dict__["_ov"]
        return ov[k] if k in ov else getattr(self.__dict__["_real"], k)


class Injector:
    def __init__(self):
        self.arm([])

    def arm(self, plan, lowmem=False):
        self.lowmem = lowmem       # the machine never has enough memory (implementation-side scenario)
        self.plan = list(plan)
        self.idx = 0
        self.names = []
        self.log = []          # (kind, detail, faulted)

    def step(self, kind, detail=""):
        i = self.idx
        self.idx += 1
        f = i < len(self.plan) and bool(self.plan[i])
        self.log.append((kind, detail, f))
        return f


INJ = Injector()
_SAVED = {}


def install_patches():
    import autode.utils as U

    def p_mkdir(path, *a, **k):
        if INJ.step("mkdir", str(path)):
            raise OSError("inj-mkdir")
        return os.mkdir(path, *a, **k)

    def p_copy(src, dst, *a, **k):
        if INJ.step("copy", f"{src}->{dst}"):
            raise OSError("inj-copy")
        return shutil.copy(src, dst, *a, **k)

    def p_move(src, dst, *a, **k):
        if INJ.step("copy", f"{src}=>{dst}"):
            raise OSError("inj-copy")
        return shutil.move(src, dst, *a, **k)

    def p_mkdtemp(dir=None, **k):
        if INJ.step("mkdtemp", str(dir)):
            raise OSError("inj-mkdtemp")
        p = tempfile.mkdtemp(dir=dir, **k)
        INJ.names.append(os.path.basename(p))
        return p

    def p_mem():
        if INJ.step("mem") or INJ.lowmem:
            return 1
        return 2 ** 60

    for name in ("os", "shutil", "mkdtemp", "get_total_memory"):
        _SAVED[name] = getattr(U, name)
    U.os = Proxy(os, {"mkdir": p_mkdir})
    U.shutil = Proxy(shutil, {"copy": p_copy, "move": p_move})
    U.mkdtemp = p_mkdtemp
    U.get_total_memory = p_mem


def remove_patches():
    import autode.utils as U
    for name, v in _SAVED.items():
        setattr(U, name, v)


# ------------------------------------------------------------------------------------ sandbox
FAKE_EXE = ("#!/bin/sh\n"
            "echo ran >> \"$C16_MARK\"\n"
            "echo g > gradient\necho x > xtbopt.xyz\necho e > extra.xyz\necho j > junk.tmp\necho output\n")


class Sandbox:
    INPUTS = ("in.xyz", "job_mol.in")

    def __init__(self, root):
        os.makedirs(root, exist_ok=True)
        self.root = os.path.realpath(root)
        from autode.config import Config
        self.Config = Config
        self.cfg0 = copy.deepcopy(Config.__dict__)
        self.env0 = {k: v for k, v in os.environ.items() if k not in TRACK and k != "TMPDIR"}
        self.env0["PATH"] = os.path.join(self.root, "bin") + os.pathsep + self.env0.get("PATH", "")
        self.env0["C16_MARK"] = os.path.join(self.root, "ran.marker")
        self.nested_names = {k for k, v in self.cfg0.items() if type(v).__qualname__.startswith("_ConfigClass.")}
        # baseline: fast (pickle) digest -> slow (canonical text) tree, per key; the slow form is what is
        # compared and sent to Coq, the fast one only short-cuts the unchanged case
        self.base_fast = {k: self.fast(v) for k, v in self.cfg0.items()}
        self.base_tree = {k: self.slow_tree_of(k, v) for k, v in self.cfg0.items()}
        shutil.rmtree(self.root, ignore_errors=True)
        os.makedirs(self.root)

    def p(self, *comps):
        return os.path.join(self.root, *comps)

    def rel(self, path):
        path = os.path.realpath(path) if os.path.exists(path) else os.path.abspath(path)
        if path == self.root:
            return []
        if not path.startswith(self.root + os.sep):
            return ["<outside>"] + [c for c in path.split(os.sep) if c]
        return path[len(self.root) + 1:].split(os.sep)

    @staticmethod
    def fast(v):
        try:
            return hashlib.sha1(pickle.dumps(v, protocol=4)).digest()
        except Exception:  # noqa
            return None

    def layout(self, pre):
        dirs = {("w",), ("tmp",), ("ll",), ("away",), ("bin",), ("opt",)}
        files = {("w", f): "input\n" for f in pre.get("inputs", self.INPUTS)}
        wd = pre.get("workdir")
        if wd in ("empty", "full"):
            dirs.add(("w", "d1"))
        if wd == "full":
            files[("w", "d1", "keep.txt")] = "keep\n"
        for f in pre.get("stale", []):
            files[("w", f)] = "stale\n"
        if wd == "file":
            files[("w", "d1")] = "a regular file where work_in wants its directory\n"
        files[("opt", "fake_exe")] = FAKE_EXE        # like Config.<PROG>.path given explicitly: its directory is NOT on PATH
        files[("bin", "mpirun")] = "#!/bin/sh\nshift 2\nexec \"$@\"\n"
        return dirs, files

    def reset(self, pre):
        os.chdir("/")
        want_d, want_f = self.layout(pre)
        have_d, have_f = [], []
        for base, ds, fs in os.walk(self.root):
            for d in ds:
                have_d.append(tuple(self.rel(os.path.join(base, d))))
            for f in fs:
                have_f.append(tuple(self.rel(os.path.join(base, f))))
        for f in have_f:
            if f not in want_f:
                os.remove(self.p(*f))
        for d in sorted(have_d, key=len, reverse=True):
            if d not in want_d:
                shutil.rmtree(self.p(*d), ignore_errors=True)
        for d in sorted(want_d, key=len):
            if not os.path.isdir(self.p(*d)):
                os.makedirs(self.p(*d))
        have_f = set(have_f)
        for f, content in want_f.items():
            if f not in have_f:
                with open(self.p(*f), "w") as fh:
                    fh.write(content)
                if f[0] in ("bin", "opt"):
                    os.chmod(self.p(*f), 0o755)
        tempfile.tempdir = self.p("tmp")
        os.environ.clear()
        os.environ.update(self.env0)
        for k, v in pre.get("env", {}).items():
            os.environ[k] = v
        cur = self.Config.__dict__
        if set(cur) != set(self.cfg0) or any(self.fast(cur[k]) != self.base_fast[k] or self.base_fast[k] is None for k in cur):
            cur.clear()
            cur.update(copy.deepcopy(self.cfg0))
        ll = pre.get("ll")
        if ll == "exists":
            self.Config.ll_tmp_dir = self.p("ll")
        elif ll == "missing":
            self.Config.ll_tmp_dir = self.p("nonexistent")
        os.chdir(self.p("w"))

    def slow_tree_of(self, key, v):
        if key == "ll_tmp_dir" and isinstance(v, str):
            return ("path", self.rel(v))
        if key in self.nested_names and hasattr(v, "__dict__"):
            return ("node", [(k, ("leaf", digest(x))) for k, x in sorted(vars(v).items())])
        return ("leaf", digest(v))

    def cfg_tree_of(self, key, v):
        if key not in self.base_fast:
            return self.slow_tree_of(key, v)
        f = self.base_fast.get(key)
        if f is not None and self.fast(v) == f:
            return self.base_tree[key]
        return self.slow_tree_of(key, v)

    def cfg_tree(self):
        return {k: self.cfg_tree_of(k, v) for k, v in self.Config.__dict__.items()}

    def snapshot(self):
        dirs, files = [], []
        for base, ds, fs in os.walk(self.root):
            for d in ds:
                dirs.append(tuple(self.rel(os.path.join(base, d))))
            for f in fs:
                if base == self.root and f == "ran.marker":
                    continue          # the fake executable's own trace, outside the modelled state
                files.append(tuple(self.rel(os.path.join(base, f))))
        try:
            cwd = self.rel(os.getcwd())
        except OSError:
            cwd = ["<deleted>"]
        content = {}
        for f in files:
            if f[0] == "w":
                try:
                    with open(self.p(*f), "rb") as fh:     # binary: files need not be text
                        content[f] = fh.read(64).decode("latin-1")
                except OSError:
                    pass
        return {"cwd": cwd, "env": dict(os.environ), "dirs": sorted(dirs), "files": sorted(files),
                "cfg": self.cfg_tree(), "content": content}

    def cleanup(self):
        os.chdir("/")
        os.environ.clear()
        os.environ.update({k: v for k, v in self.env0.items() if k != "C16_MARK"})
        self.Config.__dict__.clear()
        self.Config.__dict__.update(copy.deepcopy(self.cfg0))
        tempfile.tempdir = None
        shutil.rmtree(self.root, ignore_errors=True)


# ------------------------------------------------------------------------------------ wrapped function
class Script:
    """The wrapped function: a list of actions executed in order.
    ('chdir', comps) ('mkfile', n) ('mkdir', n) ('setenv', k, v) ('delenv', k) ('setcfg', kind) ('raise', i)"""

    def __init__(self, sb, acts):
        self.sb = sb
        self.acts = acts
        self.reached = False
        self.cfgrec = {}

    def __call__(self):
        self.reached = True
        Config = self.sb.Config
        for i, a in enumerate(self.acts):
            if a[0] == "chdir":
                os.chdir(self.sb.p(*a[1]))
            elif a[0] == "mkfile":
                with open(a[1], "w") as fh:
                    fh.write("made\n")
            elif a[0] == "mkempty":            # a zero-byte file (e.g. an output the program only touched)
                open(a[1], "w").close()
            elif a[0] == "mkdir":
                os.mkdir(a[1])
            elif a[0] == "setenv":
                os.environ[a[1]] = a[2]
            elif a[0] == "delenv":
                os.environ.pop(a[1], None)
            elif a[0] == "setcfg":
                if a[1] == "n_cores":
                    Config.n_cores = 9
                    key = "n_cores"
                elif a[1] == "nested":
                    Config.XTB.gfn_version = 1
                    key = "XTB"
                elif a[1] == "inplace":
                    Config.ORCA.copied_output_exts.append(".zz")
                    key = "ORCA"
                elif a[1] == "keywords":       # the docstring's own use case: an edit deep inside a KeywordsSet
                    from autode.wrappers.keywords.functionals import pbe
                    Config.ORCA.keywords.sp.functional = pbe
                    key = "ORCA"
                elif a[1] in ("steps_min", "steps_max", "max_core", "cores"):
                    # interdependent options, changed in an order that is valid at every moment
                    key, val = {"steps_min": ("min_step_size", 0.01), "steps_max": ("max_step_size", 0.02),
                                "max_core": ("max_core", 1000), "cores": ("n_cores", 2)}[a[1]]
                    setattr(Config, key, val)
                elif a[1] == "addkey":         # a key that did not exist (only possible through __dict__)
                    Config.__dict__["c16_added"] = 1
                    key = "c16_added"
                else:
                    raise AssertionError(a)
                self.cfgrec[i] = (key, self.sb.cfg_tree_of(key, Config.__dict__[key]))
            elif a[0] == "raise":
                raise exc_types()[a[1]](f"callee:{a[1]}")
        return "result"

    def coq(self):
        out = []
        for i, a in enumerate(self.acts):
            if a[0] == "chdir":
                out.append(f"AChdir {cpath(a[1])}")
            elif a[0] in ("mkfile", "mkempty"):
                out.append(f"AMkfile {coq_string(a[1])}")
            elif a[0] == "mkdir":
                out.append(f"AMkdirRel {coq_string(a[1])}")
            elif a[0] == "setenv":
                out.append(f"ASetenv {coq_string(a[1])} {coq_string(a[2])}")
            elif a[0] == "delenv":
                out.append(f"ADelenv {coq_string(a[1])}")
            elif a[0] == "setcfg":
                key, tree = self.cfgrec.get(i, ({"n_cores": "n_cores", "nested": "XTB", "inplace": "ORCA", "keywords": "ORCA", "addkey": "c16_added",
                              "steps_min": "min_step_size", "steps_max": "max_step_size", "max_core": "max_core", "cores": "n_cores"}[a[1]], ("leaf", "")))
                out.append(f"ASetcfg {coq_string(key)} {ctree(tree)}")
            elif a[0] == "raise":
                out.append(f"ARaise {a[1]}")
        return "(run_script " + coq_list(out) + ")"


def decorate(spec, f):
    import autode.utils as U
    k = spec[0]
    if k == "work_in":
        return U.work_in(spec[1])(f)
    if k == "tmp":
        fns = [None if x == "<None>" else pathlib.Path(x[6:]) if isinstance(x, str) and x.startswith("<Path>") else x for x in spec[1]]
        return U.work_in_tmp_dir(filenames_to_copy=fns, kept_file_exts=list(spec[2]), use_ll_tmp=spec[3])(f)
    if k == "env":
        return U.run_in_tmp_environment(**dict(spec[1]))(f)
    if k == "cfg":
        def with_cfg():
            with U.temporary_config():
                return f()
        return with_cfg
    if k == "mem":
        return U.check_sufficient_memory(f)
    raise AssertionError(spec)


def build(stack, callee):
    """stack: outermost first; ('rec', spec, depth) = one decorated function calling itself."""
    f = callee
    for spec in reversed(stack):
        if spec[0] == "rec":
            f = make_rec(spec[1], spec[2], f)
        else:
            f = decorate(spec, f)
    return f


def make_rec(spec, depth, inner):
    left = {"n": depth}
    holder = {}

    def body():
        if left["n"] > 1:
            left["n"] -= 1
            return holder["dec"]()
        return inner()
    holder["dec"] = decorate(spec, body)
    return holder["dec"]


def flat(stack):
    out = []
    for spec in stack:
        if spec[0] == "rec":
            out += [spec[1]] * spec[2]
        else:
            out.append(spec)
    return out


def coq_wrapper(spec):
    k = spec[0]
    if k == "work_in":
        return f"WWorkIn {coq_string(spec[1])}"
    if k == "tmp":
        return f"WTmpDir {cstrs(spec[1])} {cstrs(spec[2])} {coq_bool(spec[3])}"
    if k == "env":
        return "WEnv " + coq_list([f"({coq_string(a)}, {coq_string(str(b))})" for a, b in spec[1]])
    if k == "cfg":
        return "WConfig"
    return "WMem"


def classify(e, exe=None):
    """-> (coq outcome term, text)"""
    msg = str(e.args[0]) if e.args else ""
    txt = f"{type(e).__name__}: {str(e)[:120]}"
    if msg.startswith("callee:"):
        return f"(Raise (ECallee {int(msg.split(':')[1])}))", txt
    if msg == "inj-mkdir":
        return "(Raise (EFault FMkdir))", txt
    if msg == "inj-mkdtemp":
        return "(Raise (EFault FMkdtemp))", txt
    if msg == "inj-copy":
        return "(Raise (EFault FCopy))", txt
    if isinstance(e, RuntimeError) and "insufficient memory" in msg:
        return "(Raise (EFault FMem))", txt
    if isinstance(e, FileNotFoundError):
        if exe is not None and getattr(e, "filename", None) == exe:
            return f"(Raise (ECallee {EXE_MISSING_CODE}))", txt
        return "(Raise ENoSource)", txt
    if isinstance(e, FileExistsError):
        return "(Raise EExists)", txt
    if isinstance(e, IsADirectoryError):
        return "(Raise EIsDir)", txt
    if isinstance(e, AssertionError):
        return "(Raise EAssert)", txt
    if isinstance(e, KeyError):
        return "(Raise EKey)", txt
    return None, txt


# ------------------------------------------------------------------------------------ one case
def state_term(sb, snap, pre, names, plan):
    env = [(k, snap["env"][k]) for k in TRACK if k in snap["env"]]
    cfg = "cfg0"
    if pre.get("ll") == "exists":
        cfg = f"(cfg_with cfg0 [(\"ll_tmp_dir\", CPathV {cpath(['ll'])})])"
    elif pre.get("ll") == "missing":
        cfg = f"(cfg_with cfg0 [(\"ll_tmp_dir\", CPathV {cpath(['nonexistent'])})])"
    return ("(mkState " + cpath(snap["cwd"]) + " " +
            coq_list([f"({coq_string(k)}, {coq_string(v)})" for k, v in env]) + " " +
            cpaths([list(p) for p in snap["dirs"]]) + " " + cpaths([list(p) for p in snap["files"]]) + " " +
            cfg + " " + cpath(["tmp"]) + " " + cstrs(names) + " " +
            coq_list([coq_bool(b) for b in plan]) + ")")


def expect_terms(sb, snap, base_tree):
    env = coq_list([f"({coq_string(k)}, " + (f"Some {coq_string(snap['env'][k])}" if k in snap["env"] else "None") + ")"
                    for k in TRACK])
    diff = [(k, v) for k, v in sorted(snap["cfg"].items()) if base_tree.get(k) != v]
    cfg = f"(cfg_with cfg0 {ccfg(diff)})" if diff else "cfg0"
    return (cpath(snap["cwd"]), env, cpaths([list(p) for p in snap["dirs"]]),
            cpaths([list(p) for p in snap["files"]]), cfg)


def run_case(sb, case):
    """case: dict(stack, pre, acts, plan[, late_env]).  -> result dict"""
    sb.reset(case["pre"])
    INJ.arm([])
    script = Script(sb, case["acts"])
    fn = build(case["stack"], script)          # decoration time
    for k, v in case.get("late_env", {}).items():   # the environment changes between decoration and call
        if v is None:
            os.environ.pop(k, None)
        else:
            os.environ[k] = v
    before = sb.snapshot()
    INJ.arm(case["plan"])
    try:
        fn()
        out, txt = "Ok", "returned"
    except BaseException as e:  # noqa: the wrapped function raises KeyboardInterrupt on purpose
        out, txt = classify(e)
    after = sb.snapshot()
    res = {"out": out, "txt": txt, "before": before, "after": after, "names": list(INJ.names),
           "steps": INJ.idx, "log": list(INJ.log), "reached": script.reached, "script": script}
    INJ.arm([])
    return res


def case_term(sb, case, res, base_tree):
    ws = coq_list(["(" + coq_wrapper(s) + ")" for s in flat(case["stack"])])
    st = state_term(sb, res["before"], case["pre"], res["names"], case["plan"])
    cwd, env, dirs, files, cfg = expect_terms(sb, res["after"], base_tree)
    run = f"(run_stack {ws} {res['script'].coq()} {st})"
    if copyback_fault(sb, res):
        return f"check_case_nofiles {run} {res['out']} {cwd} {env} {dirs} {cfg}"
    return f"check_case {run} {res['out']} {cwd} {env} {dirs} {files} {cfg}"


def copyback_fault(sb, res):
    """an injected fault hit a copy whose destination is outside the scratch directories (= a copy-back):
    which kept files were copied before it depends on os.listdir order, so files are not compared"""
    return any(f and kind == "copy" and "->" in det and not sb_is_scratch(sb, det.split("->")[1])
               for kind, det, f in res["log"])


def sb_is_scratch(sb, dst):
    r = sb.rel(dst)
    return len(r) >= 1 and r[0] in ("tmp", "ll")


# ------------------------------------------------------------------------------------ property oracles
def tree_under(snap, top):
    return sorted([p for p in snap["dirs"] if p[:1] == (top,)] + [p for p in snap["files"] if p[:1] == (top,)])


def property_failures(sb, case, res):
    """The property itself, evaluated on what the real wrappers did.  -> list of (key, what)."""
    out = []
    fl = flat(case["stack"])
    kinds = [s[0] for s in fl]
    b, a = res["before"], res["after"]
    acts = case["acts"]
    touched_env = {x[1] for x in acts if x[0] in ("setenv", "delenv")}
    owner = kinds[0] if len(set(kinds)) == 1 else "nested"
    name = {"work_in": "work_in", "tmp": "work_in_tmp_dir", "env": "run_in_tmp_environment",
            "cfg": "temporary_config", "mem": "check_sufficient_memory", "nested": "nested"}[owner]
    # 1. working directory
    if ("work_in" in kinds or "tmp" in kinds or not any(x[0] == "chdir" for x in acts)) and a["cwd"] != b["cwd"]:
        out.append((f"{name}|cwd-not-restored", f"cwd before {'/'.join(b['cwd'])}, after {'/'.join(a['cwd'])} ({res['txt']})"))
    # 2. environment: variables named by a run_in_tmp_environment layer, and everything the wrapped function left alone
    managed = {k for s in fl if s[0] == "env" for k, _ in s[1]}
    for k in sorted(set(b["env"]) | set(a["env"])):
        if (k in managed or k not in touched_env) and b["env"].get(k) != a["env"].get(k):
            out.append((f"{name}|env-not-restored", f"variable {k}: {b['env'].get(k)!r} at call time, {a['env'].get(k)!r} after ({res['txt']})"))
            break
    # 3. configuration
    has_cfg_edit = any(x[0] == "setcfg" for x in acts)
    if "cfg" in kinds or not has_cfg_edit:
        bad = [k for k in b["cfg"] if a["cfg"].get(k) != b["cfg"][k]]
        if bad:
            out.append((f"{name}|config-not-restored", f"Config keys {bad[:4]} differ after the call ({res['txt']})"))
    # 4. scratch directories
    for top in ("tmp", "ll"):
        if tree_under(a, top) != tree_under(b, top):
            left = [p for p in tree_under(a, top) if p not in tree_under(b, top)]
            out.append((f"{name}|scratch-dir-left", f"left behind under {top}/: {['/'.join(p) for p in left][:4]} ({res['txt']})"))
            break
    # 5. work_in removes only an empty directory, and removes an empty one it made
    if kinds == ["work_in"] and not any(x[0] == "chdir" for x in acts):
        d = tuple(b["cwd"]) + (fl[0][1],)
        existed = d in b["dirs"]
        made = [x for x in acts if x[0] in ("mkfile", "mkempty", "mkdir")] if res["reached"] else []
        raised_at = next((i for i, x in enumerate(acts) if x[0] == "raise"), len(acts))
        made = [x for i, x in enumerate(acts) if x[0] in ("mkfile", "mkempty", "mkdir") and i < raised_at] if res["reached"] else []
        nonempty = bool(made) or (existed and case["pre"].get("workdir") == "full")
        if nonempty and d not in a["dirs"]:
            out.append(("work_in|nonempty-dir-removed", f"{'/'.join(d)} had entries but is gone ({res['txt']})"))
        if existed and case["pre"].get("workdir") == "full" and d + ("keep.txt",) not in a["files"]:
            out.append(("work_in|nonempty-dir-removed", f"pre-existing file in {'/'.join(d)} is gone"))
        if not nonempty and not existed and d in a["dirs"]:
            out.append(("work_in|empty-dir-left", f"{'/'.join(d)} was created, is empty and was left behind ({res['txt']})"))
    # 6. kept files copied back on success; a fault-free run of a succeeding wrapped function succeeds
    cwdk = [s for s in fl if s[0] in ("work_in", "tmp")]
    no_fault = not any(f for _, _, f in res["log"])
    script_ok = not any(x[0] == "raise" for x in acts)
    if len(cwdk) == 1 and cwdk[0][0] == "tmp" and script_ok and res["reached"]:
        kept = cwdk[0][2]
        first_chdir = next((i for i, x in enumerate(acts) if x[0] == "chdir"), len(acts))
        made = [(x[1], "made\n" if x[0] == "mkfile" else "") for i, x in enumerate(acts)
                if x[0] in ("mkfile", "mkempty") and i < first_chdir and any(x[1].endswith(e) for e in kept)]
        made_kept = [n for n, _ in made]
        here = tuple(b["cwd"])
        if res["out"] == "Ok":
            for n, content in dict(made).items():
                if here + (n,) not in a["files"]:
                    out.append(("work_in_tmp_dir|kept-files-not-copied", f"{n} ({len(content)} bytes) was left in the scratch dir but is not in {'/'.join(here)}"))
                else:
                    got = a["content"].get(here + (n,))
                    if got != content:
                        out.append(("work_in_tmp_dir|kept-files-not-copied",
                                    f"{n} in {'/'.join(here)} holds {got!r}, the wrapped function left {content!r} in the scratch dir (a stale file was not overwritten)"))
        elif res["out"] == "(Raise EIsDir)" and no_fault:
            out.append(("work_in_tmp_dir|raises-on-kept-ext-directory-in-scratch",
                        f"the wrapped function succeeded and left a DIRECTORY with a kept extension in the scratch dir: the call raised {res['txt']}"
                        + (f"; kept files {[n for n in made_kept if here + (n,) not in a['files']]} lost" if any(here + (n,) not in a["files"] for n in made_kept) else "")))
        elif no_fault and made_kept and first_chdir < len(acts):
            out.append(("work_in_tmp_dir|kept-files-lost-when-callee-changes-cwd",
                        f"the wrapped function succeeded (left {made_kept} in the scratch dir, then chdir) but the call raised "
                        f"{res['txt']} and the files are lost"))
    # 7. memory check precedes execution
    if any(kind == "mem" and f for kind, _, f in res["log"]):
        # the faulted mem step guards everything inside it; with a single mem layer innermost-or-not the
        # script must not have run
        if res["reached"] and kinds.count("mem") == 1 and not any(f for kind, _, f in res["log"] if kind != "mem"):
            out.append(("check_sufficient_memory|ran-despite-insufficient-memory", "the wrapped function was executed although the memory check failed"))
    return out


def outside_model(case):
    """inputs the model cannot represent (non-str file names) are judged by the property oracles only"""
    if case["pre"].get("oracle_only"):
        return True
    return False


OWN_ACTS = {"env": {"setenv", "delenv"}, "cfg": {"setcfg"}, "mem": set(),
            "work_in": {"mkfile", "mkempty", "mkdir", "chdir"}, "tmp": {"mkfile", "mkempty", "mkdir", "chdir"}}


def relevant(stack, acts, quick):
    """quick tier: a single wrapper is run against the scripts that touch what it manages (plus raising and
    three fixed cross-kind scripts); the thorough tier runs the full product"""
    if not quick:
        return True
    own = set().union(*(OWN_ACTS[s[0]] for s in flat(stack)))
    tags = {a[0] for a in acts} - {"raise"}
    cross = ([("setenv", "C16_A", "callee"), ("setenv", "C16_Z", "z")], [("setcfg", "nested")],
             [("mkfile", "res.out"), ("mkfile", "junk.tmp")], [("chdir", ["away"]), ("raise", 0)])
    return tags <= own or acts in [list(c) for c in cross]


# ------------------------------------------------------------------------------------ generators
def scripts(full):
    away = ("chdir", ["away"])
    S = [[], [("mkfile", "res.out"), ("mkfile", "junk.tmp")], [away], [("mkfile", "res.out"), away],
         [("setenv", "C16_A", "callee"), ("setenv", "C16_Z", "z")], [("delenv", "C16_A")],
         [("setcfg", "n_cores")], [("setcfg", "nested")], [("setcfg", "inplace")],
         [("mkdir", "sub"), ("mkfile", "x.xyz")],
         [("mkfile", "mol_opt.xyz"), ("mkfile", "calc.tar.gz"), ("mkfile", "calc.out"), ("mkfile", "gradient"), ("mkfile", "plain.xyz")],
         [("mkfile", "a.out"), ("mkdir", "m.out")],
         [("setcfg", "keywords")], [("setcfg", "addkey")],
         [("setcfg", "steps_min"), ("setcfg", "steps_max")], [("setcfg", "cores"), ("setcfg", "max_core"), ("setcfg", "steps_min")],
         [("mkempty", "res.out"), ("mkfile", "full.xyz")], [("mkempty", "res.out"), ("mkempty", "empty.xyz"), ("chdir", ["away"])]]
    R = []
    for i in range(len(EXC_NAMES)):
        R.append([("raise", i)])
    R += [[away, ("raise", 0)], [("mkfile", "res.out"), ("raise", 1)], [("setenv", "C16_A", "callee"), ("raise", 2)],
          [("delenv", "C16_A"), ("raise", 3)], [("setcfg", "nested"), ("setcfg", "n_cores"), ("raise", 5)],
          [("setcfg", "inplace"), away, ("mkfile", "elsewhere.out"), ("raise", 4)],
          [("setcfg", "keywords"), ("setcfg", "addkey"), ("raise", 1)],
          [("setcfg", "steps_min"), ("setcfg", "steps_max"), ("raise", 4)]]
    for i in BASE_EXC:      # every wrapper must restore what it manages when a BaseException passes through
        R += [[("setcfg", "nested"), ("raise", i)], [("setenv", "C16_A", "callee"), ("delenv", "C16_B"), ("raise", i)],
              [("mkfile", "res.out"), away, ("raise", i)]]
    if full:
        R += [[("mkdir", "sub"), away, ("setenv", "C16_B", "b"), ("raise", 0)],
              [("mkfile", "a.xyz"), ("mkfile", "b.out"), ("raise", 2)]]
        S += [[("mkfile", "a.xyz"), ("mkfile", "b.out")], [("setenv", "C16_B", "b"), ("delenv", "C16_B")]]
    return S + R


def single_variants():
    """(stack, pre, late_env) for every wrapper on its own."""
    V = []
    for wd in (None, "empty", "full", "file"):
        V.append(([("work_in", "d1")], {"workdir": wd}, {}))
    kept = [".out", ".xyz"]
    V.append(([("tmp", [], kept, False)], {}, {}))
    V.append(([("tmp", ["in.xyz"], kept, False)], {}, {}))
    V.append(([("tmp", ["in.xyz", "job_mol.in"], [], False)], {}, {}))
    # file names that are not str (pathlib.Path / None): judged by the property oracles only (outside the model)
    V.append(([("tmp", ["<Path>in.xyz"], kept, False)], {"oracle_only": True}, {}))
    V.append(([("tmp", ["in.xyz", "<None>"], kept, False)], {"oracle_only": True}, {}))
    V.append(([("tmp", [], kept, False)], {"stale": ["res.out", "empty.xyz"]}, {}))      # kept files overwrite stale ones
    # kept "extensions" that are not a single final .ext component: suffix, multi-dot, no dot, whole file name
    V.append(([("tmp", [], ["_opt.xyz", ".tar.gz", "out", "gradient"], False)], {}, {}))
    V.append(([("tmp", ["in.xyz", "missing.inp"], kept, False)], {}, {}))
    V.append(([("tmp", ["in.xyz"], kept, True)], {"ll": None}, {}))
    V.append(([("tmp", ["in.xyz"], kept, True)], {"ll": "exists"}, {}))
    V.append(([("tmp", [], kept, True)], {"ll": "missing"}, {}))
    V.append(([("env", [("C16_A", "1")])], {}, {}))
    V.append(([("env", [("C16_A", "1")])], {"env": {"C16_A": "orig"}}, {}))
    V.append(([("env", [("C16_A", "1"), ("C16_B", 2)])], {"env": {"C16_B": "origB"}}, {}))
    V.append(([("env", [("C16_A", "1")])], {"env": {"C16_A": "orig"}}, {"C16_A": "later"}))
    V.append(([("env", [("C16_A", "1")])], {"env": {"C16_A": "orig"}}, {"C16_A": None}))
    V.append(([("env", [("C16_A", "1")])], {}, {"C16_A": "later"}))
    for val in ("", "0", " "):      # set-but-empty (export X=) and other falsy-looking values are states of their own
        V.append(([("env", [("C16_A", "1")])], {"env": {"C16_A": val}}, {}))
    V.append(([("env", [("C16_A", "1"), ("C16_B", "x")])], {"env": {"C16_A": "", "C16_B": "0"}}, {}))
    V.append(([("env", [("C16_A", "")])], {"env": {"C16_A": "7"}}, {}))
    V.append(([("env", [("C16_A", "1")])], {"env": {"C16_A": "orig"}}, {"C16_A": ""}))
    V.append(([("cfg",)], {}, {}))
    V.append(([("mem",)], {}, {}))
    return V


def random_stack(rng, full):
    pool = [("work_in", "d1"), ("work_in", "d2"), ("tmp", [], [".out"], False), ("tmp", [], [".out", ".xyz"], True),
            ("env", [("C16_A", "1")]), ("env", [("C16_A", "2"), ("C16_B", "3")]), ("env", [("C16_A", "")]), ("cfg",), ("mem",)]
    depth = rng.choice([2, 3])
    if rng.random() < 0.3:
        return [("rec", rng.choice(pool), depth)]
    st = [rng.choice(pool) for _ in range(depth)]
    if rng.random() < 0.4:      # an input file for the outermost scratch wrapper only
        for i, s in enumerate(st):
            if s[0] == "tmp" and not any(x[0] in ("work_in", "tmp") for x in st[:i]):
                st[i] = ("tmp", ["in.xyz"], s[2], s[3])
                break
    return st


def plans_for(k, full, rng):
    P = []
    for i in range(k):
        P.append([j == i for j in range(i + 1)])
    if full:
        for i, j in itertools.combinations(range(k), 2):
            pl = [False] * (j + 1)
            pl[i] = pl[j] = True
            P.append(pl)
    return P


# ------------------------------------------------------------------------------------ execute closures
PROGS = [("XTB", "job.xyz"), ("ORCA", "job.inp"), ("G09", "job.com"), ("NWChem", "job.nw"),
         ("MOPAC", "job.mop"), ("QChem", "job.in")]
KWS_QUICK = ("sp", "grad", "opt", "hess")
KWS_FULL = ("sp", "grad", "opt", "hess", "low_opt", "opt_ts", "low_sp")
EMPTY_ENV = {"OMP_NUM_THREADS": "", "GFORTRAN_UNBUFFERED_ALL": ""}
OUTNAME = {"XTB": "job.out", "ORCA": "job.out", "G09": "job.log", "NWChem": "job.out", "MOPAC": "job.out", "QChem": "job.out"}


def make_method(name):
    import importlib
    mod = importlib.import_module(f"autode.wrappers.{name}")
    return getattr(mod, name)()


def run_program_case(sb, methods, case):
    """case: dict(prog, inp, fns, pre, exe ('ok'|'missing'), plan)"""
    sb.reset(case["pre"])
    exe = sb.p("opt", "fake_exe") if case["exe"] == "ok" else sb.p("opt", "no_such_exe")
    m = methods[case["prog"]]
    m.path = exe
    rich = case.get("shape") == "rich"     # the branches of execute a plain calculation does not take
    if case["prog"] == "XTB":
        m.electronic_temp, m.gfn_version = (300.0, 1) if rich else (None, None)
    calc = types.SimpleNamespace(
        input=types.SimpleNamespace(filenames=list(case["fns"]), filename=case["inp"],
                                    additional_filenames=(["job.xc"] if rich else []),
                                    keywords=copy.deepcopy(getattr(m.keywords, case.get("kw", "sp")))),   # Calculation copies them too
        output=types.SimpleNamespace(filename=OUTNAME[case["prog"]]), n_cores=3, method=types.SimpleNamespace(path=exe), name="job",
        molecule=types.SimpleNamespace(charge=(-1 if rich else 0), mult=(2 if rich else 1),
                                       solvent=(types.SimpleNamespace(xtb="water") if rich else None)))
    before = sb.snapshot()
    kept_cfg = list(sb.Config.ORCA.copied_output_exts)
    INJ.arm(case["plan"], lowmem=bool(case.get("lowmem")))
    try:
        m.execute(calc)
        out, txt = "Ok", "returned"
    except BaseException as e:  # noqa
        out, txt = classify(e, exe=exe)
    after = sb.snapshot()
    res = {"out": out, "txt": txt, "before": before, "after": after, "names": list(INJ.names), "steps": INJ.idx,
           "log": list(INJ.log), "kept_cfg": kept_cfg, "ran": os.path.exists(sb.p("ran.marker"))}
    INJ.arm([])
    return res


def program_term(sb, case, res, base_tree):
    st = state_term(sb, res["before"], case["pre"], res["names"], case["plan"])
    cwd, env, dirs, files, cfg = expect_terms(sb, res["after"], base_tree)
    outn = coq_string(OUTNAME[case["prog"]])
    if case["exe"] == "ok":
        acts = f"[AMkfile {outn}; AMkfile \"gradient\"; AMkfile \"xtbopt.xyz\"; AMkfile \"extra.xyz\"; AMkfile \"junk.tmp\"]"
    else:
        acts = f"[AMkfile {outn}; ARaise {EXE_MISSING_CODE}]"
    rt = (f"(rt_of {cstrs(case['fns'])} {cstrs(res['kept_cfg'])} "
          "[(\"OMP_NUM_THREADS\", \"3\"); (\"GFORTRAN_UNBUFFERED_ALL\", \"1\")] \"job\")")
    run = f"(run_program {rt} (run_script {acts}) (prog {coq_string(case['prog'])}) {st})"
    if copyback_fault(sb, res):
        return f"check_case_nofiles {run} {res['out']} {cwd} {env} {dirs} {cfg}"
    return f"check_case {run} {res['out']} {cwd} {env} {dirs} {files} {cfg}"


def cfg_diff_text(b, a):
    parts = []
    for k in sorted(set(a) | set(b)):
        if a.get(k) == b.get(k):
            continue
        if k in a and k in b and a[k][0] == "node" and b[k][0] == "node":
            da, db = dict(a[k][1]), dict(b[k][1])
            parts.append(f"Config.{k}: attributes {[x for x in sorted(set(da) | set(db)) if da.get(x) != db.get(x)]} changed (deep comparison)")
        else:
            parts.append(f"Config.{k} changed")
    return "; ".join(parts[:4])


def program_failures(sb, case, res):
    out = []
    b, a = res["before"], res["after"]
    pn = case["prog"]
    if a["cwd"] != b["cwd"]:
        out.append((f"{pn}.execute|cwd-not-restored", f"cwd {'/'.join(b['cwd'])} -> {'/'.join(a['cwd'])} ({res['txt']})"))
    for k in sorted(set(b["env"]) | set(a["env"])):
        if b["env"].get(k) != a["env"].get(k):
            out.append((f"{pn}.execute|env-not-restored", f"variable {k}: {b['env'].get(k)!r} before, {a['env'].get(k)!r} after execute ({res['txt']})"))
            break
    if a["cfg"] != b["cfg"]:
        out.append((f"{pn}.execute|config-not-restored", f"Config differs after execute ({res['txt']}): " + cfg_diff_text(b["cfg"], a["cfg"])))
    for top in ("tmp", "ll"):
        if tree_under(a, top) != tree_under(b, top):
            out.append((f"{pn}.execute|scratch-dir-left", f"entries left under {top}/ ({res['txt']})"))
            break
    if res["out"] == "Ok" and case["exe"] == "ok" and ("w", OUTNAME[pn]) not in a["files"]:
        out.append((f"{pn}.execute|kept-files-not-copied", f"{OUTNAME[pn]} is not in the calling directory after a successful run"))
    if (case.get("lowmem") or any(kind == "mem" and f for kind, _, f in res["log"])) and res["ran"]:
        out.append((f"{pn}.execute|ran-despite-insufficient-memory", "the external program was started although the memory check failed"))
    return out


# ------------------------------------------------------------------------------------ timeout / worker processes
def _read_cfg():
    from autode.config import Config
    return (Config.n_cores, Config.XTB.gfn_version, os.getcwd())


def _children_of(pid):
    try:
        with open(f"/proc/{pid}/task/{pid}/children") as fh:
            return [int(x) for x in fh.read().split()]
    except OSError:
        rc, out = sh(["pgrep", "-P", str(pid)], timeout=10)
        return [int(x) for x in out.split() if x.isdigit()]


def _timed_raiser(conn, exc_index):
    """runs in a forked helper: a function that raises, under autode.utils.timeout"""
    import autode.utils as U
    sys.stderr = open(os.devnull, "w")      # the timed child prints its traceback

    def raiser():
        raise exc_types()[exc_index](f"callee:{exc_index}")
    try:
        r = U.timeout(seconds=60, return_value="TO")(raiser)()
        conn.send(("returned", repr(r)))
    except BaseException as e:  # noqa
        conn.send(("raised", type(e).__name__))


def timed_call_that_raises(exc_index):
    """-> ('returned'|'raised'|'hung', detail).  'hung' = the timed child is gone but the call neither returned nor
    raised (decided from the process tree, not from a wall-clock bound: the property does not bound time)."""
    a, b = multiprocessing.Pipe()
    h = multiprocessing.Process(target=_timed_raiser, args=(b, exc_index))
    h.start()
    t0, childless_since, seen_child = time.time(), None, False
    try:
        while True:
            if a.poll(0.1):
                return a.recv()
            if not h.is_alive():
                return ("returned", "helper exited") if not a.poll(0.5) else a.recv()
            kids = _children_of(h.pid)
            seen_child = seen_child or bool(kids)
            if kids or (not seen_child and time.time() - t0 < 20):
                childless_since = None
            else:
                childless_since = childless_since or time.time()
                if time.time() - childless_since > 2.0:
                    return ("hung", "the child process has exited, the parent is still blocked (q.get() on an empty queue)")
            if time.time() - t0 > 300:
                return ("hung", "no result after 300 s")
    finally:
        if h.is_alive():
            h.kill()
        h.join()


def state_failures(label, b, a, what=""):
    out = []
    if a["cwd"] != b["cwd"]:
        out.append((f"{label}|cwd-not-restored", f"cwd {'/'.join(b['cwd'])} -> {'/'.join(a['cwd'])} {what}"))
    for k in sorted(set(b["env"]) | set(a["env"])):
        if b["env"].get(k) != a["env"].get(k):
            out.append((f"{label}|env-{k}-not-restored", f"variable {k}: {b['env'].get(k)!r} before, {a['env'].get(k)!r} after {what}"))
            break
    if a["cfg"] != b["cfg"]:
        out.append((f"{label}|config-not-restored", "Config differs after the call: " + cfg_diff_text(b["cfg"], a["cfg"]) + " " + what))
    for top in ("tmp", "ll"):
        if tree_under(a, top) != tree_under(b, top):
            out.append((f"{label}|scratch-dir-left", f"entries left under {top}/ {what}"))
            break
    return out


def observe_library_calls(ctx, sb, full):
    """State-changing library calls outside the six execute closures (implementation side only): a full
    Calculation.run() per program (input generation, execute, output handling: every sibling method of the wrapper
    classes), ORCA._get_version_no_output, and the built-in conformer generator."""
    import autode as ade
    from autode.calculations import Calculation
    fails = []
    exe = sb.p("opt", "fake_exe")
    for pn, _ in PROGS:
        for kw in (KWS_QUICK if full else ("sp", "grad")):
            sb.reset({"env": {"OMP_NUM_THREADS": "4"}})
            getattr(sb.Config, pn).path = exe
            sb.Config.n_cores = 1
            try:
                method = make_method(pn)
                mol = ade.Molecule(name="h2", atoms=[ade.Atom("H"), ade.Atom("H", x=0.75)])
                calc = Calculation(name=f"h2_{kw}", molecule=mol, method=method, keywords=getattr(method.keywords, kw), n_cores=1)
            except Exception as e:  # noqa: calculation type not implemented by the method
                ctx.hist("library-calls", f"{pn}|{kw}|not-constructed:{type(e).__name__}")
                continue
            before = sb.snapshot()
            try:
                calc.run()
                txt = "returned"
            except Exception as e:  # noqa: nothing to parse in the fake output
                txt = f"{type(e).__name__}"
            after = sb.snapshot()
            ctx.count("library-calls", ("Calculation.run", pn, kw), True, sample={"call": f"Calculation(method={pn}, keywords={kw}).run()", "outcome": txt})
            ctx.hist("library-calls", f"{pn}|{kw}|{txt}")
            fails += state_failures(f"{pn}.Calculation.run", before, after, f"(keywords {kw}; {txt})")
    # ORCA._get_version_no_output: @work_in_tmp_dir(filenames_to_copy=[], kept_file_exts=[]) around run_external
    sb.reset({})
    m = make_method("ORCA")
    for path in (exe, sb.p("opt", "no_such_exe")):
        m.path = path
        before = sb.snapshot()
        try:
            r = m._get_version_no_output()
            txt = f"returned {r!r}"
        except Exception as e:  # noqa
            txt = type(e).__name__
        after = sb.snapshot()
        ctx.count("library-calls", ("ORCA._get_version_no_output", os.path.basename(path)), True, sample={"call": "ORCA._get_version_no_output()", "outcome": txt})
        fails += state_failures("ORCA._get_version_no_output", before, after, f"({txt})")
    # the built-in (non-RDKit) structure builder
    from autode.conformers.conf_gen import get_simanl_atoms
    for val in ("4", None):
        sb.reset({"env": ({"OMP_NUM_THREADS": val} if val is not None else {})})
        mol = ade.Molecule(smiles="CO")
        before = sb.snapshot()
        try:
            get_simanl_atoms(mol, save_xyz=False)
            txt = "returned"
        except Exception as e:  # noqa
            txt = type(e).__name__
        after = sb.snapshot()
        ctx.count("library-calls", ("get_simanl_atoms", val), True, sample={"call": "conf_gen.get_simanl_atoms(Molecule(smiles='CO'))", "outcome": txt})
        fails += state_failures("conf_gen.get_simanl_atoms", before, after, f"({txt})")
    return fails


def observe_runtime(ctx, sb, full=False):
    """timeout (fork + kill) and ProcessPool config inheritance: implementation-side observation only."""
    import autode.utils as U
    fails = []
    sb.reset({})
    before = sb.snapshot()
    away = sb.p("away")

    def child_changes():
        os.chdir(away)
        os.environ["C16_Z"] = "child"
        sb.Config.n_cores = 11
        return "fine"

    def child_sleeps():
        os.chdir(away)
        time.sleep(30)
        return "late"
    t0 = time.time()
    r1 = U.timeout(seconds=300, return_value="TO")(child_changes)()     # the property does not bound time
    r2 = U.timeout(seconds=0.4, return_value="TO")(child_sleeps)()
    dt = time.time() - t0
    after = sb.snapshot()
    ctx.count("runtime-observation", "timeout-result", True, sample={"returns": [r1, r2], "wall_s": round(dt, 2)})
    if r1 != "fine" or r2 != "TO":
        fails.append(("timeout|wrong-result", f"timeout returned {r1!r} / {r2!r}, expected 'fine' / 'TO'"))
    if (after["cwd"], after["env"], after["cfg"], after["dirs"]) != (before["cwd"], before["env"], before["cfg"], before["dirs"]):
        fails.append(("timeout|parent-state-changed", "cwd / environment / Config / directories of the parent differ after a timed call"))
    if multiprocessing.active_children():
        fails.append(("timeout|child-left-running", f"{multiprocessing.active_children()} still alive after the timeout"))
        for ch in multiprocessing.active_children():
            ch.kill()
            ch.join()
    ctx.count("runtime-observation", "timeout-state", True)
    # a wrapped function that RAISES under timeout: the call must return or raise
    for ei in ((0, 5) if full else (0,)):
        how, detail = timed_call_that_raises(ei)
        ctx.count("runtime-observation", ("timeout-raise", ei), True, sample={"wrapped_raises": EXC_NAMES[ei], "call": how, "detail": detail})
        if how == "hung":
            fails.append(("timeout|hangs-when-wrapped-function-raises",
                          f"@timeout(seconds=60) around a function raising {EXC_NAMES[ei]}: the call neither returns nor raises - {detail}"))
    # timeout nested with the scratch-directory wrapper (depth 2), both orders; the inner function outlives the limit
    sb.reset({})
    for order in ("timeout(work_in_tmp_dir(f))", "work_in_tmp_dir(timeout(f))"):
        before = sb.snapshot()

        def sleeper():
            with open("partial.out", "w") as fh:
                fh.write("x")
            time.sleep(30)
        if order.startswith("timeout"):
            f = U.timeout(seconds=0.4, return_value="TO")(U.work_in_tmp_dir(kept_file_exts=[".out"])(sleeper))
        else:
            f = U.work_in_tmp_dir(kept_file_exts=[".out"])(U.timeout(seconds=0.4, return_value="TO")(sleeper))
        try:
            r = f()
        except Exception as e:  # noqa
            r = type(e).__name__
        after = sb.snapshot()
        ctx.count("runtime-observation", ("timeout-nested", order), True, sample={"stack": order, "result": repr(r)})
        if tree_under(after, "tmp") != tree_under(before, "tmp"):
            left = [p for p in tree_under(after, "tmp") if p not in tree_under(before, "tmp")]
            fails.append(("timeout|scratch-dir-left-when-child-killed",
                          f"{order} with f exceeding the limit returned {r!r}; left behind {['/'.join(p) for p in left][:3]} (the child is SIGKILLed, its finally never runs)"))
        if after["cwd"] != before["cwd"] or after["env"] != before["env"]:
            fails.append(("timeout|parent-state-changed", f"{order}: cwd/environment of the parent changed"))
        sb.reset({})
    # worker processes see the parent's configuration at submission time - every submission, not only the first
    sb.Config.n_cores = 7
    sb.Config.XTB.gfn_version = 1
    with U.ProcessPool(max_workers=2) as pool:
        got = pool.submit(_read_cfg).result(timeout=300)
        sb.Config.n_cores = 5
        got2 = pool.submit(_read_cfg).result(timeout=300)
    ctx.count("runtime-observation", "pool-config", True, sample={"first_submission": list(got), "after_change_same_pool": list(got2)})
    if got[0] != 7 or got[1] != 1:
        fails.append(("ProcessPool|worker-config-differs", f"worker saw n_cores={got[0]}, XTB.gfn_version={got[1]}; parent had 7, 1 at submission"))
    if got2[0] != 5:
        fails.append(("ProcessPool|later-submission-sees-stale-config",
                      f"one pool: submit; Config.n_cores = 5; submit -> the second job saw n_cores={got2[0]} (the workers were forked at the first submission)"))
    return fails


# ------------------------------------------------------------------------------------ run
def report(ctx, fails, replay, seen):
    """-> number of failures that are NOT listed as known (known findings must not mask a broken proof / pin)"""
    n = 0
    known = set(ctx.known_keys())
    for key, what in fails:
        n += key not in known
        if key in seen:
            seen[key] += 1
            continue
        seen[key] = 1
        ctx.finding(key, what, replay)
    return n


def base_cfg_term(base_tree):
    return "Definition cfg0 : cfgt := " + ccfg(sorted(base_tree.items())) + ".\n"


def jsonable_case(case):
    return {k: v for k, v in case.items()}


def run(ctx):
    sys.path.insert(0, REPO)
    full = not ctx.quick
    pins_changed = source_pins(ctx.pid, PINS)
    ctx.cov["source_pins"] = {"pinned": len(PINS), "changed": pins_changed}
    if pins_changed:
        ctx.log("source pins changed:", pins_changed)
    # 1. regenerate the model from the repository
    rc, out = sh(["python3", f"{VERIF}/tr/translate_c16.py"], timeout=120)
    ctx.log("translator:", out.strip()[:400])
    translated = rc == 0
    ctx.cov["translator"] = {"ok": translated, "rc": rc, "output": out.strip()[:1500]}
    # 2. proofs over the regenerated terms
    info = {"hygiene": [], "log_tail": out, "build_ok": False}
    proofs_ok = False
    if translated:
        proofs_ok, info = ctx.proofs(SLICE, "C16/Props.v", "AV.C16.Props", extra_targets=["C16/Corr.vo"])
        ctx.log("proofs:", "ok" if proofs_ok else "BROKEN")
        if not proofs_ok:
            ctx.log(info["log_tail"][-1200:])
        ctx.cov["print_assumptions"] = info.get("assumptions", {})
    else:
        ctx.cov["obligations"] += len(ctx.theorems_in("C16/Props.v"))
        ctx.cov["checker_cmd"] = "translator failed closed (exit 3): a statement of the wrappers is outside the vocabulary; proofs not attempted"
    # 3. the real wrappers under fault injection
    sb = Sandbox(os.path.join(ctx.work, "sb"))
    base_tree = None
    seen, nfail = {}, 0
    terms, descr = [], []
    install_patches()
    try:
        sb.reset({})
        base_tree = dict(sb.base_tree)
        S = scripts(full)
        # 3a. every wrapper alone x every script x every failure point
        for stack, pre, late in single_variants():
            for acts in S:
                if not relevant(stack, acts, ctx.quick):
                    continue
                case0 = {"stack": stack, "pre": pre, "acts": acts, "plan": [], "late_env": late}
                res0 = run_case(sb, case0)
                todo = [(case0, res0)]
                for plan in plans_for(res0["steps"], full, ctx.rng):
                    c = dict(case0, plan=plan)
                    todo.append((c, run_case(sb, c)))
                for c, r in todo:
                    nontrivial = bool(any(c["plan"])) or bool(c["acts"]) or bool(late)
                    ctx.count("single-wrapper", (repr(c["stack"]), repr(c["pre"]), repr(c["acts"]), repr(c["plan"]), repr(late)),
                              nontrivial, sample={"stack": repr(c["stack"]), "acts": repr(c["acts"]), "plan": c["plan"], "outcome": r["txt"]})
                    ctx.hist("single-wrapper", f"{c['stack'][0][0]}|{'fault' if any(c['plan']) else 'nofault'}|{(r['out'] or 'other').split()[0].strip('(')}")
                    nfail += report(ctx, property_failures(sb, c, r), {"kind": "case", "case": jsonable_case(c), "observed": r["txt"]}, seen)
                    if outside_model(c):      # disclosed model assumptions: oracles only
                        ctx.hist("outside-model", "oracle-only")
                        continue
                    if r["out"] is None:
                        nfail += report(ctx, [("harness|unclassified-exception", f"unexpected exception {r['txt']}")],
                                        {"kind": "case", "case": jsonable_case(c)}, seen)
                        continue
                    terms.append(case_term(sb, c, r, base_tree))
                    descr.append({"stream": "single-wrapper", "case": jsonable_case(c), "observed": r["txt"]})
        # 3b. nested stacks (depth 2-3, incl. recursion of one decorated function)
        nst = 40 if ctx.quick else 400
        sub = ([S[i] for i in (0, 1, 2, 3, 4, 6, 8)] + [[("raise", i)] for i in (0, 4, 5, 6, 7)]
               + [x for x in S if len(x) >= 2 and x[-1][0] == "raise"])
        fixed = []      # depth 3 on ONE variable, every kind of prior value, return and raise (also as recursion)
        for val in (None, "7", "0", "", " "):
            for stack in ([("env", [("C16_A", "1")]), ("env", [("C16_A", "")]), ("env", [("C16_A", "3")])],
                          [("rec", ("env", [("C16_A", "1"), ("C16_B", "")]), 3)]):
                fixed.append((stack, {"env": ({} if val is None else {"C16_A": val, "C16_B": val})},
                              [[], [("raise", 4)], [("delenv", "C16_A"), ("setenv", "C16_B", "callee"), ("raise", 0)]]))
        rnd = []
        for _ in range(nst):
            stack = random_stack(ctx.rng, full)
            pre = {"env": ctx.rng.choice([{}, {"C16_A": "orig"}, {"C16_A": "orig", "C16_B": "origB"}, {"C16_A": ""},
                                          {"C16_A": "0", "C16_B": ""}, {"C16_A": " "}]),
                   "ll": ctx.rng.choice([None, "exists"]), "workdir": ctx.rng.choice([None, "empty", "full"])}
            rnd.append((stack, pre, ctx.rng.sample(sub, 3 if ctx.quick else 5)))
        for stack, pre, actss in fixed + rnd:
            for acts in actss:
                case0 = {"stack": stack, "pre": pre, "acts": acts, "plan": [], "late_env": {}}
                res0 = run_case(sb, case0)
                todo = [(case0, res0)]
                for plan in plans_for(res0["steps"], False, ctx.rng):
                    c = dict(case0, plan=plan)
                    todo.append((c, run_case(sb, c)))
                for c, r in todo:
                    ctx.count("nested", (repr(c["stack"]), repr(c["pre"]), repr(c["acts"]), repr(c["plan"])), True,
                              sample={"stack": repr(c["stack"]), "acts": repr(c["acts"]), "plan": c["plan"], "outcome": r["txt"]})
                    ctx.hist("nested", f"depth{len(flat(c['stack']))}|{'rec' if c['stack'][0][0] == 'rec' else 'mix'}|{'fault' if any(c['plan']) else 'nofault'}")
                    nfail += report(ctx, property_failures(sb, c, r), {"kind": "case", "case": jsonable_case(c), "observed": r["txt"]}, seen)
                    if outside_model(c):      # disclosed model assumptions: oracles only
                        ctx.hist("outside-model", "oracle-only")
                        continue
                    if r["out"] is None:
                        nfail += report(ctx, [("harness|unclassified-exception", f"unexpected exception {r['txt']}")],
                                        {"kind": "case", "case": jsonable_case(c)}, seen)
                        continue
                    terms.append(case_term(sb, c, r, base_tree))
                    descr.append({"stream": "nested", "case": jsonable_case(c), "observed": r["txt"]})
        # 3c. the per-program execute closures with a fake executable
        methods = {}
        sb.reset({})
        for pn, _ in PROGS:
            methods[pn] = make_method(pn)
        kws = KWS_FULL if full else KWS_QUICK
        kwi = 0
        for pn, inp in PROGS:
            # a machine without enough memory: the external program must never be started
            inputs = [inp] + (["job_mol.in"] if pn == "MOPAC" else [])
            for ki, kw in enumerate(kws):
                env = EMPTY_ENV if ki % 2 else {}
                c = {"prog": pn, "inp": inp, "fns": [inp], "exe": "ok", "plan": [], "lowmem": True, "kw": kw,
                     "pre": {"inputs": inputs, "env": env}}
                r = run_program_case(sb, methods, c)
                ctx.count("execute-closures-lowmem", (pn, kw), True, sample={"program": pn, "keywords": kw, "outcome": r["txt"], "external_started": r["ran"]})
                nfail += report(ctx, program_failures(sb, c, r), {"kind": "program", "case": c, "observed": r["txt"]}, seen)
                # every calculation type: the program runs / is missing / the memory check fails (tape)
                for exe in ("ok", "missing"):
                    if pn == "NWChem" and exe == "missing":
                        continue
                    c0 = {"prog": pn, "inp": inp, "fns": [inp], "exe": exe, "plan": [], "kw": kw,
                          "shape": ("rich" if (ki + (exe == "ok")) % 2 else "plain"),
                          "pre": {"inputs": inputs + ["job.xc"], "env": {} if ki % 2 else EMPTY_ENV}}
                    r0 = run_program_case(sb, methods, c0)
                    todo = [(c0, r0)]
                    mem_at = [i for i, (kind, _, _) in enumerate(r0["log"]) if kind == "mem"]
                    if mem_at and exe == "ok":
                        c1 = dict(c0, plan=[j == mem_at[0] for j in range(mem_at[0] + 1)])
                        todo.append((c1, run_program_case(sb, methods, c1)))
                    for c, r in todo:
                        ctx.count("execute-closures-kwtypes", (pn, kw, exe, repr(c["plan"])), True,
                                  sample={"program": pn, "keywords": kw, "exe": exe, "plan": c["plan"], "outcome": r["txt"]})
                        ctx.hist("execute-closures-kwtypes", f"{pn}|{kw}")
                        nfail += report(ctx, program_failures(sb, c, r), {"kind": "program", "case": c, "observed": r["txt"]}, seen)
                        if r["out"] is not None:
                            terms.append(program_term(sb, c, r, base_tree))
                            descr.append({"stream": "execute-closures-kwtypes", "case": c, "observed": r["txt"]})
            fsets = [[inp]] + ([[inp, "job_mol.in"]] if pn == "MOPAC" else []) + [[inp, "missing.inp"]]
            envs = [{}, {"OMP_NUM_THREADS": "8", "GFORTRAN_UNBUFFERED_ALL": "0"}]
            if pn in ("XTB", "MOPAC"):
                envs.append(EMPTY_ENV)                      # set-but-empty is a state of its own
                if full:
                    envs.append({"OMP_NUM_THREADS": " ", "GFORTRAN_UNBUFFERED_ALL": ""})
            lls = [None, "exists"] if pn in ("XTB", "MOPAC") else [None]
            if pn in ("XTB", "MOPAC") and full:
                lls.append("missing")
            for fns, env, ll, exe in itertools.product(fsets, envs, lls, ("ok", "missing")):
                if not full and env and exe == "missing" and len(fns) > 1:
                    continue
                if pn == "NWChem" and exe == "missing":
                    continue      # started through mpirun: a missing binary is mpirun's business, not a Python exception
                if not full and env is EMPTY_ENV and (len(fns) > 1 or ll):
                    continue
                kwi += 1
                case0 = {"prog": pn, "inp": inp, "fns": fns, "exe": exe, "plan": [], "kw": kws[kwi % len(kws)],
                         "pre": {"env": env, "ll": ll, "inputs": inputs}}
                res0 = run_program_case(sb, methods, case0)
                todo = [(case0, res0)]
                for plan in plans_for(res0["steps"], False, ctx.rng):
                    c = dict(case0, plan=plan)
                    todo.append((c, run_program_case(sb, methods, c)))
                for c, r in todo:
                    ctx.count("execute-closures", (pn, repr(fns), repr(env), ll, exe, repr(c["plan"])), True,
                              sample={"program": pn, "filenames": fns, "exe": exe, "plan": c["plan"], "outcome": r["txt"]})
                    ctx.hist("execute-closures", f"{pn}|{exe}|{'fault' if any(c['plan']) else 'nofault'}")
                    nfail += report(ctx, program_failures(sb, c, r), {"kind": "program", "case": c, "observed": r["txt"]}, seen)
                    if r["out"] is None:
                        nfail += report(ctx, [("harness|unclassified-exception", f"unexpected exception {r['txt']}")],
                                        {"kind": "program", "case": c}, seen)
                        continue
                    terms.append(program_term(sb, c, r, base_tree))
                    descr.append({"stream": "execute-closures", "case": c, "observed": r["txt"]})
        # 3c'. other state-changing library calls (implementation side only)
        nfail += report(ctx, observe_library_calls(ctx, sb, full), {"kind": "library-calls"}, seen)
    finally:
        remove_patches()
    # 3d. timeout / worker processes (unpatched implementation)
    try:
        nfail += report(ctx, observe_runtime(ctx, sb, full), {"kind": "runtime-observation"}, seen)
    finally:
        sb.cleanup()
    ctx.cov["finding_counts"] = dict(seen)
    ctx.log(f"implementation oracles: {nfail} failures over {ctx.cov['evaluations']} runs; keys={list(seen)}")
    # 4. correspondence: the translated terms evaluated in Coq vs what the real wrappers did
    corr_bad, corr_err = [], None
    if proofs_ok:
        bad, corr_err = ctx.coq_bad_indices(PRE + base_cfg_term(base_tree), terms, per_file=150, name="c16cases")
        corr_bad = [(descr[i], terms[i]) for i in bad]
        ctx.cov["disagreements"] = len(corr_bad)
        ctx.log(f"correspondence: {len(terms)} cases, {len(corr_bad)} disagreements" + (f"; coq error {corr_err[:400]}" if corr_err else ""))
        for d, t in corr_bad[:int(os.environ.get("C16_SHOW", "3"))]:
            ctx.log("  disagreement:", d["stream"], {k: v for k, v in d["case"].items()}, "observed:", d["observed"])
            if os.environ.get("C16_SHOW"):
                ctx.log("    term:", t)
    # 5. decide
    if not translated:
        if nfail == 0:
            ctx.violation("a state-changing wrapper contains a statement outside the translator's vocabulary (translator failed closed); "
                          "the restoration theorems are no longer shown for the current source",
                          {"kind": "untranslatable", "translator_output": out.strip()[-1500:]}, found_input=False)
        else:
            ctx.log("translator failed closed; the implementation-level findings above give the concrete failing inputs")
    elif not proofs_ok:
        ctx.proof_failure(info, found_any_input=(nfail > 0))
    if corr_bad or corr_err:
        if nfail == 0:
            ctx.violation("translated terms and the real wrappers disagree (correspondence) and no property-level oracle failed",
                          {"kind": "correspondence", "first": [d for d, _ in corr_bad[:4]], "coq_terms": [t for _, t in corr_bad[:2]],
                           "coq_error": corr_err}, found_input=False)
        else:
            ctx.log("correspondence disagreements accompany the implementation-level findings above")
    if pins_changed and nfail == 0 and not (corr_bad or corr_err) and proofs_ok:
        ctx.violation("hand model no longer pinned to the source: " + ", ".join(pins_changed),
                      {"kind": "source-pin", "changed": pins_changed}, found_input=False)


def replay(ctx, obj):
    sys.path.insert(0, REPO)
    rp = obj.get("replay", {})
    sb = Sandbox(os.path.join(ctx.work, "sb"))
    install_patches()
    try:
        if rp.get("kind") == "case":
            c = rp["case"]
            c["stack"] = [_retuple(s) for s in c["stack"]]
            c["acts"] = [tuple(a) for a in c["acts"]]
            r = run_case(sb, c)
            fails = property_failures(sb, c, r)
        elif rp.get("kind") == "program":
            c = rp["case"]
            methods = {c["prog"]: make_method(c["prog"])}
            r = run_program_case(sb, methods, c)
            fails = program_failures(sb, c, r)
        else:
            remove_patches()
            fails = observe_runtime(ctx, sb, True) if rp.get("kind") == "runtime-observation" else []
            if rp.get("kind") == "library-calls":
                install_patches()
                fails = observe_library_calls(ctx, sb, True)
            r = {"txt": ""}
    finally:
        remove_patches()
        sb.cleanup()
    print("replay: outcome", r.get("txt"), "; property failures:", fails, "; stored:", obj.get("what"))
    return 1 if fails else 0


def _retuple(s):
    s = list(s)
    if s[0] == "rec":
        return ("rec", _retuple(s[1]), s[2])
    if s[0] == "env":
        return ("env", [tuple(x) for x in s[1]])
    if s[0] == "tmp":
        return ("tmp", list(s[1]), list(s[2]), s[3])
    return tuple(s)


MANIFEST = {
    "technique": "Coq proof over effect-language terms regenerated from source (fail-closed ast translator incl. static scans for state writes) + fault-injection correspondence on the real wrappers + implementation-side oracles for timeout / worker processes / other library calls",
    "level_text": ("PROVED (coq/C16/Props.v, 16 theorems closed under the global context) over the terms TRANSLATED on every run from "
                   "work_in, work_in_tmp_dir, run_in_tmp_environment, temporary_config and check_sufficient_memory, for EVERY wrapped "
                   "function (arbitrary state transformer that may raise, chdir, create/delete files, set variables, edit Config), "
                   "EVERY subset of the wrappers' own fallible steps failing (mkdir, mkdtemp, each copy-in / copy-back, memory check) "
                   "and EVERY initial state: cwd restored; the scratch directory and everything below it gone on every path incl. a "
                   "failing copy-in; work_in removes only its own directory and only when empty; kept files in the calling directory "
                   "whenever the call returns, and the call returns whenever the wrapped function does (wherever it returns from) "
                   "unless it failed before reaching it or a later fault is injected; environment variables restored to their call-time "
                   "values (absent stays absent, empty stays empty) on return and on raise; temporary_config restores every key present "
                   "on entry; the wrapped function is not executed when the memory check fails; nesting of any depth/mixture (incl. "
                   "recursion): restoring innermost function => restoring stack, and for an ARBITRARY innermost function one restoring "
                   "layer suffices for its piece of state, incl. scratch removal and kept files under env/config layers; the six execute "
                   "closures (stacks recorded from source, decorator order free) restore cwd/env, remove scratch, copy their kept "
                   "extensions when they return, and reach the external program only behind the memory check. "
                   "NOT PROVED, exercised only: `timeout`, worker-process Config, Config deep-copy aliasing, the numeric memory "
                   "comparison, library calls outside the wrappers."),
    "level_note": ("PARTIAL. `timeout` (fork/join/kill) has no model and no theorem: it is observed on the implementation (returns, times "
                   "out, wrapped function raises, nested with work_in_tmp_dir in both orders; parent state; child reaped). Worker-process "
                   "Config: first and second submission of one pool are observed; the 10 `with ProcessPool` blocks of the package are "
                   "scanned for Config assignments. KNOWN FINDINGS on the unchanged tree (listed in known_findings.json): "
                   "timeout|scratch-dir-left-when-child-killed, ProcessPool|later-submission-sees-stale-config. Found by these "
                   "oracles and repaired in /repo (fc8ade6, e65e4e8, 56fa5fa; guarded): timeout|hangs-when-wrapped-function-raises, "
                   "conf_gen.get_simanl_atoms|env-OMP_NUM_THREADS-not-restored, work_in_tmp_dir|raises-on-kept-ext-directory-in-scratch "
                   "(the isfile guard is now part of the translated term: CopyBack files_only). Stated, not a violation: keys added through Config.__dict__ "
                   "inside temporary_config are not removed (__setattr__ refuses new keys). The memory check is an oracle step of the "
                   "model (tape); the real comparison is exercised by the low-memory streams. Outcome-only model infidelities (state "
                   "agrees): a wrapped function deleting its own work_in/scratch directory, file names with directory parts or non-str "
                   "(oracle-only variants). Trusted: Coq kernel + vm_compute; "
                   "tr/translate_c16.py and the semantics of coq/C16/Effects.v, both validated on every run by evaluating the translated "
                   "terms against the real wrappers on ~1.5k (quick) / ~8k (thorough) fault-injected cases incl. nesting <= 3; "
                   "os.chdir/rmdir/rmtree/environ assignment assumed infallible. Other state-changing library calls (full "
                   "Calculation.run per program, ORCA._get_version_no_output, conf_gen) are covered by before/after oracles only."),
}
